"""C14 -- clean acts on exactly the selected tasks, once, dependents first   (models M7 + selection part of M8)

(T) lean/DoitModel/Props/C14.lean over lean/DoitModel/Model/Clean.lean (CleanDepTree.build_nodes_with_deps / build_nodes /
    flat / _get_leafs on an ordered association list, Clean._execute's clean_list, clean_tasks, Task.clean,
    clean_targets, --forget).
(K) generated task graphs (task_dep, setup, groups with sub-tasks, shared dependencies, definition order unrelated to
    the dependency order, a few cyclic ones) x selections (names, groups, sub-tasks, `*` patterns, none, unknown) x flags
    (--clean-dep, --clean-all, --dry-run, --forget, default_tasks) go through the real CLI in-process
    (`DoitMain(ModuleTaskLoader(ns)).run(['clean', ...])`) with recording clean actions, real target trees and a real
    dependency DB (json / dbm / sqlite3) filled by a real `doit run`.  Compared with the model: the exact sequence of
    visible clean events (announcements, action calls with their dryrun value, removed files / directories, refusals),
    the files and directories left, the tasks left in the DB, the outcome class.
(P) the statement of C14 evaluated by the Lean driver on what the implementation did (`monitorOrder`, `monitorEffects`
    of Model/Clean.lean) plus three trace predicates evaluated here (a clean action never twice / never on a dry run
    unless it takes `dryrun` / saved state of tasks that were not forgotten is untouched).
"""
import itertools
import json
import os
import random
import time

import common
import cleanlib
from common import WorkerStats

META = {
    'property': 'C14',
    'lean_props': ['DoitModel.Props.C14'],
    'level': 'proof',
    'budget': {'quick': 30, 'thorough': 420},
    'anchors': ['doit/cmd_clean.py::Clean.clean_tasks', 'doit/cmd_clean.py::Clean._expand',
                'doit/cmd_clean.py::Clean._execute', 'doit/cmd_clean.py::CleanDepTree',
                'doit/task.py::Task.clean', 'doit/task.py::clean_targets',
                'doit/cmd_base.py::check_tasks_exist', 'doit/cmd_base.py::DoitCmdBase.execute'],
    'technique': 'Lean 4 proofs about an executable model of CleanDepTree / Clean._execute / clean_targets '
                 '(DFS post-order argument with the call stack as ghost state, permutation argument for flat, '
                 'insertion-sort lemma for the target order) + differential correspondence through the real CLI',
    'design_ref': '§5 C14, §4 M7/M8',
    'level_text': 'Machine-checked: for every task table, selection and flag combination the list of tasks handed to '
                  'Task.clean is duplicate-free and is exactly the declarative clean set (selected tasks + sub-tasks; '
                  'closure over task_dep and setup with --clean-dep / no task named / --clean-all); when dependencies '
                  'are included and task_dep+setup is acyclic every task comes before the tasks it depends on; '
                  'the traversal terminates on every graph, cyclic ones included; clean_targets handles a path below '
                  'a target directory before that directory; a dry run changes neither files nor DB; --forget erases '
                  'exactly the cleaned tasks.  The model is tied to doit on every run by driving the real `doit clean` '
                  'on generated graphs, selections, flags, target trees and DB backends and diffing every observable; '
                  'the monitor is the property statement evaluated on the observed behaviour.',
    'level_note': 'Trusted: Lean kernel (axioms propext/Classical.choice/Quot.sound only); the Python harness and doitdrv; '
                  'OrderedDict / list / sorted / os.remove / os.rmdir semantics are modelled, fnmatch is the matcher of M8 (Sel.glob: '
                  '`*`, `?`, bracket classes; C12.glob_spec_full; compared with fnmatch.fnmatchcase directly by C12).  Tasks whose clean behaviour is invisible (no `clean`, or `clean: True` '
                  'with no existing target) cannot be observed and are excluded from the observed order, as in the model.',
    'rule': 'case = task table (1-9 tasks, groups with sub-tasks, task_dep/setup edges from a random topological order, '
            'sometimes a cycle; literal names with [ ] ?) + clean = True | list of 1-3 actions of many shapes + argv + '
            'default_tasks + target tree with symbolic links + backend; non-trivial = accepted, at least two tasks '
            'visibly cleaned and at least one dependency edge between two cleaned tasks; distinct = distinct canonical case',
    'assumptions': ['a generated `clean` is `True` or a list of 1-3 actions (python callable with / without a `dryrun` '
                    'parameter, shell command); a dryrun-aware callable told dryrun=True does not touch the tree',
                    'python clean actions come as def / **kwargs / *args / defaulted parameter / functools.partial / callable '
                    'object, with and without a parameter named `dryrun`',
                    'targets may be symbolic links (to files inside / outside the tree, to directories that cannot become '
                    'empty, to empty directories and to directories that the same clean empties, broken); no target path runs '
                    'through a linked directory; clean actions never touch a link',
                    'task names may contain the fnmatch metacharacters [ ] ? ! (only `*` makes an argument a pattern)',
                    'targets are normalised relative paths without trailing slash; two tasks never share a target '
                    '(TaskControl rejects that)',
                    'patterns use only `*`, `?` and literal characters',
                    'only dbm.dumb is available as dbm implementation in this sandbox'],
    'trusted': ['python dict/OrderedDict/sorted/os semantics: modelled, exercised through the real code',
                'fnmatch: the model of C12 (POSIX, CPython 3.12 fnmatch.translate)'],
    'models': ['M7', 'M8'],
}


# ----------------------------------------------------------------------------------------------
# generator

def gen_tasks(rng):
    n_target = rng.choice([1, 2, 3, 3, 4, 4, 5, 5, 6, 7, 8])
    tasks = []
    k = 0
    while len(tasks) < n_target:
        r = rng.random()
        if r < 0.25:
            g = len(tasks)
            lab = 'g%d' % k
            tasks.append({'label': lab, 'subtask_of': None})
            if rng.random() < 0.2:
                # sub-task names that contain fnmatch metacharacters, next to the name they would match as a pattern
                subnames = rng.choice([['s[0]', 's0'], ['s0', 's[0]'], ['p?', 'px'], ['s[0]']])
            else:
                subnames = ['%s%d' % (rng.choice(['s', 's', 'x']), j) for j in range(rng.randint(1, 3))]
            for sn in subnames:
                tasks.append({'label': '%s:%s' % (lab, sn), 'subtask_of': g})
        elif r < 0.37:
            # a literal task name with `[`, `]` or `?` and (usually) the task it would select if read as a pattern
            magic, twin = rng.choice([('p%d[1]', 'p%d1'), ('q%d?', 'q%dx'), ('r%d[ab]', 'r%da'), ('v%d[!x]', 'v%dy')])
            pair = [magic % k] + ([twin % k] if rng.random() < 0.85 else [])
            rng.shuffle(pair)
            for lab in pair:
                tasks.append({'label': lab, 'subtask_of': None})
        else:
            tasks.append({'label': '%s%d' % (rng.choice(['t', 't', 'u', 'tt', 'x']), k), 'subtask_of': None})
        k += 1
    n = len(tasks)
    rank = list(range(n))
    rng.shuffle(rank)
    for g in range(n):
        subs = cleanlib.subs_of(tasks, g)
        if subs:
            top = max([g] + subs, key=lambda i: rank[i])
            rank[g], rank[top] = rank[top], rank[g]
    p = rng.choice([0.1, 0.2, 0.35, 0.5])
    for i in range(n):
        td, su = [], []
        for j in range(n):
            if rank[i] > rank[j] and tasks[j].get('subtask_of') != i and rng.random() < p:
                r = rng.random()
                if r < 0.65:
                    td.append(j)
                elif r < 0.93:
                    su.append(j)
                else:
                    td.append(j)
                    su.append(j)
        rng.shuffle(td)
        rng.shuffle(su)
        if td and rng.random() < 0.05:
            td.append(td[0])
        tasks[i]['task_dep'] = td + cleanlib.subs_of(tasks, i)
        tasks[i]['setup'] = su
    cyclic = False
    if n >= 2 and rng.random() < 0.06:
        # a back edge: the property does not speak about cyclic graphs, the correspondence does
        i, j = rng.sample(range(n), 2)
        lo, hi = (i, j) if rank[i] < rank[j] else (j, i)
        if cleanlib.subs_of(tasks, lo):
            subs = cleanlib.subs_of(tasks, lo)
            td = tasks[lo]['task_dep']
            tasks[lo]['task_dep'] = td[:len(td) - len(subs)] + [hi] + subs
        else:
            tasks[lo]['task_dep'] = tasks[lo]['task_dep'] + [hi]
        cyclic = True
    return tasks, cyclic


def gen_targets(rng, tasks):
    files, dirs = set(), set()
    shared_taken = False
    for i, t in enumerate(tasks):
        t['kind'] = rng.choices(cleanlib.KINDS, weights=[8, 30, 62])[0]
        t['targets'] = []
        if t['kind'] == 'actions':
            n_act = rng.choices([1, 2, 3], weights=[40, 35, 25])[0]
            acts = []
            for k in range(n_act):
                eff = None
                r = rng.random()
                if r < 0.35:
                    eff = ['rm', rng.choice(['junk%d' % i, 'o%d/f' % i, 'top%d' % i, 'o%d/extra' % i, 'shared/p%d' % i])]
                elif r < 0.5:
                    eff = ['mk', 'new%d_%d' % (i, k)]
                typ = rng.choice(['aware', 'plain', 'cmd'])
                form = 'str' if typ == 'cmd' else 'def'
                if typ == 'plain' and rng.random() < 0.6:
                    form = rng.choice(cleanlib.PLAIN_FORMS)
                elif typ == 'aware' and rng.random() < 0.5:
                    form = rng.choice(cleanlib.AWARE_FORMS)
                elif typ == 'cmd' and rng.random() < 0.4:
                    form = rng.choice(cleanlib.CMD_FORMS)
                if form == 'param' and cleanlib.subs_of(tasks, i):
                    form = 'def'                   # task params on a group task: not a shape of this property
                fail = None
                if rng.random() < 0.12:
                    # a clean action that fails (returns False / raises / exit status 1): reported, `clean` goes on
                    fail = 'exit1' if typ == 'cmd' else rng.choice(['false', 'raise'])
                acts.append({'type': typ, 'eff': eff, 'form': form, 'fail': fail})
            t['actions'] = acts
        if rng.random() < (0.92 if t['kind'] == 'targets' else 0.15):
            pool = ['o%d' % i, 'o%d/f' % i, 'o%d/g.txt' % i, 'o%d/sub' % i, 'o%d/sub/h' % i, 'top%d' % i,
                    'o%d-x' % i, 'o%d.d/k' % i, 'shared/p%d' % i, 'shared/q%d/r' % i]
            if not shared_taken and rng.random() < 0.2:
                pool.append('shared')
            tg = rng.sample(pool, rng.randint(1, min(5, len(pool))))
            if 'shared' in tg:
                shared_taken = True
            t['targets'] = tg
            if rng.random() < 0.25:
                t['pathform'] = rng.choice(['path', 'pure'])      # targets written as pathlib objects
    state = {}
    for i, t in enumerate(tasks):
        for p in t['targets']:
            state[p] = rng.choices(['file', 'dir', 'missing'], weights=[50, 25, 25])[0]
        if t['targets'] and rng.random() < 0.3:
            d = rng.choice(t['targets'])
            state[d + '/extra'] = 'file'       # something that is not a target inside a target
        for a in t.get('actions', []):
            if a['eff'] and a['eff'][0] == 'rm' and a['eff'][1] not in state and rng.random() < 0.8:
                state[a['eff'][1]] = 'file'    # what the action removes usually exists
    if rng.random() < 0.2:
        state['shared/other'] = 'file'
    # symbolic links among the targets of `clean: True` tasks: to a file outside / inside the tree, to a directory that
    # can never become empty (os.rmdir on a link to an empty directory kills the command: kept out, see META), broken
    links = []
    for i, t in enumerate(tasks):
        if t['kind'] == 'targets' and rng.random() < 0.3:
            for _ in range(rng.randint(1, 2)):
                kind = rng.choice(['out-file', 'out-file', 'in-file', 'out-dir', 'in-dir', 'broken', 'empty-dir',
                                   'emptied-dir'])
                link = rng.choice(['ln%d' % i, 'o%d/lnk' % i, 'lnk%d.d/l' % i])
                if any(l[0] == link for l in links) or link in state:
                    continue
                if kind == 'out-file':
                    dest = '../store/v%d.txt' % i
                    state[dest] = 'file'
                elif kind == 'in-file':
                    dest = 'top%d' % i
                    state[dest] = 'file'
                    if rng.random() < 0.5 and dest not in t['targets']:
                        t['targets'].append(dest)
                elif kind == 'out-dir':
                    dest = '../store/d%d' % i
                    state[dest + '/keep'] = 'file'
                elif kind == 'in-dir':
                    dest = 'keepdir%d' % i
                    state[dest + '/keep'] = 'file'
                elif kind == 'empty-dir':
                    # a link to an empty directory: the link is removed (`removing dir`), the directory stays (F-C14 a5ed062)
                    dest = 'emptydir%d' % i
                    state[dest] = 'dir'
                elif kind == 'emptied-dir':
                    # ... to a directory whose only entry is a target file of the same task: empty or not when the link's
                    # turn comes, depending on the (reverse code-point) order of the two paths
                    dest = rng.choice(['emptied%d', 'zz-emptied%d']) % i
                    state[dest + '/t'] = 'file'
                    if dest + '/t' not in t['targets']:
                        t['targets'].append(dest + '/t')
                else:
                    dest = 'nowhere%d' % i
                t['targets'].append(link)
                links.append([link, dest])
    for p, s in sorted(state.items()):
        if s == 'missing':
            continue
        parts = p.split('/')
        for k in range(1, len(parts)):
            if parts[:k] != ['..']:
                dirs.add('/'.join(parts[:k]))
        (files if s == 'file' else dirs).add(p)
    files -= dirs
    out_links = []
    for link, dest in links:
        parts = link.split('/')
        for k in range(1, len(parts)):
            dirs.add('/'.join(parts[:k]))
        out_links.append([link, os.path.relpath(dest, os.path.dirname(link) or '.')])
    for d in list(dirs):
        if d.startswith('../'):
            parts = d.split('/')
            for k in range(2, len(parts)):
                dirs.add('/'.join(parts[:k]))
    dirs.discard('..')
    files -= dirs
    return sorted(files), sorted(dirs), out_links


PATTERNS = ['*', 'g*', 't*', '*:s0', '*:*', 'g1:*', '*1', 'u*', '*x*', 'g?*']
BRACKET_FORM = {'g*': 'g[0-9]*', 't*': '[t]*', '*:s0': '*:s[0]', '*:*': '*[:]*', 'g1:*': 'g[!0]:*', '*1': '*[!0]', 'u*': '[!gt]*',
                '*x*': '*[x-z]*', 'g?*': 'g[]0-9]*'}


def gen_args(rng, tasks):
    labels = [t['label'] for t in tasks]
    magic = [l for l in labels if any(c in l for c in '[]?')]
    if magic and rng.random() < 0.5:
        # name the task with metacharacters literally (command line or default_tasks)
        pick = [rng.choice(magic)] + ([rng.choice(labels)] if rng.random() < 0.3 else [])
        if rng.random() < 0.7:
            return pick, (None if rng.random() < 0.7 else [rng.choice(labels)]), 'magic-name'
        return [], pick, 'magic-default'
    r = rng.random()
    if r < 0.25:
        pos, mode = [], 'none'
    elif r < 0.70:
        pos, mode = [rng.choice(labels) for _ in range(rng.randint(1, 3))], 'names'
    elif r < 0.83:
        pos, mode = [rng.choice(PATTERNS)], 'glob'
        # wave 5 (the matcher is Sel.glob, all of fnmatch): for half of the task sets the pattern is written with a
        # bracket class instead (chosen from the case itself: the random stream of the other cases is unchanged)
        if pos[0] in BRACKET_FORM and len(''.join(labels)) % 2 == 0:
            pos, mode = [BRACKET_FORM[pos[0]]], 'glob-bracket-class'
    elif r < 0.95:
        pos, mode = [rng.choice(labels + PATTERNS) for _ in range(rng.randint(2, 3))], 'mixed'
    else:
        pos, mode = [rng.choice(labels), rng.choice(['nope', 't?', 'g0:'])], 'unknown'
        rng.shuffle(pos)
    r = rng.random()
    if r < 0.55:
        defaults = None
    elif r < 0.88:
        defaults = [rng.choice(labels) for _ in range(rng.randint(1, 2))]
    elif r < 0.92:
        defaults = []
    elif r < 0.97:
        defaults = [rng.choice(PATTERNS)]
    else:
        defaults = [rng.choice(labels), 'zork']
    return pos, defaults, mode


def gen_case(rng):
    tasks, cyclic = gen_tasks(rng)
    files, dirs, links = gen_targets(rng, tasks)
    pos, defaults, mode = gen_args(rng, tasks)
    labels = [t['label'] for t in tasks]
    r = rng.random()
    ran = [] if (cyclic or r < 0.1) else labels if r < 0.75 else rng.sample(labels, rng.randint(1, len(labels)))
    return {'tasks': tasks, 'pos': pos, 'defaults': defaults,
            'cleandep': rng.random() < 0.4, 'cleanall': rng.random() < 0.12,
            'dryrun': rng.random() < 0.25, 'forget': rng.random() < 0.45,
            'files': files, 'dirs': dirs, 'links': links, 'backend': rng.choice(['json', 'dbm', 'sqlite3']), 'ran': ran,
            'sel_mode': mode}


def all_dags(n):
    pairs = [(i, j) for i in range(n) for j in range(n) if i != j]
    for bits in itertools.product([0, 1], repeat=len(pairs)):
        edges = [p for p, b in zip(pairs, bits) if b]
        tasks = [{'label': 't%d' % i, 'subtask_of': None, 'setup': [], 'targets': [], 'kind': 'act',
                  'task_dep': [j for (a, j) in edges if a == i]} for i in range(n)]
        if cleanlib.is_acyclic(tasks):
            yield tasks


def exhaustive_cases(n_max, sample=None, rng=None):
    """all DAGs over task_dep on <= n_max tasks x all selections (subsets in definition order, incl. none) x
    --clean-dep x --clean-all; dry-run / forget / default_tasks / backend vary deterministically with the case number"""
    out = []
    c = 0
    for n in range(1, n_max + 1):
        for tasks in all_dags(n):
            labels = [t['label'] for t in tasks]
            for mask in range(2 ** n):
                pos = [labels[i] for i in range(n) if mask >> i & 1]
                for cleandep in (False, True):
                    for cleanall in (False, True):
                        c += 1
                        if cleanall and (c % 4):
                            continue      # --clean-all ignores the selection: keep a quarter of those
                        out.append({'tasks': json.loads(json.dumps(tasks)), 'pos': pos,
                                    'defaults': [labels[c % n]] if c % 5 == 0 else None,
                                    'cleandep': cleandep, 'cleanall': cleanall, 'dryrun': c % 7 == 0,
                                    'forget': c % 3 == 0, 'files': [], 'dirs': [],
                                    'backend': ['json', 'dbm', 'sqlite3'][c % 3], 'ran': labels if c % 6 == 0 else [],
                                    'sel_mode': 'exhaustive'})
    if sample is not None and len(out) > sample:
        out = rng.sample(out, sample)
    return out


# ----------------------------------------------------------------------------------------------
# evaluation

def evaluate(cases):
    """[(case, obs, ans, diffs, failed)]"""
    cases = [cleanlib.norm_case(c) for c in cases]
    obs = [cleanlib.run_impl(c) for c in cases]
    ans = common.drv_batch([cleanlib.to_req(c, o) for c, o in zip(cases, obs)])
    return [(c, o, a, cleanlib.compare(c, o, a), cleanlib.monitor(c, o, a)) for c, o, a in zip(cases, obs, ans)]


def fails(case):
    try:
        return bool(evaluate([case])[0][4])  # evaluate normalises old-style kinds
    except Exception:  # noqa
        return False


def drop_task(case, k):
    tasks = case['tasks']
    gone = set([k] + cleanlib.subs_of(tasks, k))
    keep = [i for i in range(len(tasks)) if i not in gone]
    if not keep:
        return None
    ren = {old: new for new, old in enumerate(keep)}
    new_tasks = []
    for i in keep:
        t = dict(tasks[i])
        t['task_dep'] = [ren[d] for d in t['task_dep'] if d in ren]
        t['setup'] = [ren[d] for d in t['setup'] if d in ren]
        if t.get('subtask_of') is not None:
            t['subtask_of'] = ren[t['subtask_of']]
        new_tasks.append(t)
    gone_labels = set(tasks[i]['label'] for i in gone)
    c = dict(case)
    c['tasks'] = new_tasks
    c['pos'] = [p for p in case['pos'] if p not in gone_labels]
    if case.get('defaults') is not None:
        c['defaults'] = [p for p in case['defaults'] if p not in gone_labels]
    c['ran'] = [p for p in case.get('ran', []) if p not in gone_labels]
    return c


def shrink_candidates(case):
    tasks = case['tasks']
    for k in range(len(tasks) - 1, -1, -1):
        if tasks[k].get('subtask_of') is None or len(cleanlib.subs_of(tasks, tasks[k]['subtask_of'])) > 1:
            if tasks[k].get('subtask_of') is not None:
                # drop one sub-task: also from the group's task_dep
                c = drop_task(case, k)
            else:
                c = drop_task(case, k)
            if c is not None:
                yield c
    for i, t in enumerate(tasks):
        subs = cleanlib.subs_of(tasks, i)
        own = len(t['task_dep']) - len(subs)
        for j in range(own):
            c = json.loads(json.dumps(case))
            del c['tasks'][i]['task_dep'][j]
            yield c
        for j in range(len(t['setup'])):
            c = json.loads(json.dumps(case))
            del c['tasks'][i]['setup'][j]
            yield c
        for j in range(len(t['targets'])):
            c = json.loads(json.dumps(case))
            del c['tasks'][i]['targets'][j]
            yield c
        acts = t.get('actions', []) if t['kind'] == 'actions' else []
        if len(acts) > 1:
            for j in range(len(acts)):
                c = json.loads(json.dumps(case))
                del c['tasks'][i]['actions'][j]
                yield c
        for j, a in enumerate(acts):
            if a.get('form', 'def') not in ('def', 'str'):
                c = json.loads(json.dumps(case))
                c['tasks'][i]['actions'][j]['form'] = 'str' if a['type'] == 'cmd' else 'def'
                yield c
            if a.get('fail'):
                c = json.loads(json.dumps(case))
                c['tasks'][i]['actions'][j]['fail'] = None
                yield c
            if a.get('eff'):
                c = json.loads(json.dumps(case))
                c['tasks'][i]['actions'][j]['eff'] = None
                yield c
    for i, tk in enumerate(tasks):
        if tk.get('pathform', 'str') != 'str':
            c = json.loads(json.dumps(case))
            c['tasks'][i]['pathform'] = 'str'
            yield c
    for j in range(len(case['pos'])):
        c = dict(case)
        c['pos'] = case['pos'][:j] + case['pos'][j + 1:]
        yield c
    if case.get('defaults') is not None:
        c = dict(case)
        c['defaults'] = None
        yield c
    for flag in ('cleandep', 'cleanall', 'dryrun', 'forget'):
        if case.get(flag):
            c = dict(case)
            c[flag] = False
            yield c
    for key in ('files', 'dirs'):
        for j in range(len(case[key])):
            p = case[key][j]
            if key == 'dirs' and any(q.startswith(p + '/') for q in case['files'] + case['dirs']):
                continue
            c = dict(case)
            c[key] = case[key][:j] + case[key][j + 1:]
            yield c
    for j in range(len(case.get('links', []))):
        c = dict(case)
        c['links'] = case['links'][:j] + case['links'][j + 1:]
        yield c
    if case.get('ran'):
        c = dict(case)
        c['ran'] = []
        yield c
    if case.get('backend') != 'json':
        c = dict(case)
        c['backend'] = 'json'
        yield c


def shrink(case, budget=150, seconds=45):
    cur = case
    progress = True
    t_end = time.time() + seconds
    while progress and budget > 0 and time.time() < t_end:
        progress = False
        for cand in shrink_candidates(cur):
            budget -= 1
            if budget <= 0 or time.time() > t_end:
                break
            if fails(cand):
                cur = cand
                progress = True
                break
    return cur


def describe(case):
    """compact human-readable form of a case (also what distinctness is measured on)"""
    ts = []
    for t in case['tasks']:
        s = t['label']
        if t['task_dep']:
            s += ' task_dep=' + ','.join(case['tasks'][d]['label'] for d in t['task_dep'])
        if t['setup']:
            s += ' setup=' + ','.join(case['tasks'][d]['label'] for d in t['setup'])
        if t['kind'] == 'actions':
            s += ' clean=[' + ', '.join(a['type'] + ('(%s)' % a['form'] if a.get('form', 'def') not in ('def', 'str') else '')
                                        + ('!%s' % a['fail'] if a.get('fail') else '')
                                        + (':%s %s' % tuple(a['eff']) if a.get('eff') else '')
                                        for a in t.get('actions', [])) + ']'
        else:
            s += ' clean=' + {'act': '[plain]', 'actdry': '[aware]'}.get(t['kind'], t['kind'])
        if t['targets']:
            s += ' targets=' + ('%s:' % t['pathform'] if t.get('pathform', 'str') != 'str' else '') + ','.join(t['targets'])
        ts.append(s)
    argv = ['clean'] + [o for f, o in (('cleandep', '--clean-dep'), ('cleanall', '--clean-all'),
                                       ('dryrun', '--dry-run'), ('forget', '--forget')) if case.get(f)] + case['pos']
    return {'tasks': ts, 'argv': ' '.join(argv), 'default_tasks': case.get('defaults'),
            'files': case['files'], 'dirs': case['dirs'], 'links': ['%s -> %s' % tuple(l) for l in case.get('links', [])],
            'backend': case['backend'], 'ran': case.get('ran')}


def is_nontrivial(case, obs):
    if obs.get('outcome') != 'ok' or len(set(obs.get('order', []))) < 2:
        return False
    seen = set(obs['order'])
    return any(d in seen for t in seen for d in cleanlib.deps_of(case['tasks'][t]))


def process_batch(batch):
    st = WorkerStats()
    for case, obs, ans, diffs, failed in evaluate(batch):
        tasks = case['tasks']
        st.case(describe(case), is_nontrivial(case, obs))
        st.traces += 1
        st.count('tasks:%d' % len(tasks))
        n_edges = sum(len(cleanlib.deps_of(t)) for t in tasks)
        st.count('edges:%s' % ('0' if n_edges == 0 else '1-3' if n_edges <= 3 else '4-8' if n_edges <= 8 else '9+'))
        st.count('sel:%s' % case.get('sel_mode', 'corpus'))
        if any(c in t['label'] for t in tasks for c in '[]?'):
            st.count('has-name-with-metachars')
        st.count('defaults:%s' % ('none' if case.get('defaults') is None else 'empty' if not case['defaults'] else 'some'))
        for f in ('cleandep', 'cleanall', 'dryrun', 'forget'):
            if case.get(f):
                st.count('flag:' + f)
        st.count('backend:' + case['backend'])
        st.count('outcome:' + str(obs.get('outcome'))[:40])
        st.count('hyp:acyclic=%s' % ans.get('acyclic'))
        st.count('hyp:wf=%s' % ans.get('wf'))
        st.count('with_deps=%s' % ans.get('with_deps'))
        if ans.get('acyclic') != cleanlib.is_acyclic(tasks):
            st.divergence({'case': case}, 'the Lean acyclicity test and the harness disagree on this graph')
        if any(t.get('subtask_of') is not None for t in tasks):
            st.count('has-group')
        if any(t['setup'] for t in tasks):
            st.count('has-setup-edge')
        for l in case.get('links', []):
            st.count('symlink-target:%s' % ('to-empty-dir' if 'emptydir' in l[1] else 'to-emptied-dir' if 'emptied' in l[1]
                                            else 'outside' if '../store' in l[1]
                                            or l[1].startswith('../../') else 'inside/broken'))
        for t in tasks:
            acts = t.get('actions', []) if t['kind'] == 'actions' else []
            if acts:
                st.count('clean-list-len:%d' % len(acts))
                for a in acts:
                    st.count('action:%s/%s' % (a['type'], a.get('form', 'def')))
                    if a.get('fail'):
                        st.count('action-fails:%s' % a['fail'])
            if t['targets'] and t.get('pathform', 'str') != 'str':
                st.count('targets-as:%s' % t['pathform'])
                types = [a['type'] for a in acts]
                if 'aware' in types and any(x != 'aware' for x in types[types.index('aware') + 1:]):
                    st.count('clean-list:aware-before-non-aware')
                if any(a.get('eff') for a in acts):
                    st.count('clean-list:with-file-effect')
        if obs.get('outcome') == 'ok':
            st.count('cleaned:%s' % (len(obs['order']) if len(obs['order']) < 6 else '6+'))
            st.count('db-before:%s' % ('empty' if not obs['db0'] else 'some'))
            if obs['db0'] != obs['db']:
                st.count('db-changed')
            for e in obs['events']:
                st.count('ev:' + e[0])
            cnt = {}
            for t in set(obs['order']):
                for d in set(cleanlib.deps_of(tasks[t])):
                    cnt[d] = cnt.get(d, 0) + 1
            if any(v >= 2 for v in cnt.values()):
                st.count('shared-dependency-cleaned')
        if failed:
            small = shrink(case) if len(st.violations) < 2 else case
            c2, o2, a2, d2, f2 = evaluate([small])[0]
            if not f2:
                c2, o2, a2, d2, f2 = case, obs, ans, diffs, failed
            st.violation({'case': c2, 'described': describe(c2), 'failed_clauses': f2,
                          'impl': {k: o2.get(k) for k in ('outcome', 'argv', 'order', 'events', 'files0', 'dirs0',
                                                          'links0', 'files', 'dirs', 'links', 'db0', 'db')},
                          'model': {k: a2.get(k) for k in ('outcome', 'order', 'events', 'files', 'dirs', 'links', 'db', 'base',
                                                           'acyclic', 'with_deps')}},
                         'monitor', '; '.join(f2))
        elif diffs:
            st.divergence({'case': case, 'described': describe(case), 'diffs': diffs,
                           'impl_events': obs.get('events'), 'model_events': ans.get('events')},
                          'correspondence M7/M8: ' + diffs[0][:300])
    return st


def load_corpus_cases():
    out = []
    for name, c in common.load_corpus('C14'):
        c = dict(c)
        c.setdefault('sel_mode', 'corpus')
        out.append(c)
    return out


def make_cases(ctx):
    cases = load_corpus_cases()
    # every corpus seed also under the other backends and with the flags flipped one at a time
    extra = []
    for c in cases:
        for be in ('json', 'dbm', 'sqlite3'):
            if be != c['backend']:
                d = dict(c)
                d['backend'] = be
                extra.append(d)
        for f in ('cleandep', 'dryrun', 'forget'):
            d = dict(c)
            d[f] = not c.get(f)
            extra.append(d)
    cases += extra
    n_random = (1200 if ctx.tier == 'quick' else 24000) * ctx.boost
    for k in range(n_random):
        cases.append(gen_case(ctx.sub_rng('case', getattr(ctx, 'seed_shift', 0), k)))
    if ctx.tier == 'thorough' or ctx.boost > 1:
        ex = exhaustive_cases(4)
        ctx.extra['exhaustive_small_scope'] = {'max_tasks': 4, 'cases': len(ex), 'what': 'all DAGs over task_dep x all '
                                               'selections x --clean-dep x --clean-all (a quarter of the --clean-all ones)'}
    else:
        ex = exhaustive_cases(3) + exhaustive_cases(4, sample=1200, rng=ctx.sub_rng('ex4'))[:1200]
        ctx.extra['exhaustive_small_scope'] = {'max_tasks': 3, 'cases': len(ex), 'what': 'all DAGs on <= 3 tasks x all '
                                               'selections x --clean-dep x --clean-all, plus a sample of the 4-task space'}
    cases += ex
    return cases


def run(ctx):
    cases = make_cases(ctx)
    size = max(10, min(200, len(cases) // (common.NCPU * 4)))
    # corpus first: the first batch is the corpus
    batches = [cases[i:i + size] for i in range(0, len(cases), size)]
    for st in common.pmap(process_batch, batches):
        st.merge_into(ctx)
    hyp = {k: v for k, v in ctx.dist.items() if k.startswith('hyp:')}
    ctx.extra['hypotheses_satisfied'] = hyp


def search(ctx):
    ctx.seed_shift = 7919
    run(ctx)


def replay(ctx, data):
    w = data.get('witness') or {}
    case = w.get('case')
    if case is None:
        print('nothing to replay (no failing input was found): %s' % data.get('note'))
        return False
    c, o, a, diffs, failed = evaluate([case])[0]
    print(json.dumps(describe(c), indent=1))
    print('impl  outcome:', o.get('outcome'), ' order:', o.get('order'))
    print('impl  events :', o.get('events'))
    print('model events :', a.get('events'))
    print('impl  files  :', o.get('files0'), '->', o.get('files'))
    print('impl  dirs   :', o.get('dirs0'), '->', o.get('dirs'))
    print('impl  links  :', o.get('links0'), '->', o.get('links'), '  model:', a.get('links'))
    print('impl  db     :', o.get('db0'), '->', o.get('db'), '  model:', a.get('db'))
    print('monitor      :', a.get('monitor'), failed)
    print('correspondence differences:', diffs)
    return not failed and not (data.get('failed') == 'correspondence' and diffs)
