"""C06 -- interrupted or killed runs leave a dependency DB that never lies   (models M9 + interruption, DESIGN §5 C06)

(T) lean/DoitModel/Props/C06.lean: json_kill_all_or_nothing, json_kill_sound, sqlite_kill_atomic, sqlite_kill_sound,
    dbm_kill_sound (every kill point, before or inside a primitive, every outcome A1-A3 leave open),
    interrupt_remembers, interrupt_not_recorded, failed_not_recorded.
(K) real `python -m doit` subprocesses killed by strace signal injection on entry to every modifying syscall on the DB
    files (census run first), resp. interrupted by KeyboardInterrupt/SystemExit raised inside an action; the recovered
    DB state (read back through the backend classes) must be one of the states the Lean model allows for some kill
    point / the state `afterRun` computes.
(P) the property statement on the next invocation: a task is skipped only if some earlier execution of it completed
    successfully on the present content of its file dependencies (kill), tasks reported successful before an
    interruption are remembered and the interrupted / not-started ones are not recorded (interruption).
"""
import os
import shutil

import common
import crashlib as cl
from common import WorkerStats

META = {
    'property': 'C06',
    'lean_props': ['DoitModel.Props.C06', 'DoitModel.Props.C06b'],
    'level': 'proof',
    'models': ['M9'],
    'budget': {'quick': 60, 'thorough': 600},
    'anchors': ['doit/dependency.py::JsonDB.dump', 'doit/dependency.py::DbmDB.dump', 'doit/dependency.py::DbmDB.remove',
                'doit/dependency.py::SqliteDB.dump', 'doit/dependency.py::SqliteDB.remove',
                'doit/dependency.py::Dependency.close', 'doit/runner.py::Runner.run_all', 'doit/runner.py::Runner.finish',
                'doit/runner.py::Runner.process_task_result', 'doit/runner.py::Runner._handle_task_error',
                'doit/runner.py::MRunner.run_tasks'],
    'technique': 'Lean 4 proof over a model of the three persistence protocols (every kill point and every outcome the '
                 'storage assumptions allow) and of run_all\'s try/finally; model tied to the code by strace kill-point '
                 'enumeration and interruption injection on real doit processes',
    'design_ref': '§5 C06, §4 M9',
    'level_text': 'Machine-checked: for every old DB, every effect list of a run, every kill point (before or inside any '
                  'disk primitive) and every resolution of what json/SQLite/dbm.dumb may leave behind (assumptions A1-A3, '
                  'explicit in the model), the DB is unreadable or every readable record is one a successful execution '
                  'wrote (or the untouched old one); JSON and SQLite are all-or-nothing; after an interruption the flush '
                  'that run_all\'s finally performs remembers exactly the tasks reported successful.  Partial by nature: '
                  'A1-A3 are assumptions about the storage layers, validated on every run by killing real doit processes '
                  'at every modifying syscall on the DB files and checking (a) the recovered state is one the model allows '
                  'and (b) the next invocation errors out or skips only tasks that really completed on the present inputs.',
    'level_note': 'Trusted/assumed: Lean kernel; A1 (json rejects proper prefixes), A2 (SQLite atomic commit), A3 '
                  '(dbm.dumb torn states) -- modelled as explicit choices, validated by fault enumeration, not proved; '
                  'process kill only (no power loss / page-cache loss); strace ptrace injection kills on syscall entry; '
                  'the composition with get_status soundness is Props/C06b.lean (mix_inv / mix_sound over the M2 '
                  'status model: records recovered per task from ANY earlier prefix of a faithful history keep the C03 '
                  'invariant, so a skipped task really completed on the present content of its dependencies); the link '
                  'between M9\'s abstract `Legit` records and M2\'s `Recovered` pairs is by construction of the two '
                  'models (M9 record ids = whole M2 records), not a Lean theorem.',
    'rule': 'scenario = 2-4 tasks (own + shared file_dep, random task_dep DAG, optional failing task) x pre-history '
            '(no DB / full run / full run + edits) x backend (json, dbm.dumb, sqlite3) x runner (serial, -n 2, -n 2 -P '
            'thread) x --continue; kill cases = every modifying syscall on the DB files of the run (sampled per budget); '
            'interrupt cases = KeyboardInterrupt/SystemExit in a chosen task; non-trivial = the kill struck (process died) '
            'or the interruption fired; distinct = distinct (scenario, kill point / interrupt spec)',
    'assumptions': ['A1 json rejects every proper prefix of a dumped object', 'A2 SQLite commit is atomic',
                    'A3 dbm.dumb: uncommitted write reads back old/new/garbage; torn commit leaves a subset of the index or '
                    'an unparsable one', 'kill of the process only (SIGKILL), not power loss'],
    'trusted': ['strace signal injection (ptrace) as the fault injector', 'storage layers per A1-A3'],
}


def observed_for_driver(dump, names, interner, legit_ids):
    """translate a DB dump into the driver's `observed`; a record nobody wrote gets a fresh id (so it matches nothing)"""
    slots = []
    for i, t in enumerate(names):
        s = dump['slots'].get(t, 'absent')
        if s == 'absent':
            slots.append([i, 'absent'])
        elif isinstance(s, str) and s.startswith('corrupt'):
            slots.append([i, 'corrupt'])
        else:
            slots.append([i, interner.rid(s)])
    return {'unreadable': bool(dump['unreadable']), 'slots': slots}


def scenario_setup(item):
    """phase 1 worker: build S0, reference run; returns picklable description"""
    sc, root = item
    os.makedirs(root, exist_ok=True)
    s0 = cl.prepare(sc, root)
    ref = cl.census(sc, root, s0)
    return {'sc': sc, 'root': root, 's0': s0, 'ref': ref}


def model_inputs(info):
    sc, ref = info['sc'], info['ref']
    names = list(sc['tasks'])
    it = cl.Interner()
    old_pairs, final_ids = [], {}
    for i, t in enumerate(names):
        s = ref['old']['slots'].get(t, 'absent')
        if isinstance(s, dict):
            old_pairs.append([i, it.rid(s)])
    effs = []
    for kind, t in cl.effects_from(ref['events']):
        i = names.index(t)
        if kind == 'save':
            s = ref['final']['slots'].get(t)
            effs.append(['save', i, it.rid(s) if isinstance(s, dict) else 0])
        else:
            effs.append(['remove', i])
    return names, it, old_pairs, effs


def kill_case(item):
    """phase 2 worker: one kill point of one scenario"""
    info, point = item
    st = WorkerStats()
    sc, ref = info['sc'], info['ref']
    call, n, line = point
    d = os.path.join(info['root'], 'k-%s-%d' % (call, n))
    shutil.copytree(info['s0'], d)
    case = {'scenario': {k: sc[k] for k in ('tasks', 'backend', 'runner', 'pre', 'failing', 'edits', 'continue')},
            'kill': {'syscall': call, 'nth': n, 'census_line': line}}
    try:
        code, err = cl.run_doit(d, sc, 'killed', strace=('kill', call, n))
        struck = code in (-9, 137)
        st.case(case, nontrivial=struck)
        st.count('backend:' + sc['backend'])
        st.count('runner:' + sc['runner'])
        st.count('pre:' + sc['pre'])
        st.count('kill@' + call)
        st.count('struck' if struck else 'not-struck(exit %s)' % code)
        if not struck:
            return st
        st.traces += 1
        names, it, old_pairs, effs = model_inputs(info)
        dump = cl.dump_db(d)
        obs = observed_for_driver(dump, names, it, None)
        ans = common.drv_batch([{'model': 'crash', 'op': 'allowed', 'backend': {'sqlite3': 'sqlite'}.get(sc['backend'], sc['backend']),
                                 'existed': sc['pre'] != 'none', 'tasks': list(range(len(names))), 'old': old_pairs,
                                 'effs': effs, 'observed': obs}])[0]
        st.count('recovered:' + ('unreadable' if dump['unreadable'] else 'readable'))
        for t, s in dump['slots'].items():
            if isinstance(s, str) and s.startswith('corrupt'):
                st.count('recovered-slot:corrupt')
        if not ans.get('allowed'):
            st.divergence(dict(case, recovered=dump, old=ref['old'], final_of_reference_run=ref['final'],
                               effects=effs, model_answer=ans),
                          'correspondence M9/%s: recovered DB state after the kill is none of the states the model allows'
                          % sc['backend'])
        # (P) the next invocation
        code2, err2 = cl.run_doit(d, sc, 'next')
        events = cl.read_events(d)
        st.count('next-exit:%s' % code2)
        lies = cl.skip_soundness(d, sc, events, 'next')
        if code2 == 'timeout':
            st.violation(dict(case, what='next invocation hangs'), 'monitor', 'the invocation after the kill did not terminate')
        for lie in lies:
            st.violation(dict(case, lie=lie, recovered=dump, next_exit=code2), 'monitor',
                         'after the kill the next run skipped %s although no completed successful execution saw the '
                         'present content of its dependencies' % lie['task'])
        if code2 not in (0, 1, 2, 3):
            st.violation(dict(case, next_exit=code2, stderr=err2), 'monitor', 'next invocation ended abnormally')
    finally:
        shutil.rmtree(d, ignore_errors=True)
    return st


def interrupt_case(item):
    """one interruption scenario: reference run, interrupted run, next run"""
    sc, root = item
    st = WorkerStats()
    os.makedirs(root, exist_ok=True)
    case = {'scenario': {k: sc[k] for k in ('tasks', 'backend', 'runner', 'pre', 'failing', 'edits', 'continue', 'interrupt',
                                            'rm_targets') if k in sc}}
    try:
        s0 = cl.prepare(sc, root)
        # uninterrupted reference: which tasks are stale at S0 and what record a successful execution of each saves.  It
        # runs with --continue: without it a failing task would end the reference run early and leave no record to
        # compare for the tasks that the interrupted run (where that task is interrupted before it can fail, or where a
        # parallel runner had others in flight) does complete.
        ref = cl.census(dict(sc, **{'continue': True}), root, s0)
        stale = [e['t'] for e in ref['events'] if e.get('ev') == 'start']
        d = os.path.join(root, 'intr')
        shutil.copytree(s0, d)
        code, err = cl.run_doit(d, sc, 'intr', interrupt=sc['interrupt'])
        ev1 = [e for e in cl.read_events(d) if e.get('run') == 'intr']
        ti = sc['interrupt'].split(':')[0]
        in_teardown = ':teardown:' in sc['interrupt']
        in_report = ':report:' in sc['interrupt']
        fired = any(e.get('ev') == ('teardown' if in_teardown else 'start') and e['t'] == ti for e in ev1)
        if in_report:
            fired = any(e.get('ev') == 'rep' and e['what'] in ('success', 'fail') and e['t'] == ti for e in ev1)
        st.case(case, nontrivial=fired)
        st.count('backend:' + sc['backend'])
        st.count('runner:' + sc['runner'])
        st.count('interrupt:' + sc['interrupt'].split(':')[-1])
        st.count('interrupt-in:' + sc['interrupt'].split(':')[1])
        st.count('fired' if fired else 'not-fired')
        st.count('intr-exit:%s' % code)
        if not fired:
            return st
        st.traces += 1
        dump = cl.dump_db(d)
        # (K) afterRun
        names = list(sc['tasks'])
        it = cl.Interner()
        old_pairs = [[i, it.rid(s)] for i, t in enumerate(names)
                     for s in [ref['old']['slots'].get(t, 'absent')] if isinstance(s, dict)]
        plan = []
        serial = sc['runner'] == 'serial'
        for e in ev1:
            if e.get('ev') == 'rep' and e['what'] == 'success':
                s = ref['final']['slots'].get(e['t'])
                plan.append([names.index(e['t']), 'ok', it.rid(s) if isinstance(s, dict) else 0])
            elif e.get('ev') == 'rep' and e['what'] == 'fail':
                plan.append([names.index(e['t']), 'fail'])
        if not in_teardown and not in_report:
            plan.append([names.index(ti), 'interrupt'])
        # (an internal error raised by the reporter strikes after save_success / remove_success of that task: the plan
        #  already holds its outcome; nothing else is processed afterwards)
        # (an interruption inside a teardown action strikes in finish(), after the flush: the whole plan is persisted)
        ans = common.drv_batch([{'model': 'crash', 'op': 'afterRun', 'continue': True, 'tasks': list(range(len(names))),
                                 'old': old_pairs, 'plan': plan}])[0]
        want = {names[t]: r for t, r in ans['final']}
        got = {}
        for t in names:
            s = dump['slots'].get(t, 'absent')
            got[t] = it.rid(s) if isinstance(s, dict) else (None if s == 'absent' else s)
        if dump['unreadable'] or got != want:
            st.divergence(dict(case, db_after_interruption=dump, model_final=want, observed_final=got, plan=plan),
                          'correspondence interruption/%s: DB after the interrupted run differs from afterRun' % sc['backend'])
        # (P)
        reported_ok = [e['t'] for e in ev1 if e.get('ev') == 'rep' and e['what'] == 'success']
        code2, err2 = cl.run_doit(d, sc, 'next')
        ev2 = [e for e in cl.read_events(d) if e.get('run') == 'next']
        started2 = [e['t'] for e in ev2 if e.get('ev') == 'start']
        utd2 = [e['t'] for e in ev2 if e.get('ev') == 'rep' and e['what'] == 'up-to-date']
        for t in reported_ok:
            if t in started2:
                st.violation(dict(case, task=t, interrupted_run=ev1, next_run=ev2), 'monitor',
                             'task %s was reported successful before the interruption but is executed again on the next '
                             'run although nothing changed (not remembered)' % t)
        failed1 = [e['t'] for e in ev1 if e.get('ev') == 'rep' and e['what'] == 'fail']
        for t in stale:
            if t not in reported_ok and t in utd2:
                st.violation(dict(case, task=t, interrupted_run=ev1, next_run=ev2), 'monitor',
                             'task %s did not complete in the interrupted run (interrupted / not started / failed) and was '
                             'stale before it, but the next run reports it up-to-date' % t)
        lies = cl.skip_soundness(d, sc, cl.read_events(d), 'next')
        for lie in lies:
            st.violation(dict(case, lie=lie), 'monitor', 'next run skipped %s without a completed execution on the present inputs' % lie['task'])
    finally:
        shutil.rmtree(root, ignore_errors=True)
    return st


def strace_works():
    import subprocess
    try:
        p = subprocess.run(['strace', '-f', '-o', '/dev/null', '-e', 'trace=write', '-e', 'inject=write:signal=SIGKILL:when=1',
                            '/bin/echo', 'x'], stdout=subprocess.PIPE, stderr=subprocess.PIPE, timeout=20)
        return p.returncode in (-9, 137)
    except Exception:  # noqa
        return False


def corpus_scenarios():
    out = []
    for name, c in common.load_corpus('C06'):
        out.append(c)
    return out


def run(ctx):
    rng = ctx.rng
    quick = ctx.tier == 'quick'
    base = common.scratch_dir('c06')
    n_kill_sc = (9 if quick else 45) * ctx.boost
    n_intr = (36 if quick else 300) * ctx.boost
    per_sc = 14 if quick else 1000
    have_strace = strace_works()
    ctx.extra['strace_injection_available'] = have_strace
    if not have_strace:
        ctx.note('strace signal injection is not permitted here: kill half not exercised on this run (interruption half only)')
    kill_scs, intr_scs = [], []
    for c in corpus_scenarios():
        (kill_scs if c.get('mode') == 'kill' else intr_scs).append(c)
    # every backend gets kill scenarios on every run
    for i in range(n_kill_sc):
        sc = cl.gen_scenario(ctx.sub_rng('kill', i), 'kill')
        sc['backend'] = cl.BACKENDS[i % 3]
        kill_scs.append(sc)
    for i in range(n_intr):
        sc = cl.gen_scenario(ctx.sub_rng('intr', i), 'interrupt')
        sc['backend'] = cl.BACKENDS[i % 3]
        intr_scs.append(sc)
    if have_strace:
        infos = common.pmap(scenario_setup, [(sc, os.path.join(base, 'ks%d' % i)) for i, sc in enumerate(kill_scs)])
        items = []
        for info in infos:
            pts = info['ref']['points']
            ctx.count('census-points', len(pts))
            if len(pts) > per_sc:
                r = ctx.sub_rng('pts', info['root'])
                # always keep the first and the last few (truncate / commit / rename are there), sample the middle
                keep = pts[:3] + pts[-5:] + r.sample(pts[3:-5], per_sc - 8)
                pts = [p for p in pts if p in keep]
            items += [(info, p) for p in pts]
        for st in common.pmap(kill_case, items):
            st.merge_into(ctx)
        for info in infos:
            shutil.rmtree(info['root'], ignore_errors=True)
    for st in common.pmap(interrupt_case, [(sc, os.path.join(base, 'is%d' % i)) for i, sc in enumerate(intr_scs)]):
        st.merge_into(ctx)
    shutil.rmtree(base, ignore_errors=True)


def replay(ctx, data):
    w = data.get('witness') or {}
    if 'scenario' not in w:
        print('nothing to replay: %s' % data.get('note'))
        return False
    sc = dict(w['scenario'])
    sc.setdefault('dep_file', 'db')
    base = common.scratch_dir('c06r')
    if 'kill' in w:
        sc['mode'] = 'kill'
        info = scenario_setup((sc, os.path.join(base, 'r')))
        pt = (w['kill']['syscall'], w['kill']['nth'], w['kill'].get('census_line', ''))
        st = kill_case((info, pt))
    else:
        sc['mode'] = 'interrupt'
        st = interrupt_case((sc, os.path.join(base, 'r')))
    for v in st.violations:
        print('VIOLATION:', v[2])
    for dv in st.divergences:
        print('DIVERGENCE:', dv[1])
    return not st.violations and not st.divergences
