"""C04 -- an unchanged task is never re-executed   (model M2 "status", DESIGN §4 M2, §5 C04)

(T) lean/DoitModel/Props/C04.lean: C04_minimal (converse of C03_sound on the same invariant), C04_not_executed,
    C04_rerun, C04_touch_md5.
(K) same history harness as C03 (harness/statuslib.py), plus a sampled share of runs under `-n 2` (process) and
    `-n 2 -P thread`.
(P) every `execute_task t` of the implementation in a run without --always-execute (reset-dep's `processed t` is
    evaluated too, as information only) must have the Lean predicate `specUpToDate` false, evaluated by the driver's ghost machine from what
    the implementation was seen to execute -- never from the DB.
"""
import statuslib
import utdtoolslib
from props import c03

META = dict(c03.META)
META.update({
    'property': 'C04',
    'lean_props': ['DoitModel.Props.C04'],
    'budget': {'quick': 25, 'thorough': 420},
    'anchors': c03.META['anchors'] + ['doit/runner.py::MRunner', 'doit/runner.py::MThreadRunner'],
    'design_ref': '§5 C04, §4 M2',
    'level_text': 'Machine-checked: for every finite history (as C03) and every prefix, a task for which none of the '
                  'not-up-to-date conditions holds relative to its last recorded successful execution gets status '
                  '"up-to-date" and the runner leaves it alone (no execution, no DB change); right after the runner '
                  'records a success the task is up-to-date unless an uptodate item is false, nothing is checkable, or '
                  'its own target is missing (C04_rerun); touching a file or rewriting it with the same content '
                  'changes no status under md5 (C04_touch_md5).  Tied to doit on every run by the history harness '
                  '(real files, 3 backends x 2 checkers, serial and -n 2 process/thread runs); the monitor checks '
                  'every real execution without --always against the Lean specification computed from a ghost state '
                  'that never reads the DB.',
    'rule': c03.META['rule'] + '; 15% of the random histories use -n 2 / -n 2 -P thread for some runs',
})
META['trusted'] = list(c03.META['trusted']) + [
    'parallel runners: status is computed in the main process; the model replays tasks in selection order '
    '(histories are generated so that concurrently runnable tasks do not write each other\'s files)']


def run(ctx):
    quick = ctx.tier == 'quick'
    # unit-level differential test of the uptodate helpers (tools.py, result_dep) against Model/UtdTools.lean
    utdtoolslib.run(ctx, 'C04', (600 if quick else 6000) * ctx.boost)
    n_random = (1000 if quick else 8000) * ctx.boost
    statuslib.run_property(ctx, 'C04', n_random, exh_len=(3 if quick and ctx.boost == 1 else 4 if quick else 5),
                           macro_len=(3 if quick and ctx.boost == 1 else 4),
                           shared_len=(3 if quick and ctx.boost == 1 else 4),
                           utd_len=(3 if quick and ctx.boost == 1 else 4),
                           parallel_share=0.15, n_info=(10 if quick else 100))


def search(ctx):
    ctx.seed_shift = 7919
    run(ctx)


def replay(ctx, data):
    if ((data.get('witness') or {}).get('case') or {}).get('kind') == 'utdtools':
        return utdtoolslib.replay(ctx, data)
    return statuslib.replay_case(ctx, data, 'C04')
