"""C04 -- an unchanged task is never re-executed   (model M2 "status", DESIGN §4 M2, §5 C04)

(T) lean/DoitModel/Props/C04.lean: C04_minimal (converse of C03_sound on the same invariant), C04_not_executed,
    C04_rerun, C04_touch_md5.
(K) same history harness as C03 (harness/statuslib.py), plus a sampled share of runs under `-n 2` (process) and
    `-n 2 -P thread`.
(P) every `execute_task t` of the implementation in a run without --always-execute (reset-dep's `processed t` is
    evaluated too, as information only) must have the Lean predicate `specUpToDate` false, evaluated by the driver's ghost machine from what
    the implementation was seen to execute -- never from the DB.

Wave 5: the uptodate helpers of doit/tools.py (run_once, config_changed str/dict, timeout int/timedelta,
check_timestamp_unchanged) and doit/task.py::result_dep (single task / group) are modelled in
lean/DoitModel/Model/UtdTools.lean (answer and saver as a function of (saved values, world)); theorems in the section
`DoitModel.C04.Helpers` of Props/C04.lean; harness/utdtoolslib.py drives the REAL helper objects through
Task._init_uptodate / Dependency.get_status / Task.save_extra_values / save_success / remove_success with a fake
clock, real files (os.utime(ns=)) and a real JsonDB, and diffs every answer and every saved dict with the model
(driver mode `utdtools`); counters `utdtools:<helper>:*`.
"""
import statuslib
import utdtoolslib
from props import c03

META = dict(c03.META)
META.update({
    'property': 'C04',
    'lean_props': ['DoitModel.Props.C04'],
    'budget': {'quick': 30, 'thorough': 420},
    'anchors': c03.META['anchors'] + ['doit/runner.py::MRunner', 'doit/runner.py::MThreadRunner',
                                       'doit/tools.py::timeout', 'doit/tools.py::check_timestamp_unchanged'],
    'design_ref': '§5 C04, §4 M2, §11.8',
    'technique': c03.META['technique'] + '; Lean 4 proofs over an executable model of the uptodate helpers of '
                 'doit/tools.py and task.py::result_dep (answer and saver as functions of what the last successful '
                 'execution saved and the present world) + unit-level differential correspondence against the real '
                 'helper objects driven the way get_status / save_success drive them',
    'level_text': 'Machine-checked: for every finite history (as C03) and every prefix, a task for which none of the '
                  'not-up-to-date conditions holds relative to its last recorded successful execution gets status '
                  '"up-to-date" and the runner leaves it alone (no execution, no DB change); right after the runner '
                  'records a success the task is up-to-date unless an uptodate item is false, nothing is checkable, or '
                  'its own target is missing (C04_rerun); touching a file or rewriting it with the same content '
                  'changes no status under md5 (C04_touch_md5).  Tied to doit on every run by the history harness '
                  '(real files, 3 backends x 2 checkers, serial and -n 2 process/thread runs); the monitor checks '
                  'every real execution without --always against the Lean specification computed from a ghost state '
                  'that never reads the DB.',
    'rule': c03.META['rule'] + '; 15% of the random histories use -n 2 / -n 2 -P thread for some runs'
            '; uptodate helper unit cases (utdtools:*): one helper item (run_once / config_changed over str, dict in '
            'several insertion orders, nested, non-str-non-dict / timeout int incl. 0 and negative, timedelta with '
            'days, milliseconds, microseconds, negative / check_timestamp_unchanged over the 6 spellings of `time` '
            'and 7 cmp_op incl. constant functions / result_dep on a single task and on groups whose task_dep holds '
            'non-sub-tasks and is reordered), 4-12 ops of world change (clock ticks of a quarter second up to days, '
            'config, file atime/mtime/delete, results, group shape), status query, run (ok / failing, with world '
            'changes during the execution); non-trivial = a success was saved and two different answers were seen',
})
META['level_text'] += ('  Uptodate helpers (tools.py run_once / config_changed / timeout / check_timestamp_unchanged, '
                       'task.py result_dep): machine-checked characterisation of each answer as a function of the '
                       'saved values and the present world (config_changed_true_iff, timeout_true_iff, '
                       'timeout_expiry_monotone, timestamp_unchanged_iff, result_dep_true_iff, ...), never '
                       'up-to-date without a recorded success (helper_never_yes_unrecorded, over histories '
                       'helper_history_never_yes_without_success), up-to-date right after a success in an unchanged '
                       'world (helper_yes_after_success, helper_rerun_skips); tied to the real helper objects by a '
                       'unit-level differential test on every run.')
META['assumptions'] = list(META['assumptions']) + [
    'helper unit model: md5 is an injective function parameter (the harness applies the real hashlib.md5 to the '
    'canonical JSON text the model tags); time.time() and file times are multiples of a quarter second (exact '
    'floats); st_ctime is observed, not set; one helper item per task; the JSON canonical text of a dict is computed '
    'by the harness with json.dumps(sort_keys=True)']
META['trusted'] = list(c03.META['trusted']) + [
    'parallel runners: status is computed in the main process; the model replays tasks in selection order '
    '(histories are generated so that concurrently runnable tasks do not write each other\'s files)']


def run(ctx):
    quick = ctx.tier == 'quick'
    # unit-level differential test of the uptodate helpers (tools.py, result_dep) against Model/UtdTools.lean
    utdtoolslib.run(ctx, 'C04', (600 if quick else 6000) * ctx.boost)
    n_random = (1000 if quick else 8000) * ctx.boost
    statuslib.run_property(ctx, 'C04', n_random, exh_len=(3 if quick and ctx.boost == 1 else 4 if quick else 5),
                           macro_len=(3 if quick and ctx.boost == 1 else 4),
                           shared_len=(3 if quick and ctx.boost == 1 else 4),
                           utd_len=(3 if quick and ctx.boost == 1 else 4),
                           parallel_share=0.15, n_info=(10 if quick else 100))


def search(ctx):
    ctx.seed_shift = 7919
    run(ctx)


def replay(ctx, data):
    if ((data.get('witness') or {}).get('case') or {}).get('kind') == 'utdtools':
        return utdtoolslib.replay(ctx, data)
    return statuslib.replay_case(ctx, data, 'C04')
