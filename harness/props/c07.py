"""C07 -- all DB backends behave as the same persistent key-value map   (model M3, DESIGN §5 C07)

(T) lean/DoitModel/Props/C07.lean: refines_json / refines_dbm / refines_sqlite, indistinguishable, reopen_invisible,
    removed_stays_removed  (all op sequences incl. close-and-reopen, any starting content).
(K) the real JsonDB / DbmDB / SqliteDB classes of $VERIF_REPO/doit/dependency.py are driven with generated op
    sequences on real files; outputs are compared position by position with the Lean model of the same backend.
(P) the statement itself: outputs of every real backend == outputs of the specification map (Lean `specOutputs`).
"""
import json
import os
import shutil

import common
from common import WorkerStats, canon

META = {
    'property': 'C07',
    'lean_props': ['DoitModel.Props.C07'],
    'level': 'proof',
    'budget': {'quick': 25, 'thorough': 420},
    'anchors': ['doit/dependency.py::JsonDB', 'doit/dependency.py::DbmDB', 'doit/dependency.py::SqliteDB',
                'doit/dependency.py::JSONCodec'],
    'technique': 'Lean 4 refinement proof (three backend models -> one map, induction over op lists incl. reopen) '
                 '+ differential correspondence against the real backend classes',
    'design_ref': '§5 C07, §4 M3',
    'level_text': 'Machine-checked refinement: for every operation sequence (any length, any number of close/reopen '
                  'sessions, any starting content) each backend model answers exactly as the abstract map and ends '
                  'holding the same content; corollaries: backends indistinguishable, reopen invisible, removed tasks '
                  'stay removed.  The models are tied to doit/dependency.py on every run by driving the real '
                  'JsonDB/DbmDB/SqliteDB on generated sequences with real files and diffing against the Lean models; '
                  'the monitor compares the real outputs with the specification map.',
    'level_note': 'Trusted: Lean kernel (axioms propext/Classical.choice/Quot.sound only); the Python harness and '
                  'doitdrv; json encode/decode round trip on JSON values, dbm.dumb (the only dbm module in this '
                  'sandbox) and sqlite3 as storage layers are exercised, not modelled.  A session abandoned without '
                  'dump() is C06, not C07.',
    'rule': 'op sequences over 3 task ids (one non-ASCII), 3 keys, JSON values (unicode, nested, empty, null), '
            'reopen p=0.15; each run on the 3 real backends; non-trivial = contains a reopen or remove and >= 1 get/has '
            'after a set; distinct = distinct (backend-independent) op sequence',
    'assumptions': ['values are JSON values (tuples etc. would come back as lists after reopen)',
                    'only dbm.dumb is available as dbm implementation in this sandbox'],
    'trusted': ['json/dbm.dumb/sqlite3 storage layers: exercised through the real classes, not modelled'],
}

TASKS = ['t0', 'tão:á', 't2']
KEYS = ['k0', 'deps:', '_values_:']
BACKENDS = ['json', 'dbm', 'sqlite']


def gen_value(rng, depth=0):
    r = rng.random()
    if depth < 2 and r < 0.25:
        return [gen_value(rng, depth + 1) for _ in range(rng.randint(0, 3))]
    if depth < 2 and r < 0.45:
        return {rng.choice(['a', 'b', 'ç', '', 'k\udce9']): gen_value(rng, depth + 1) for _ in range(rng.randint(0, 2))}
    return rng.choice([None, True, False, 0, 1, -7, 3.5, '', 'x', 'naïve ☃', '1', [], {},
                       # a file name that is not UTF-8 as os.fsdecode gives it (lone surrogate), a non-BMP character
                       'caf\udce9.txt', '\U0001F600'])


def gen_values(rng, n):
    """n values with pairwise distinct canonical JSON (the harness interns values by canonical form)"""
    vals, seen = [], set()
    while len(vals) < n:
        v = gen_value(rng)
        if canon(v) not in seen:
            seen.add(canon(v))
            vals.append(v)
    return vals


def gen_ops(rng, n_values):
    n = rng.randint(5, 40)
    ops = []
    for _ in range(n):
        r = rng.random()
        t = rng.randrange(3)
        if r < 0.15:
            ops.append(['reopen'])
        elif r < 0.45:
            ops.append(['set', t, rng.randrange(3), rng.randrange(n_values)])
        elif r < 0.70:
            ops.append(['get', t, rng.randrange(3)])
        elif r < 0.83:
            ops.append(['has', t])
        elif r < 0.95:
            ops.append(['remove', t])
        else:
            ops.append(['removeAll'])
    return ops


def nontrivial(ops):
    kinds = [o[0] for o in ops]
    if 'set' not in kinds:
        return False
    first_set = kinds.index('set')
    return any(k in ('get', 'has') for k in kinds[first_set:]) and ('reopen' in kinds or 'remove' in kinds)


def open_backend(dep, kind, path):
    codec = dep.JSONCodec()
    if kind == 'json':
        return dep.JsonDB(path, codec)
    if kind == 'dbm':
        return dep.DbmDB(path, codec)
    return dep.SqliteDB(path, codec)


def run_impl(dep, kind, ops, values, workdir):
    """drive one real backend; outputs in the driver's format; an exception ends the sequence"""
    vals_canon = {canon(v): i for i, v in enumerate(values)}
    path = os.path.join(workdir, 'db_' + kind)
    for suffix in ('', '.dat', '.dir', '.bak', '.db'):
        if os.path.exists(path + suffix):
            os.remove(path + suffix)
    out = []
    try:
        db = open_backend(dep, kind, path)
        for op in ops:
            tag = op[0]
            if tag == 'set':
                # a deep copy: backends keep the object; later ops must not alias it
                db.set(TASKS[op[1]], KEYS[op[2]], json.loads(json.dumps(values[op[3]])))
                out.append('u')
            elif tag == 'get':
                got = db.get(TASKS[op[1]], KEYS[op[2]])
                if got is None:
                    # a stored JSON null is indistinguishable from absence through get(); the model keeps the id
                    out.append(['v', None])
                else:
                    out.append(['v', vals_canon.get(canon(got), -1)])
            elif tag == 'has':
                out.append(['b', bool(db.in_(TASKS[op[1]]))])
            elif tag == 'remove':
                db.remove(TASKS[op[1]])
                out.append('u')
            elif tag == 'removeAll':
                db.remove_all()
                out.append('u')
            elif tag == 'reopen':
                db.dump()
                if kind == 'json':
                    pass
                db = open_backend(dep, kind, path)
                out.append('u')
        try:
            db.dump()
        except Exception:  # noqa
            pass
    except Exception as ex:  # noqa
        out.append(['exc', type(ex).__name__ + ': ' + str(ex)[:80]])
    return out


def norm_model(out, values):
    """the model answers get with the interned id; the implementation cannot tell a stored null from absence"""
    res = []
    for o in out:
        if isinstance(o, list) and o[0] == 'v' and o[1] is not None and values[o[1]] is None:
            res.append(['v', None])
        else:
            res.append(o)
    return res


def eval_cases(cases):
    """cases: list of (ops, values).  Returns list of dicts with impl/model/spec outputs per backend."""
    common.use_repo()
    from doit import dependency as dep
    work = common.scratch_dir('c07')
    reqs = []
    for ops, values in cases:
        reqs.append({'model': 'kv', 'backend': 'spec', 'ops': ops})
        for b in BACKENDS:
            reqs.append({'model': 'kv', 'backend': b, 'ops': ops})
    answers = common.drv_batch(reqs)
    res = []
    for i, (ops, values) in enumerate(cases):
        spec = norm_model(answers[4 * i]['out'], values)
        item = {'ops': ops, 'values': values, 'spec': spec, 'model': {}, 'impl': {}}
        for j, b in enumerate(BACKENDS):
            item['model'][b] = norm_model(answers[4 * i + 1 + j]['out'], values)
            item['impl'][b] = run_impl(dep, b, ops, values, work)
        res.append(item)
    shutil.rmtree(work, ignore_errors=True)
    return res


def first_diff(a, b):
    for i in range(max(len(a), len(b))):
        if i >= len(a) or i >= len(b) or a[i] != b[i]:
            return i
    return None


def failing_backends(item):
    return [b for b in BACKENDS if item['impl'][b] != item['spec']]


def shrink(ops, values, backend):
    """one-pass delta debugging on the op list: drop ops while the real backend still disagrees with the spec"""
    cur = list(ops)
    changed = True
    while changed:
        changed = False
        for i in range(len(cur)):
            cand = cur[:i] + cur[i + 1:]
            if not cand:
                continue
            it = eval_cases([(cand, values)])[0]
            if backend in failing_backends(it):
                cur = cand
                changed = True
                break
    return cur


def render(ops, values):
    out = []
    for op in ops:
        if op[0] == 'set':
            out.append('set(%r,%r,%s)' % (TASKS[op[1]], KEYS[op[2]], json.dumps(values[op[3]])))
        elif op[0] == 'get':
            out.append('get(%r,%r)' % (TASKS[op[1]], KEYS[op[2]]))
        elif op[0] in ('has', 'remove'):
            out.append('%s(%r)' % ({'has': 'in_', 'remove': 'remove'}[op[0]], TASKS[op[1]]))
        else:
            out.append({'removeAll': 'remove_all()', 'reopen': 'dump(); reopen'}[op[0]])
    return out


def process_batch(batch):
    """worker: evaluate a batch of cases, return WorkerStats"""
    st = WorkerStats()
    for item in eval_cases(batch):
        ops, values = item['ops'], item['values']
        st.case({'ops': render(ops, values)}, nontrivial(ops))
        st.traces += 3
        st.count('len<=10' if len(ops) <= 10 else 'len<=25' if len(ops) <= 25 else 'len>25')
        for o in ops:
            st.count('op:' + o[0])
        st.count('sessions:%d' % min(4, 1 + sum(1 for o in ops if o[0] == 'reopen')))
        bad = failing_backends(item)
        for b in bad:
            # shrinking costs a few seconds per case: shrink the first two a worker meets, keep the rest as found
            small = shrink(ops, values, b) if len(st.violations) < 2 else ops
            it2 = eval_cases([(small, values)])[0]
            st.violation({'backend': b, 'ops': small, 'values': values, 'rendered': render(small, values),
                          'impl': it2['impl'][b], 'spec': it2['spec'],
                          'first_diff_at': first_diff(it2['impl'][b], it2['spec'])},
                         'monitor', 'real %s backend answers differently from the specification map' % b)
        for b in BACKENDS:
            if item['impl'][b] != item['model'][b] and b not in bad:
                st.divergence({'backend': b, 'ops': ops, 'values': values, 'impl': item['impl'][b],
                               'model': item['model'][b]},
                              'correspondence M3/%s: first diverging output at %s'
                              % (b, first_diff(item['impl'][b], item['model'][b])))
    return st


def exhaustive_cases(maxlen):
    """all sequences up to maxlen over a 10-op alphabet on two tasks / one key+another"""
    alphabet = [['set', 0, 0, 1], ['set', 0, 1, 2], ['set', 1, 0, 3], ['get', 0, 0], ['get', 0, 1], ['has', 0],
                ['has', 1], ['remove', 0], ['removeAll'], ['reopen']]
    values = [None, 'a', {'n': [1, 'ç']}, [1, 2]]
    seqs = [[]]
    out = []
    for _ in range(maxlen):
        seqs = [s + [a] for s in seqs for a in alphabet]
        out += [(s, values) for s in seqs]
    return out


def run(ctx):
    rng = ctx.rng
    cases = []
    for name, c in common.load_corpus('C07'):
        cases.append((c['ops'], c['values']))
        ctx.count('corpus')
    n_random = 600 if ctx.tier == 'quick' else 30000
    n_random *= ctx.boost
    for _ in range(n_random):
        values = gen_values(rng, 6)
        cases.append((gen_ops(rng, len(values)), values))
    if ctx.tier == 'thorough':
        ex = exhaustive_cases(5)
        ctx.extra['exhaustive_small_scope'] = {'alphabet': 10, 'max_len': 5, 'sequences': len(ex)}
        cases += ex
    elif ctx.boost > 1:
        cases += exhaustive_cases(4)
    else:
        cases += exhaustive_cases(3)
    size = max(20, len(cases) // (common.NCPU * 4))
    batches = [cases[i:i + size] for i in range(0, len(cases), size)]
    for st in common.pmap(process_batch, batches):
        st.merge_into(ctx)


def replay(ctx, data):
    w = data.get('witness') or {}
    if 'ops' not in w:
        print('nothing to replay (no failing input was found): %s' % data.get('note'))
        return False
    it = eval_cases([(w['ops'], w['values'])])[0]
    b = w.get('backend')
    print('ops   :', render(w['ops'], w['values']))
    for bk in ([b] if b else BACKENDS):
        print('%-6s impl :' % bk, it['impl'][bk])
        print('%-6s model:' % bk, it['model'][bk])
    print('spec        :', it['spec'])
    return not failing_backends(it)
