"""C09 -- every run terminates; dependency cycles are diagnosed, never hung on   (model M1, DESIGN §5 C09)

(T) lean/DoitModel/Props/C09.lean (see META['level_text']).
(K) the real doit (serial Runner, real MThreadRunner under the deterministic scheduler of runlib, real multiprocessing
    MRunner) on every digraph -- cyclic ones included, self-loops included -- of the exhaustive small scope and on sampled
    larger graphs with cycles through task_dep / setup / calc_dep / target->file_dep / calc results; every observed
    event list + exit code + error class must be accepted by the Lean run model (`{"model":"run","op":"accept"}`).
(P) the four clauses of the property, a decidable Lean predicate (Model/RunC09.lean `monC09`, evaluated by the driver
    slot `{"model":"c09"}` on the implementation's observables), cross-checked by a Python transcription:
      C09_terminates          the run returns: no watchdog, no "no thread enabled" under the scheduler, no worker process
                              left blocked behind a returned run (the CLI would hang joining it at exit)
      C09_cycle_diagnosed     the closure graph of the run has a cycle  =>  exit 3 and the Cyclic/recursive diagnostic
      C09_no_cycle_task_run   no task lying on a cycle was executed (tasks NOT on the cycle may have run before)
      C09_no_false_cycle      no cycle  =>  no cyclic error, no hang, no internal AttributeError/AssertionError (the
                              two ways doit dies when the dispatcher says "hold on" with nothing executing)
    Every case runs under a watchdog; a hang is an observation (`err='deadlock'`), confirmed by a second run with a
    three times longer watchdog before it is reported.
"""
import itertools
import os
import random
import sys
import threading
import time

import common
import runlib

PROP = 'C09'
KEYS = ['C09_terminates', 'C09_cycle_diagnosed', 'C09_no_cycle_task_run', 'C09_no_false_cycle']

META = {
    'property': PROP,
    'lean_props': ['DoitModel.Props.C09'],
    'level': 'proof',
    'budget': {'quick': 40, 'thorough': 540},
    'anchors': ['doit/control.py::TaskDispatcher._add_task', 'doit/control.py::TaskDispatcher._node_add_wait_run',
                'doit/control.py::TaskDispatcher._update_waiting', 'doit/control.py::TaskDispatcher._gen_node',
                'doit/control.py::TaskDispatcher._get_next_node',
                'doit/control.py::TaskDispatcher._process_calc_dep_results',
                'doit/control.py::TaskDispatcher._check_deadlock',
                'doit/control.py::TaskDispatcher._dispatcher_generator', 'doit/control.py::ExecNode',
                'doit/runner.py::Runner.select_task', 'doit/runner.py::Runner.run_tasks',
                'doit/runner.py::Runner.run_all',
                'doit/runner.py::MRunner.get_next_job', 'doit/runner.py::MRunner._run_start_processes',
                'doit/runner.py::MRunner.run_tasks', 'doit/runner.py::MRunner.execute_task_subprocess',
                'doit/doit_cmd.py::DoitMain.run'],
    'technique': ('Lean 4 invariant proofs over the small-step transition system of TaskDispatcher + Runner / MRunner / '
                  'MThreadRunner (M1): dependency-path invariant of ExecNode.ancestors and of the wait sets, rank '
                  'descent over the waiting queue for _check_deadlock, dispatched-set accounting for "hold on"; order '
                  'invariant on terminal reports (age of the first report as a rank along the closure graph) for the cycle '
                  'diagnosis; a lexicographic termination measure decreasing on every transition of both systems; '
                  'counterexample theorems for the dispatcher before the repairs; trace-acceptance correspondence of the '
                  'real doit (three runners, every run under a watchdog) on all small digraphs and sampled larger ones; '
                  'Lean monitor of the full property statement on every implementation run, Python cross-check'),
    'design_ref': '§5 C09, §4 M1, §6.3, §6.4, §7 F-C09a/F-C09b',
    'level_text': ('Machine-checked over the M1 transition system, for every task table (task_dep after expansion, calc_dep, '
                   'setup, calc results), selection, oracle, flag, set-iteration order, worker interleaving and numProcess, in '
                   'every reachable state: C09_no_false_cycle_serial / _parallel / C09_no_false_cycle -- on an acyclic '
                   'dependency graph neither the ancestors test of _gen_node nor _check_deadlock ever raises the cyclic '
                   'error and no run ends with it; C09_no_deadlock_serial -- the serial dispatcher never answers "hold on"; '
                   'C09_no_deadlock_parallel -- whenever the parallel dispatcher answered "hold on" while the run goes on, a '
                   'dispatched node is queued / executing / has a result pending / is being fed back (no hypothesis on the '
                   'graph: this is the repair of F-C09a); C09_dispatched_accounting; C09_cyclic_ends_run_* -- a raised cyclic '
                   'error ends the run with exit code 3; counterexample theorems for the dispatcher before the repair (serial '
                   'AttributeError, parallel hang).  C09_cycle_diagnosed_serial / _parallel / C09_cycle_diagnosed (FULL, every '
                   'graph, all three runners): a run that ends normally (no exception, not stopped by a failure) has no cycle '
                   'in the closure graph the monitor computes from its trace (cycleTasks = []), and in every reachable state '
                   'no task on a cycle of that graph has been started; C09_cycle_task_never_reported (such a task is never '
                   'reported at all); C09_cycle_exit3 (cyclic closure, run not cut short, no internal error => cyclic error '
                   'and exit code 3); C09_report_after_dependencies (the order invariant behind it: the terminal report of a '
                   'task is younger than the terminal report of every closure-graph successor).  The closure graph (edgesAt) counts '
                   'what executed / up-to-date calc_deps delivered AND what calc_deps delivered that were started and then '
                   'failed (task.values is read whatever the run_status): C09_failed_delivery_cycle_diagnosed / '
                   'C09_cycle_only_through_failed_delivery -- a cycle that exists only through a failed delivery ends the '
                   '--continue run with the cyclic error and exit 3, no task on it started or reported (order invariant InvTF '
                   'along failed deliveries, on top of the C08 delivery-completeness invariant).  Hypothesis BoundedCalc: every '
                   'calc_dep name is a task index < nTasks, i.e. the monitor has enough fixed-point fuel -- needed: '
                   'C09_cycle_diagnosed_fuel_counterexample.  C09_terminates_serial / _parallel / C09_terminates (FULL, all '
                   'three runners): on a finite task table (FiniteTable: every name mentioned is an index < N; needed, the '
                   'model allows infinite tables) there is no infinite run -- for every graph, oracle, set-iteration order, '
                   'worker interleaving and numProcess every transition decreases a lexicographic measure '
                   '(C09_serial_step_decreases / C09_parallel_step_decreases: tasks without final status, names without a '
                   'node, calc_deps still to be delivered, weighted list lengths + generator position + queues + runner pc '
                   'with the start/feed loop counters).  Every clause of the property is now a theorem; the monitor still '
                   'evaluates the full statement on every implementation run.  The model is tied to doit on '
                   'every run by trace acceptance of the real doit under a watchdog on all digraphs of the small scope x '
                   'selections x runners and on sampled graphs with cycles through every edge kind.'),
    'level_note': ('full since wave 3: C09_terminates and C09_cycle_diagnosed are theorems (hypotheses: FiniteTable / '
                   'BoundedCalc, i.e. task names are indices below the number of tasks; exit code 3 is concluded under "no '
                   'internal error", halt != crash, which is proved unreachable only for the "hold on" paths).  The '
                   'monitor evaluates the full property statement (terminates / exit 3 + Cyclic diagnostic iff the closure '
                   'graph of the run has a cycle / no task on a cycle executed / acyclic => no cycle error, no hang, no '
                   'internal hold-on crash) on every run.  Acyclic is a Prop (existence of a rank function), decided per '
                   'case by a graph search in the harness / driver.  Thread mode: the Cyclic diagnostic is also looked for in '
                   'the stream of an overlapping python-action, where the process-wide sys.stderr swap of doit (open finding '
                   'F-C17a of C17) routes it.  A worker process alive 1.5 s after DoitMain.run returned counts as a hang.'),
    'partial_theorems': [],
    'rule': ('(1) exhaustive: every digraph (self-loops included) on <=3 tasks (quick) / <=4 tasks (thorough) over task_dep '
             'x every selection (none, and every ordered non-empty list of distinct task names; 4 tasks: none + sampled) x '
             'serial / thread k=2 (k=3 for the whole-graph selection) / process (sampled); (2) structured families: '
             'chains and stars under 3-4 workers, cycles reached from a common parent through each edge kind, a task '
             'selection that raises while the workers are started; (3) sampled graphs of 3-9 tasks from runlib.gen_case '
             '(all edge kinds, oracle, flags, selections) with injected cycles (ring of 1-3 tasks, edge kind per ring '
             'edge in task_dep/setup/calc_dep/file_dep, optionally a parent depending on several ring members, optionally '
             'closed by a calc result), mutually / back-referencing calc results, big-output tasks in process mode; (4) family '
             'fail-delivery-cycle: a calc task whose first action returns task_dep / calc_dep values closing a cycle (self, ring, '
             'delivered calc_dep, via a good calc task, ring through setup, common parent) and whose second action fails, '
             'serial / thread / process, with and without --continue.  non-trivial = has a dependency edge; distinct = rendered case + schedule'),
    'assumptions': ['a hang of the OS / of a child that dies without a message is outside the model (DESIGN §8)',
                    'process-mode runs are sampled (real OS scheduling); a worker process still alive 1.5 s after '
                    'DoitMain.run returned counts as "the CLI would not terminate"',
                    'actions of generated tasks terminate'],
    'trusted': ['deterministic thread scheduler, watchdog and token controller of harness/runlib.py',
                'own dependency expansion runlib.expand'],
    'models': ['M1'],
}

SIGNATURES = {}

# ------------------------------------------------------------------------------------------------------
# running one case under a watchdog (wraps runlib.run_impl)

_LEAK = []
_LEAK_WINDOW = [1.5]      # seconds a worker process may take to disappear after DoitMain.run returned
_orig_reap = runlib._reap_children
_orig_build = runlib.build_namespace
_orig_expand = runlib.expand


def _reap_counting():
    """worker processes that outlive DoitMain.run: a terminated / finishing one is gone at once, one blocked in
    job_q.get() stays (python would wait for it at interpreter exit: the CLI hangs)"""
    import multiprocessing
    alive = 0
    t0 = time.time()
    for p in multiprocessing.active_children():
        p.join(max(0.05, _LEAK_WINDOW[0] - (time.time() - t0)))
        if p.is_alive():
            alive += 1
    _LEAK.append(alive)
    _orig_reap()


def _build_with_delayed(case, rec):
    """case['delayed'] = [{'creator': c, 'executed': name|None, 'tasks': [names]}]: the listed tasks are not yielded by
    the common task-creator but by `task_<c>`, decorated with create_after(executed=..., creates=<the same names>)"""
    ns = _build_with_raise(case, rec)
    delayed = case.get('delayed')
    if not delayed:
        return ns
    from doit import create_after
    gen = ns['task_gen']
    withheld = set(n for d in delayed for n in d['tasks'])

    def task_gen():
        for d in gen():
            if not (d.get('basename') in withheld and d.get('name') is None):
                yield d
    ns['task_gen'] = task_gen
    for spec in delayed:
        def creator(names=tuple(spec['tasks'])):
            for d in gen():
                if d.get('basename') in names and d.get('name') is None:
                    yield d
        creator.__name__ = 'task_' + spec['creator']
        ns['task_' + spec['creator']] = create_after(executed=spec['executed'], creates=list(spec['tasks']))(creator)
    return ns


def has_delayed(case):
    return bool(case.get('delayed'))


def delayed_graph(case):
    """(unknown trigger names, edges) of a case with delayed creators: a task created by `c` stands in the task table from
    the start as a placeholder that depends on `executed` of c; after creation it has its own dependencies"""
    names = set(t['name'] for t in case['tasks'])
    idx = runlib.task_index(case)
    m = case['model']
    edges = {i: set(m['taskDep'][i]) | set(m['setup'][i]) | set(m['calcDep'][i]) for i in range(m['n'])}
    unknown = []
    for spec in case['delayed']:
        e = spec['executed']
        if e is None:
            continue
        if e not in names:
            unknown.append(e)
            continue
        for n in spec['tasks']:
            edges[idx[n]].add(idx[e])
    return unknown, {k: sorted(v) for k, v in edges.items()}


def py_monitor_delayed(case, obs):
    """the four clauses for a run with delayed task-creators (whole task table selected, every task succeeds): the
    closure graph is the static one plus placeholder -> trigger edges"""
    f = obs_flags(obs)
    unknown, edges = delayed_graph(case)
    cyc = [] if unknown else cycle_tasks(edges)
    started = set(e[1] for e in obs['trace'] if e[0] in ('start', 'execute'))
    res = {'C09_terminates': not f['hung'],
           'C09_cycle_diagnosed': (not cyc) or (f['exit'] == 3 and f['errCyclic']),
           'C09_no_cycle_task_run': not any(t in started for t in cyc),
           'C09_no_false_cycle': bool(cyc) or not (f['errCyclic'] or f['errWait'] or f['hung'])}
    return res, {'cycle': cyc, 'unknown_trigger': unknown, 'flags': f, 'family': 'delayed-creators'}


def delayed_oracle(case, obs):
    unknown, edges = delayed_graph(case)
    if unknown:
        if obs['exit'] != 3 or obs['err'] not in ('invalid', 'not-found'):
            return 'create_after(executed=%r) names no task: expected an error exit with a diagnostic, got exit=%s err=%s' \
                % (unknown[0], obs['exit'], obs['err'])
        return None
    if cycle_tasks(edges):
        return None          # the monitor decides
    # (string ids: the empty group task of a creator that yields nothing, not part of the case)
    done = sorted(e[1] for e in obs['trace'] if e[0] == 'success' and isinstance(e[1], int))
    if obs['exit'] != 0 or done != sorted(edges):
        return 'no cycle among tasks and triggers: expected exit 0 and every task executed once, got exit=%s err=%s, %d of %d ' \
               'success reports' % (obs['exit'], obs['err'], len(done), len(edges))
    return None


def _build_with_raise(case, rec):
    """status 'raise': the task's `uptodate` callable raises when select_task asks for its status"""
    c2 = dict(case)
    c2['tasks'] = [dict(t, status='run') if t['status'] == 'raise' else t for t in case['tasks']]
    ns = _orig_build(c2, rec)
    raising = set(t['name'] for t in case['tasks'] if t['status'] == 'raise')
    big = set(t['name'] for t in case['tasks'] if t.get('big') and t['kind'] == 'task')
    exc = dict((t['name'], t['exc_args']) for t in case['tasks'] if t.get('exc_args') and t['kind'] == 'task')
    odd = dict((t['name'], (t.get('calc_extra'), t.get('ret_kind'))) for t in case['tasks']
               if (t.get('calc_extra') or t.get('ret_kind')) and t['kind'] == 'task')
    if not raising and not big and not exc and not odd:
        return ns
    gen = ns['task_gen']

    def boom():
        raise RuntimeError('uptodate check blew up')

    def loud(action):
        # > 64 KiB of captured output: the result of the task does not fit the pipe buffer of the result queue
        import functools

        @functools.wraps(action)        # same signature: doit chooses the keyword arguments by inspecting it
        def act(*a, **kw):
            sys.stdout.write('x' * BIG_OUTPUT + '\n')
            return action(*a, **kw)
        return act

    def exotic(action, kind):
        # the action fails by raising an exception whose `args` hold more than a message (a lock / plain numbers)
        import functools

        @functools.wraps(action)
        def act(*a, **kw):
            try:
                return action(*a, **kw)
            except RuntimeError as e:
                if kind == 'unpicklable':
                    raise ToolFailed(str(e), threading.Lock())
                raise ToolFailed(str(e), 4, ('tool', 'exited'))
        return act

    def odd_result(action, extra, kind):
        # what the action returns: extra keys merged into the dict (`uptodate`, unknown keys), or no dict at all
        import functools

        @functools.wraps(action)
        def act(*a, **kw):
            val = action(*a, **kw)
            if kind == 'str':
                return 'just text' if isinstance(val, dict) else val
            if kind == 'none':
                return None if isinstance(val, dict) else val
            if isinstance(val, dict) and extra:
                val = dict(val)
                val.update(extra)
            return val
        return act

    def task_gen():
        for d in gen():
            if d.get('basename') in odd and d.get('name') is None and d.get('actions'):
                d = dict(d, actions=[odd_result(d['actions'][0], *odd[d['basename']])] + list(d['actions'][1:]))
            if d.get('basename') in exc and d.get('name') is None and d.get('actions'):
                d = dict(d, actions=[exotic(d['actions'][0], exc[d['basename']])] + list(d['actions'][1:]))
            if d.get('basename') in raising and d.get('name') is None:
                d = dict(d, uptodate=[boom])
            if d.get('basename') in big and d.get('name') is None and d.get('actions'):
                d = dict(d, actions=[loud(d['actions'][0])] + list(d['actions'][1:]))
            yield d
    ns['task_gen'] = task_gen
    return ns


# (installed around each run by run_once and removed again: importing this module does not change runlib)


def _settle_threads():
    """worker threads abandoned by an aborted thread-mode run unwind asynchronously (their python-action puts back
    the sys.stdout it saw): wait for them"""
    me = threading.current_thread()
    t0 = time.time()
    for th in threading.enumerate():
        if th is not me and getattr(th, '_sched_id', None) is not None:
            th.join(max(0.05, 2.0 - (time.time() - t0)))


BIG_OUTPUT = 200000


class ToolFailed(Exception):
    """what a failing python-action of a generated task raises when the case says `exc_args`"""

WATCHDOG = {'serial': 5.0, 'thread': 10.0, 'process': 8.0}


def run_once(case, factor=1.0):
    """one run of the real doit.  Thread mode: while a python-action of a worker is in progress, sys.stderr IS that
    action's capturing Writer (doit swaps the process-wide stream: open finding F-C17a of C17), so the `ERROR: Cyclic…`
    line that DoitMain.run writes when the main thread finds the cycle meanwhile lands in the task's captured stream.
    The text is an observable all the same: Writer.write is watched for it."""
    common.use_repo()
    from doit import action as A
    so, se = sys.stdout, sys.stderr
    del _LEAK[:]
    seen = []
    orig_write = A.Writer.write

    def write(self, text):
        if isinstance(text, str) and 'Cyclic/recursive dependencies' in text:
            seen.append(text)
        return orig_write(self, text)
    A.Writer.write = write
    _LEAK_WINDOW[0] = 1.5 * max(1.0, factor)
    runlib._reap_children = _reap_counting
    runlib.build_namespace = _build_with_delayed
    try:
        obs = runlib.run_impl(case, watchdog=WATCHDOG[case['runner']] * factor, keep_raw=False)
    finally:
        runlib._reap_children = _orig_reap
        runlib.build_namespace = _orig_build
        A.Writer.write = orig_write
        _settle_threads()
        sys.stdout, sys.stderr = so, se
    obs['leak'] = _LEAK[-1] if _LEAK else 0
    if seen and obs['err'] is None and obs['exit'] == 3:
        obs['err'] = 'cyclic'
        obs['diag_in_captured_stream'] = True
        obs['stderr'] = (obs.get('stderr') or '') + seen[0]
    return obs


def is_pattern(name):
    return '*' in name


def c09_expand(case):
    """runlib.expand for the extra input shapes of this module:
    * status 'raise' (uptodate callable raises): the model is not asked, expansion as for 'run';
    * a wildcard entry in task_dep (`'*' in name`): Task._expand_task_dep moves it to wild_dep and TaskControl.__init__
      appends, after the explicit entries, every task name matching it (fnmatch, definition order, the task itself
      included, no de-duplication) -- the model gets the expanded list;
    * ret_kind 'str' / 'none' (the action returns a string / None instead of a dict): task.values stays empty, a calc_dep
      on it delivers nothing;  calc_extra (keys `uptodate`, unknown keys merged into the returned dict): ignored by
      Task.update_deps except `uptodate`, which the generators only deliver where it cannot change the status."""
    import fnmatch
    names = [t['name'] for t in case['tasks']]
    tasks = []
    for t in case['tasks']:
        t2 = dict(t)
        if t2['status'] == 'raise':
            t2['status'] = 'run'
        if any(is_pattern(x) for x in t2['task_dep']):
            lit = [x for x in t2['task_dep'] if not is_pattern(x)]
            for pat in [x for x in t2['task_dep'] if is_pattern(x)]:
                lit += [n for n in names if fnmatch.fnmatch(n, pat)]
            t2['task_dep'] = lit
        if t2.get('ret_kind'):
            t2['calc_res'] = None
        tasks.append(t2)
    return _orig_expand(dict(case, tasks=tasks))


def has_wild(case):
    return any(is_pattern(x) for t in case['tasks'] for x in t['task_dep'])


def has_raise(case):
    return any(t['status'] == 'raise' for t in case['tasks'])


def run_case(case, st=None, fast=False):
    """run under the watchdog; a hang is confirmed by a second run with a 2-3x watchdog (a loaded machine must not
    produce an alarm).  fast (used while shrinking only): short watchdog, no confirmation -- the shrunk case is
    confirmed by a normal run afterwards"""
    if fast:
        return run_once(case, 0.3)
    obs = run_once(case)
    if obs['err'] and obs['err'].startswith('crash:') and not obs['trace'] and not has_raise(case):
        again = run_once(case)
        if again['err'] != obs['err']:
            if st is not None:
                st.count('transient_crash_not_reproduced:%s' % obs['err'])
            obs = again
    if obs['err'] == 'deadlock' or obs['leak']:
        if st is not None:
            st.count('hang_observed')
        again = run_once(case, 2.0 if case['runner'] == 'thread' else 3.0)
        if not (again['err'] == 'deadlock' or again['leak']) and st is not None:
            st.count('transient_hang_not_reproduced')
        return again
    return obs


# ------------------------------------------------------------------------------------------------------
# (P) python transcription of Model/RunC09.lean (used for shrinking and as cross-check)

def _finished(trace):
    return set(e[1] for e in trace if e[0] in ('success', 'skip_uptodate'))


class _Fin(set):
    """the tasks that finished well in a trace; `.failed_run` = those that were started and then reported failed (with
    `fail=True` the graph functions below also count what such calc tasks delivered: RunInput.calcResFail)"""
    failed_run = frozenset()


def _finished_f(trace):
    fin = _Fin(_finished(trace))
    started = set(e[1] for e in trace if e[0] == 'start')
    fin.failed_run = frozenset(e[1] for e in trace if e[0] == 'failure' and e[1] in started)
    return fin


def _res(model, fin, c):
    """what calc task `c` has delivered by the end of the trace"""
    if c in fin:
        return model['calcRes'][c]
    if c in getattr(fin, 'failed_run', ()):
        return (model.get('calcResFail') or [None] * model['n'])[c]
    return None


def _calcs_at(model, fin, t):
    cs = list(model['calcDep'][t])
    changed = bool(cs)
    while changed:
        changed = False
        for c in list(cs):
            cr = _res(model, fin, c)
            if cr:
                for x in cr['calc']:
                    if x not in cs:
                        cs.append(x)
                        changed = True
    return cs


def _delivered(model, fin, t):
    out = []
    for c in _calcs_at(model, fin, t):
        cr = _res(model, fin, c)
        if cr:
            out += list(cr['task']) + list(cr['file'])
    return out


def _ran_first(model, fin, t):
    eff = 'run' if model['always'] else model['status'][t]
    if model['ignored'][t] or model['status'][t] == 'error' or eff != 'run':
        return False
    first = list(model['taskDep'][t]) + _calcs_at(model, fin, t) + _delivered(model, fin, t)
    return all(d in fin for d in first)


def edges_at(model, fin, t):
    if t < 0 or t >= model['n']:
        return []
    e = list(model['taskDep'][t]) + _calcs_at(model, fin, t) + _delivered(model, fin, t)
    if _ran_first(model, fin, t):
        e += list(model['setup'][t])
    return [d for d in e if 0 <= d < model['n']]


def closure_graph(case, trace, fail=True):
    """closure graph of the run; fail=True: with what FAILED-after-start calc tasks delivered (doit hands on task.values
    whatever the run_status) = the graph of the Lean monitor `edgesAt` since wave 5; fail=False: executed / up-to-date
    deliveries only (`edgesAtGood` / `cycleTasksGood`, the driver's `cycleGood`)"""
    model = case.get('model') or c09_expand(case)
    fin = _finished_f(trace) if fail else _finished(trace)
    clo, todo = [], [s for s in model['sel'] if 0 <= s < model['n']]
    edges = {}
    while todo:
        t = todo.pop()
        if t in edges:
            continue
        edges[t] = edges_at(model, fin, t)
        clo.append(t)
        todo += edges[t]
    return edges


def cycle_tasks(edges):
    """tasks on a cycle: members of a strongly connected component with more than one task, or with a self-loop
    (iterative Tarjan: the graphs of the scale tier have thousands of nodes)"""
    index, low, on, stack, out = {}, {}, set(), [], []
    counter = [0]
    for root in edges:
        if root in index:
            continue
        work = [(root, iter(edges.get(root, [])))]
        index[root] = low[root] = counter[0]
        counter[0] += 1
        stack.append(root)
        on.add(root)
        while work:
            v, it = work[-1]
            advanced = False
            for w in it:
                if w not in edges:
                    continue
                if w not in index:
                    index[w] = low[w] = counter[0]
                    counter[0] += 1
                    stack.append(w)
                    on.add(w)
                    work.append((w, iter(edges.get(w, []))))
                    advanced = True
                    break
                if w in on:
                    low[v] = min(low[v], index[w])
            if advanced:
                continue
            work.pop()
            if work:
                u = work[-1][0]
                low[u] = min(low[u], low[v])
            if low[v] == index[v]:
                comp = []
                while True:
                    w = stack.pop()
                    on.discard(w)
                    comp.append(w)
                    if w == v:
                        break
                if len(comp) > 1 or v in edges.get(v, []):
                    out += comp
    return sorted(out)


def obs_flags(obs):
    err = obs['err']
    return {'exit': obs['exit'] if isinstance(obs['exit'], int) and obs['exit'] >= 0 else 99,
            'errCyclic': err == 'cyclic',
            'errWait': err in ('crash:AttributeError', 'crash:AssertionError', 'crash:RecursionError'),
            'hung': err == 'deadlock' or bool(obs.get('leak'))}


def py_monitor(case, obs):
    model = case.get('model') or c09_expand(case)
    tr = obs['trace']
    f = obs_flags(obs)
    cyc = cycle_tasks(closure_graph(case, tr))
    cyc0 = cyc if not (model.get('calcResFail') and any(model['calcResFail'])) \
        else cycle_tasks(closure_graph(case, tr, fail=False))
    cut = (not model['cont']) and any(e[0] == 'failure' for e in tr)
    started = set(e[1] for e in tr if e[0] in ('start', 'execute'))
    res = {'C09_terminates': not f['hung'],
           'C09_cycle_diagnosed': (not cyc) or cut or (f['exit'] == 3 and f['errCyclic']),
           'C09_no_cycle_task_run': not any(t in started for t in cyc),
           'C09_no_false_cycle': bool(cyc) or not (f['errCyclic'] or f['errWait'] or f['hung'])}
    d = {'cycle': cyc, 'cut_short': cut, 'flags': f}
    if cyc0 != cyc:
        d['cycle_without_fail_deliveries'] = cyc0
    return res, d


def py_monitor_raise(case, obs):
    """the family "task selection raises" (uptodate callable blows up): the run must end, with an error exit"""
    f = obs_flags(obs)
    res = {k: True for k in KEYS}
    res['C09_terminates'] = (not f['hung']) and f['exit'] not in (0, 99)
    return res, {'flags': f, 'family': 'selection-raises'}


def c09_request(case, obs):
    req = runlib.model_request(case, obs)
    req['model'] = 'c09'
    req.update(obs_flags(obs))
    return req


# ------------------------------------------------------------------------------------------------------
# case generators

def _task(name):
    return runlib._new_task(name)


def base_case(tasks, sel=None, runner='serial', nproc=0, cont=False, policy=None):
    return {'tasks': tasks, 'sel': sel, 'cont': cont, 'always': False, 'runner': runner, 'nproc': nproc,
            'policy': policy or {'kind': 'seeded', 'seed': 1}}


META_NAMES = ['q?', 'qa', 'q[a]', 'q[b]']      # legal literal task names; `q?` and `q[a]` also match `qa` as fnmatch patterns


def digraph_tasks(n, bits, reverse=False, names=None):
    names = names or ['t%d' % i for i in range(n)]
    ts = [_task(names[i]) for i in range(n)]
    for a in range(n):
        deps = [names[b] for b in range(n) if (bits >> (a * n + b)) & 1]
        ts[a]['task_dep'] = list(reversed(deps)) if reverse else deps
    return ts


def all_selections(n):
    names = ['t%d' % i for i in range(n)]
    out = [None]
    for k in range(1, n + 1):
        for p in itertools.permutations(names, k):
            out.append(list(p))
    return out


def exhaustive_specs(tier, boost):
    """compact specs (n, bits, sel, runner, nproc, reverse) of the exhaustive small scope; expanded in the workers"""
    specs = []
    nmax = 3 if tier == 'quick' else 4
    for n in range(1, min(nmax, 3) + 1):
        sels = all_selections(n)
        for bits in range(1 << (n * n)):
            for sel in sels:
                specs.append((n, bits, sel, 'serial', 0, False))
                specs.append((n, bits, sel, 'thread', 2, False))
            specs.append((n, bits, None, 'thread', 3, False))
            # the same graphs over task names that contain fnmatch meta characters
            specs.append((n, bits, None, 'serial', 0, False, True))
            specs.append((n, bits, None, 'thread', 2, False, True))
            if tier != 'quick' or boost > 1:
                specs.append((n, bits, None, 'serial', 0, True))
                specs.append((n, bits, None, 'thread', 2, True))
    # whole-graph and single-name selections first: if the budget cuts the tail on a loaded machine, the tail is the
    # multi-name selections
    specs.sort(key=lambda sp: 0 if sp[2] is None or len(sp[2]) == 1 else 1)
    if nmax >= 4:
        for bits in range(1 << 16):
            specs.append((4, bits, None, 'serial', 0, False))
            specs.append((4, bits, None, 'thread', 2, False))
    return specs


def spec_case(spec):
    n, bits, sel, runner, nproc, rev = spec[:6]
    meta = len(spec) > 6 and spec[6]
    c = base_case(digraph_tasks(n, bits, rev, META_NAMES[:n] if meta else None), sel, runner, nproc,
                  policy={'kind': 'seeded', 'seed': bits * 7 + n})
    c['family'] = 'digraph-metachar-names' if meta else 'digraph'
    return c


EDGE_KINDS = ('task_dep', 'setup', 'calc_dep', 'file')


def add_edge(tasks, a, b, kind):
    """a depends on b through `kind`"""
    ta = next(t for t in tasks if t['name'] == a)
    tb = next(t for t in tasks if t['name'] == b)
    if kind == 'file':
        f = 'f_%s.out' % b.replace(':', '_')
        if f not in tb['targets']:
            tb['targets'].append(f)
        if f not in ta['file_dep']:
            ta['file_dep'].append(f)
    elif b not in ta[kind]:
        ta[kind].append(b)


def inject_cycle(rng, case):
    """ring of 1..3 plain tasks, an edge kind per ring edge; optionally a parent that depends on several members (the
    members are then first created from the common parent: the ancestors test cannot see the cycle); optionally the
    ring is closed by a calc result instead of a static edge"""
    plain = [t for t in case['tasks'] if t['kind'] == 'task' and t['status'] != 'utd' and not t['ignored']]
    if not plain:
        return None
    k = min(len(plain), rng.choice([1, 2, 2, 2, 3, 3]))
    ring = rng.sample(plain, k)
    kinds = []
    for i in range(k):
        a, b = ring[i], ring[(i + 1) % k]
        kind = rng.choice(EDGE_KINDS) if k > 1 else rng.choice(('task_dep', 'setup', 'calc_dep', 'file'))
        if i == k - 1 and k > 1 and rng.random() < 0.15:
            # closed dynamically: a calc_dep of `a` delivers `b` as task_dep
            others = [t for t in plain if t not in ring and t['calc_res'] is None and not t['calc_dep']
                      and not t['task_dep'] and not t['setup'] and not t['file_dep'] and t['outcome'] == 'ok'
                      and t['status'] == 'run']
            if others:
                c = rng.choice(others)
                c['calc_res'] = {'task_dep': [b['name']], 'file_dep': [], 'calc_dep': []}
                add_edge(case['tasks'], a['name'], c['name'], 'calc_dep')
                kinds.append('calc_result')
                continue
        add_edge(case['tasks'], a['name'], b['name'], kind)
        kinds.append(kind)
    if rng.random() < 0.6:
        parents = [t for t in case['tasks'] if t not in ring and t['kind'] == 'task']
        if parents:
            p = rng.choice(parents)
            pk = rng.choice(('task_dep', 'task_dep', 'setup', 'calc_dep'))
            for m in rng.sample(ring, min(len(ring), rng.choice([1, 2, 2, 3]))):
                add_edge(case['tasks'], p['name'], m['name'], pk)
            kinds.append('parent:' + pk)
    case['injected'] = {'ring': [t['name'] for t in ring], 'kinds': kinds}
    return case


def inject_calc_backrefs(rng, case):
    """calc results that deliver calc_deps referring to each other or back to a calc task the receiver has already
    processed (the recursive calc_dep recipe applied to files that include each other): the task graph stays acyclic
    -- a calc result delivers dependencies to the RECEIVER, not to the calc task"""
    tasks = case['tasks']
    names = set(t['name'] for t in tasks)
    ok = [t for t in tasks if t['kind'] == 'task' and t['status'] == 'run' and t['outcome'] == 'ok' and not t['ignored']]
    recv = [t for t in tasks if t['kind'] == 'task']
    if len(ok) < 2 or not recv:
        return None
    a = rng.choice(recv)
    pool = [t for t in ok if t is not a and a['name'] not in t['task_dep'] + t['setup'] + t['calc_dep']]
    if len(pool) < 2:
        return None
    k = min(len(pool), rng.choice([2, 2, 3]))
    cs = rng.sample(pool, k)
    shape = rng.choice(['mutual', 'chain-back', 'ring'])
    for c in cs:
        if c['calc_res'] is None:
            c['calc_res'] = {'task_dep': [], 'file_dep': [], 'calc_dep': []}
    def names_(x, y):
        if y['name'] not in x['calc_res']['calc_dep']:
            x['calc_res']['calc_dep'].append(y['name'])
    if shape == 'mutual':
        for c in cs:
            add_edge(tasks, a['name'], c['name'], 'calc_dep')
        for i, c in enumerate(cs):
            names_(c, cs[(i + 1) % k])
            if k == 2 or rng.random() < 0.5:
                names_(c, cs[(i - 1) % k])
    elif shape == 'chain-back':
        add_edge(tasks, a['name'], cs[0]['name'], 'calc_dep')
        for i in range(k - 1):
            names_(cs[i], cs[i + 1])
        names_(cs[-1], cs[0])
    else:
        add_edge(tasks, a['name'], cs[0]['name'], 'calc_dep')
        for i in range(k):
            names_(cs[i], cs[(i + 1) % k])
    case['calc_backrefs'] = {'receiver': a['name'], 'calcs': [c['name'] for c in cs], 'shape': shape}
    assert all(x in names for c in cs for x in c['calc_res']['calc_dep'])
    return case


def rename_metachars(rng, case):
    """give up to four plain tasks names that contain `?` / `[` `]` (legal literal names), consistently in every
    reference (dependency lists, getargs, calc results, selection)"""
    plain = [t['name'] for t in case['tasks'] if t['kind'] == 'task']
    if not plain:
        return None
    k = min(len(plain), len(META_NAMES), rng.choice([2, 3, 4]))
    old = rng.sample(plain, k)
    new = rng.sample(META_NAMES, k)
    m = dict(zip(old, new))

    def r(x):
        return m.get(x, x)
    for t in case['tasks']:
        t['name'] = r(t['name'])
        for key in ('task_dep', 'setup', 'calc_dep', 'result_dep'):
            t[key] = [r(x) for x in t[key]]
        t['getargs'] = [[g[0], r(g[1]), g[2]] for g in t['getargs']]
        if t['calc_res'] is not None:
            for key in ('task_dep', 'calc_dep'):
                t['calc_res'][key] = [r(x) for x in t['calc_res'].get(key, [])]
    if case.get('sel') is not None:
        case['sel'] = [r(x) for x in case['sel']]
    for key in ('injected', 'calc_backrefs'):
        if case.get(key):
            case[key] = {a: ([r(x) for x in b] if isinstance(b, list) else r(b) if isinstance(b, str) else b)
                         for a, b in case[key].items()}
    case['metachar_names'] = sorted(new)
    return case


def gen_delayed(rng, runner, seed):
    """4-7 succeeding tasks, a random static DAG over task_dep / setup / calc_dep, 1-3 delayed creators owning 1-2 tasks
    each, `executed` = nothing / an unknown name / any task (its own, another creator's, a static one)"""
    n = rng.randint(4, 7)
    ts = [_task('d%d' % i) for i in range(n)]
    for i in range(1, n):
        for _ in range(rng.choice([0, 0, 1, 1, 2])):
            add_edge(ts, 'd%d' % i, 'd%d' % rng.randrange(i), rng.choice(['task_dep', 'task_dep', 'setup', 'calc_dep']))
    names = [t['name'] for t in ts]
    pool = names[:]
    rng.shuffle(pool)
    dl = []
    for j in range(rng.randint(1, 3)):
        own = [pool.pop() for _ in range(min(len(pool), rng.choice([1, 1, 2])))]
        if not own:
            break
        r = rng.random()
        ex = None if r < 0.1 else 'nosuch' if r < 0.2 else rng.choice(names)
        dl.append({'creator': 'c%d' % j, 'executed': ex, 'tasks': own})
    k = 0 if runner == 'serial' else rng.choice([2, 3])
    c = base_case(ts, None, runner, k, policy={'kind': 'seeded', 'seed': rng.randrange(1 << 30)})
    c['delayed'] = dl
    c['family'] = 'sampled-delayed'
    c['seed'] = seed
    return c


def gen_sampled(seed, runner):
    rng = random.Random(seed)
    if runner in ('serial', 'thread') and rng.random() < 0.1:
        return gen_delayed(rng, runner, seed)
    knobs = dict(n_min=3, n_max=9, runner=runner, p_dual=0.2, p_failed=0.08, p_exc=0.04, p_error=0.04, p_utd=0.15,
                 p_ignored=0.05, p_dup_sel=0.0, p_group=0.2,
                 # runlib opt-ins: a calc task that delivers and then fails (model: calcResFail), wildcard task_dep
                 # written by runlib (`task_dep_wild`), several actions per task, calc results with extra keys
                 p_calc_then_fail=0.25, p_wild=0.2, p_multi_action=0.2, p_calc_extra=0.2)
    if runner == 'process':
        knobs['n_max'] = 6
    if runner == 'thread':
        knobs['nproc'] = rng.choice([1, 2, 2, 3, 3, 4])
    c = runlib.gen_case(rng, **knobs)
    if runner == 'thread':
        c['policy'] = runlib.gen_policy(rng, c['nproc'])
    if rng.random() < 0.35:
        inject_calc_backrefs(rng, c)
    mode = rng.random()
    if mode < 0.6:
        inject_cycle(rng, c)
    if runner == 'process' and rng.random() < 0.5:
        plain = [t for t in c['tasks'] if t['kind'] == 'task']
        for t in rng.sample(plain, min(len(plain), rng.choice([1, 1, 2]))):
            t['big'] = True
    if runner == 'process':
        for t in c['tasks']:
            if t['kind'] == 'task' and t['outcome'] == 'error' and t.get('how') == 'raise' and rng.random() < 0.6:
                t['exc_args'] = rng.choice(['unpicklable', 'unpicklable', 'picklable'])
    if rng.random() < 0.25:
        rename_metachars(rng, c)
    if rng.random() < 0.2:
        # calc results with more than the three dependency keys (ignored by Task.update_deps / cannot change a status)
        for t in c['tasks']:
            if t['kind'] == 'task' and t['calc_res'] is not None and rng.random() < 0.7:
                t['calc_extra'] = rng.choice([{'junk': 1}, {'uptodate': [None]}, {'setup': ['nobody'], 'junk': [1, 2]},
                                              {'uptodate': [None], 'targets': ['x']}])
    if rng.random() < 0.15:
        # a wildcard task_dep (prefix of an existing name + '*'): may match the task itself or close a cycle
        cands = [t for t in c['tasks'] if t['kind'] == 'task' and not t['result_dep']]
        if cands:
            t = rng.choice(cands)
            other = rng.choice(c['tasks'])['name']
            pat = other[:rng.randint(1, len(other))] + '*'
            if '*' not in pat[:-1] and '[' not in pat and '?' not in pat:
                # runlib's own field for patterns (gen_case(p_wild) may have put some there already: doit expands all
                # patterns of a task in their written order, after the literal names)
                if pat not in t.setdefault('task_dep_wild', []):
                    t['task_dep_wild'].append(pat)
    if c.get('injected') or c.get('calc_backrefs'):
        # runlib (p_calc_extra) delivers `uptodate: [False]` / `[True]` only to receivers whose status it cannot change;
        # the edges injected above give calc tasks new receivers: keep the key, with items that change nothing
        for t in c['tasks']:
            if t['calc_res'] is not None and 'uptodate' in t['calc_res']:
                t['calc_res']['uptodate'] = [None]
    c['family'] = 'sampled'
    c['seed'] = seed
    return c


def _chain(n, kind, prefix='t'):
    ts = [_task('%s%d' % (prefix, i)) for i in range(n)]
    for i in range(1, n):
        add_edge(ts, ts[i]['name'], ts[i - 1]['name'], kind)
    return ts


def scale_cases(tier, rng):
    """graphs two orders of magnitude larger than everywhere else: deep chains per edge kind (the dispatcher steps one
    generator per node: no recursion may build up), wide fan-in / fan-out under 2..8 workers, long cycles (50+) through
    task_dep / setup / calc_dep / file_dep / group edges, also at the end of a long chain or under a common parent, and
    layered random DAGs.  Too large for the Lean driver (acceptor and monitor are polynomial of degree 3-4): these cases
    run under an outcome oracle instead of the acceptor; up to LEAN_MON_MAX_N tasks the Lean monitor judges them
    (`scale:lean-monitor(acceptor-not-asked)`), beyond that the Python transcription alone (`scale:python-monitor-only`)."""
    quick = tier == 'quick'
    out = []

    def add(ts, sel, runner, k, what, cont=False):
        c = base_case(ts, sel, runner, k, cont=cont, policy={'kind': 'seeded', 'seed': len(out) + 1})
        c['family'] = 'scale'
        c['scale'] = what
        out.append(c)
    deep = 250 if quick else 2000
    for kind in ('task_dep', 'setup', 'calc_dep', 'file'):
        add(_chain(deep, kind), ['t%d' % (deep - 1)], 'serial', 0, 'chain:%s' % kind)
        add(_chain(deep, kind), None, 'thread', {'task_dep': 2, 'setup': 3, 'calc_dep': 8, 'file': 4}[kind], 'chain:%s' % kind)
    add(_chain(60 if quick else 200, 'task_dep'), None, 'process', 2, 'chain:task_dep')
    # every node also names the root of the chain: _gen_node walks `ancestors` for an existing node at every depth
    # (deeper than the interpreter's recursion limit in every tier)
    vdeep = 1500 if quick else 3000
    ts = _chain(vdeep, 'task_dep')
    for i in range(2, vdeep):
        ts[i]['task_dep'].append('t0')
    add(ts, ['t%d' % (vdeep - 1)], 'serial', 0, 'chain+shared-root')
    add(_chain(vdeep, 'setup'), ['t%d' % (vdeep - 1)], 'thread', 2, 'chain:setup')
    wide = 300 if quick else 1500
    for runner, k in (('serial', 0), ('thread', 2), ('thread', 8), ('process', 4)):
        w = wide if runner != 'process' else 40
        ts = [_task('l%d' % i) for i in range(w)] + [_task('top')]
        ts[-1]['task_dep'] = ['l%d' % i for i in range(w)]
        add(ts, ['top'], runner, k, 'fan-in')
        ts = [_task('base')] + [_task('u%d' % i) for i in range(w)]
        for t in ts[1:]:
            t['task_dep'] = ['base']
        add(ts, None, runner, k, 'fan-out')
        ts = [_task('l%d' % i) for i in range(w)] + [_task('top')]
        ts[-1]['setup'] = ['l%d' % i for i in range(w)]
        add(ts, ['top'], runner, k, 'fan-in:setup')
    # long cycles
    for length in ((50, 120) if quick else (50, 400, 1500)):
        for kinds in (('task_dep',), ('setup',), ('calc_dep',), ('task_dep', 'setup', 'calc_dep', 'file')):
            ts = [_task('r%d' % i) for i in range(length)]
            for i in range(length):
                add_edge(ts, 'r%d' % i, 'r%d' % ((i + 1) % length), kinds[i % len(kinds)])
            for runner, k in (('serial', 0), ('thread', 4)):
                add(ts, ['r0'], runner, k, 'cycle:%s:%d' % ('+'.join(kinds) if len(kinds) == 1 else 'mixed', length))
        # the ring sits at the end of a chain / under a common parent that names two members
        ts = _chain(100, 'task_dep') + [_task('r%d' % i) for i in range(length)]
        for i in range(length):
            add_edge(ts, 'r%d' % i, 'r%d' % ((i + 1) % length), 'task_dep')
        ts[0]['task_dep'] = ['r0']
        add(ts, ['t99'], 'thread', 3, 'chain-then-cycle:%d' % length)
        ts = [_task('p')] + [_task('r%d' % i) for i in range(length)] + [_task('free%d' % i) for i in range(20)]
        for i in range(length):
            add_edge(ts, 'r%d' % i, 'r%d' % ((i + 1) % length), 'task_dep')
        ts[0]['task_dep'] = ['free%d' % i for i in range(20)] + ['r%d' % (length // 2), 'r0']
        add(ts, ['p'], 'thread', 4, 'common-parent-cycle:%d' % length)
        add(ts, ['p'], 'serial', 0, 'common-parent-cycle:%d' % length)
    # a cycle through group edges: g -> its sub-tasks -> x -> g
    for nsub in (3, 60):
        ts = [runlib._new_task('g', 'group')] + [runlib._new_task('g:s%d' % i, 'sub', 'g') for i in range(nsub)] + [_task('x')]
        ts[-2]['task_dep'] = ['x']
        ts[-1]['task_dep'] = ['g']
        for runner, k in (('serial', 0), ('thread', 2)):
            add(ts, ['g'], runner, k, 'cycle:group:%d' % nsub)
    # layered random DAGs
    for j in range(3 if quick else 12):
        n = rng.choice([120, 200, 300]) if quick else rng.choice([300, 800, 1500])
        ts = [_task('n%d' % i) for i in range(n)]
        for i in range(1, n):
            for _ in range(rng.choice([0, 1, 1, 2, 3])):
                d = rng.randrange(max(0, i - 40), i)
                add_edge(ts, 'n%d' % i, 'n%d' % d, rng.choice(['task_dep', 'task_dep', 'setup', 'calc_dep', 'file']))
        runner, k = rng.choice([('serial', 0), ('thread', 2), ('thread', 5), ('thread', 8)])
        add(ts, None, runner, k, 'layered-dag')
    return out


LEAN_MAX_N = 30        # beyond this the Lean ACCEPTOR (`{"model":"run","op":"accept"}`) is not asked (minutes at 100 tasks)
LEAN_MON_MAX_N = 400   # the Lean C09 MONITOR judges up to this many tasks since wave 5 (tabulated edges + work-list cycle
                       # search, `cycleTasksFast = cycleTasks`: 0.1 s at 100 tasks, 0.5 s at 300, 20 s at 1500)


def scale_oracle(case, obs):
    """outcome of a run whose tasks all succeed, from the graph alone: a cyclic closure -> exit 3 + the diagnostic;
    otherwise exit 0 and every task of the closure executed exactly once.  Stands in for the correspondence check on
    the cases that are too large for the Lean driver.  Returns None or a description of the mismatch."""
    m = case['model']
    if any(st != 'run' for st in m['status']) or any(o != 'ok' for o in m['outcome']) or any(m['ignored']):
        return None
    edges = closure_graph(case, obs['trace'])
    cyc = cycle_tasks(edges)
    if cyc:
        if obs['exit'] != 3 or obs['err'] != 'cyclic':
            return 'cyclic closure (%d tasks on cycles) but exit=%s err=%s' % (len(cyc), obs['exit'], obs['err'])
        return None
    if obs['exit'] != 0 or obs['err'] is not None:
        return 'acyclic closure of %d tasks, all succeed, but exit=%s err=%s' % (len(edges), obs['exit'], obs['err'])
    done = [e[1] for e in obs['trace'] if e[0] == 'success']
    if sorted(done) != sorted(edges):
        return 'acyclic closure of %d tasks but %d success reports (%d distinct)' % (len(edges), len(done), len(set(done)))
    return None


def structured_cases():
    """deterministic families that the known ways of breaking the property need (run in every tier)"""
    out = []

    def named(c, fam):
        c['family'] = fam
        return c
    # chains / stars with more workers than ready tasks ("hold on" answered to several idle workers)
    for runner, ks in (('thread', (2, 3, 4)), ('process', (3,))):
        for k in ks:
            for length in ((3, 4, 5) if runner == 'thread' else (4,)):
                ts = [_task('t%d' % i) for i in range(length)]
                for i in range(1, length):
                    ts[i]['task_dep'] = ['t%d' % (i - 1)]
                for pol in (('fifo', 'lifo', 'seeded') if runner == 'thread' else ('seeded',)):
                    out.append(named(base_case(ts, None, runner, k, policy={'kind': pol, 'seed': 3}), 'chain'))
    # a cycle first reached from a common parent, through each kind of parent edge and ring edge
    for pk in ('task_dep', 'setup', 'calc_dep', 'file'):
        for rk in ('task_dep', 'setup', 'calc_dep', 'file'):
            for runner, k in (('serial', 0), ('thread', 2), ('process', 2)):
                if runner == 'process' and (pk, rk) not in (('task_dep', 'task_dep'), ('setup', 'task_dep')):
                    continue
                ts = [_task(x) for x in ('a', 'b', 'c')]
                add_edge(ts, 'a', 'b', pk)
                add_edge(ts, 'a', 'c', pk)
                add_edge(ts, 'b', 'c', rk)
                add_edge(ts, 'c', 'b', rk)
                out.append(named(base_case(ts, ['a'], runner, k), 'common-parent'))
    # the same task is calc_dep and task_dep of another (F-C09b), no cycle
    for runner, k in (('serial', 0), ('thread', 1), ('thread', 2), ('process', 2)):
        ts = [_task(x) for x in ('c', 'a')]
        ts[1]['calc_dep'] = ['c']
        ts[1]['task_dep'] = ['c']
        out.append(named(base_case(ts, ['a'], runner, k), 'dual-dep'))
        ts = [_task(x) for x in ('c', 'd', 'a')]
        ts[2]['calc_dep'] = ['c']
        ts[2]['task_dep'] = ['d', 'c']
        out.append(named(base_case(ts, None, runner, k), 'dual-dep'))
    # task selection raises while / after the workers are started (74b6e8a)
    for runner, k in (('serial', 0), ('thread', 2), ('process', 2), ('process', 3)):
        for pos in (0, 1, 2):
            ts = [_task('t%d' % i) for i in range(3)]
            ts[pos]['status'] = 'raise'
            out.append(named(base_case(ts, None, runner, k), 'selection-raises'))
    # calc results whose delivered calc_deps refer to each other / back to an already processed calc task (no cycle)
    for runner, k in (('serial', 0), ('thread', 2), ('process', 2)):
        for shape in ('mutual', 'chain-back', 'mutual-utd-receiver', 'mutual-plus-dep'):
            if runner == 'process' and shape not in ('mutual', 'chain-back'):
                continue
            ts = [_task(x) for x in ('c1', 'c2', 'a')]
            ts[0]['calc_res'] = {'task_dep': [], 'file_dep': [], 'calc_dep': ['c2']}
            ts[1]['calc_res'] = {'task_dep': [], 'file_dep': [], 'calc_dep': ['c1']}
            ts[2]['calc_dep'] = ['c1'] if shape == 'chain-back' else ['c1', 'c2']
            if shape == 'mutual-utd-receiver':
                ts[2]['status'] = 'utd'
            if shape == 'mutual-plus-dep':
                ts.append(_task('d'))
                ts[0]['calc_res']['task_dep'] = ['d']
                ts[1]['calc_res']['file_dep'] = []
            out.append(named(base_case(ts, ['a'], runner, k), 'calc-backref'))
    # a cycle that exists ONLY through what a calc task delivered before it FAILED (two actions: the first returns the
    # dependency values, the second fails; `_process_calc_dep_results` reads task.values whatever the run_status).
    # With --continue the receiver walks into the cycle (exit 3, Cyclic diagnostic); without, the failure stops the run.
    for runner, k in (('serial', 0), ('thread', 2), ('thread', 3), ('process', 2)):
        for shape in ('self', 'ring', 'delivered-calc_dep', 'via-good-calc', 'ring-setup', 'parent'):
            for cont in (True, False):
                for outcome, how in (('failed', 'return'), ('error', 'raise')):
                    if runner == 'process' and (shape not in ('self', 'ring', 'via-good-calc') or how == 'raise'):
                        continue
                    if runner == 'thread' and k == 3 and shape not in ('ring', 'parent'):
                        continue
                    ts = [_task(x) for x in ('c', 'a', 'b', 'c2', 'p')]
                    tc, ta, tb, tc2, tp = ts
                    ta['calc_dep'] = ['c']
                    tc.update(calc_first=True, outcome=outcome, how=how)
                    if shape == 'self':
                        tc['calc_res'] = {'task_dep': ['a'], 'file_dep': [], 'calc_dep': []}
                    elif shape == 'ring':
                        tc['calc_res'] = {'task_dep': ['b'], 'file_dep': [], 'calc_dep': []}
                        tb['task_dep'] = ['a']
                    elif shape == 'delivered-calc_dep':
                        tc['calc_res'] = {'task_dep': [], 'file_dep': [], 'calc_dep': ['b']}
                        tb['task_dep'] = ['a']
                    elif shape == 'via-good-calc':
                        tc['calc_res'] = {'task_dep': [], 'file_dep': [], 'calc_dep': ['c2']}
                        tc2['calc_res'] = {'task_dep': ['a'], 'file_dep': [], 'calc_dep': []}
                    elif shape == 'ring-setup':
                        tc['calc_res'] = {'task_dep': ['b'], 'file_dep': [], 'calc_dep': []}
                        tb['setup'] = ['a']
                    else:
                        # the ring b <-> c2 is first reached from `a` through two delivered names (common parent)
                        tc['calc_res'] = {'task_dep': ['b', 'c2'], 'file_dep': [], 'calc_dep': []}
                        tb['task_dep'] = ['c2']
                        tc2['task_dep'] = ['b']
                    sel = ['p', 'a'] if shape == 'parent' else ['a']
                    c = named(base_case(ts, sel, runner, k, cont=cont), 'fail-delivery-cycle')
                    c['fdc'] = shape
                    out.append(c)
    # the shortest cycle through an implicit file dependency: a task that lists one of its OWN targets as file_dep
    # (TaskControl.add_implicit_task_dep turns it into task_dep: [itself]) -- written in the dodo file, below a parent
    # (task_dep / setup / calc_dep), next to other producers, or delivered at run time as file_dep by a calc_dep
    # (`_process_calc_dep_results` calls add_implicit_task_dep for the delivered files)
    for runner, k in (('serial', 0), ('thread', 2), ('process', 2)):
        for shape in ('direct', 'below-task_dep', 'below-setup', 'below-calc_dep', 'calc-delivered',
                      'calc-delivered-below-parent', 'with-other-producer', 'second-target'):
            for sel_all in (False, True):
                if runner == 'process' and (sel_all or shape not in ('direct', 'below-task_dep', 'calc-delivered')):
                    continue
                ts = [_task(x) for x in ('free', 'stamp', 'p', 'c', 'other')]
                tfree, tstamp, tp, tc, tother = ts
                own = 'f_stamp.out'
                tstamp['targets'] = [own]
                sel = ['stamp']
                if shape in ('calc-delivered', 'calc-delivered-below-parent'):
                    tstamp['calc_dep'] = ['c']
                    tc['calc_res'] = {'task_dep': [], 'file_dep': [own], 'calc_dep': []}
                    if shape == 'calc-delivered-below-parent':
                        tp['task_dep'] = ['free', 'stamp']
                        sel = ['p']
                else:
                    tstamp['file_dep'] = [own]
                if shape.startswith('below-'):
                    tp[shape[len('below-'):]] = ['stamp']
                    sel = ['p']
                if shape == 'with-other-producer':
                    # a second, honest implicit dependency next to the own target
                    tother['targets'] = ['f_other.out']
                    tstamp['file_dep'] = ['f_other.out', own]
                if shape == 'second-target':
                    tstamp['targets'] = ['f_stamp_a.out', own]
                c = named(base_case(ts, None if sel_all else sel, runner, k), 'own-target-filedep')
                c['otf'] = shape
                out.append(c)
    # a cyclic error raised in the main process while a worker process holds a result bigger than the pipe buffer
    for k in (2, 3):
        for sel, cyc in ((['big1', 'a'], 'self'), (['big1', 'big2', 'a'], 'self'), (['big1', 'a'], 'ring'),
                         (['big1', 'big2', 'big3', 'a'], 'ring')):
            ts = [_task(x) for x in ('big1', 'big2', 'big3', 'a', 'b')]
            for t in ts[:3]:
                t['big'] = True
            if cyc == 'self':
                ts[3]['task_dep'] = ['a']
            else:
                ts[3]['task_dep'] = ['b']
                ts[4]['task_dep'] = ['a']
            out.append(named(base_case(ts, sel, 'process', k), 'big-result-in-flight'))
    # a python-action failing with an exception whose args can not be pickled (the failure travels in the result)
    for runner, k in (('process', 2), ('process', 3), ('thread', 2), ('serial', 0)):
        for kind in ('unpicklable', 'picklable'):
            for cont in (False, True):
                if runner != 'process' and (kind == 'picklable' or cont):
                    continue
                ts = [_task(x) for x in ('ok1', 'bad', 'after')]
                ts[1].update(outcome='error', how='raise', exc_args=kind)
                ts[2]['task_dep'] = ['ok1']
                out.append(named(base_case(ts, None, runner, k, cont=cont), 'exception-args'))
        ts = [_task('bad')]
        ts[0].update(outcome='error', how='raise', exc_args='unpicklable')
        out.append(named(base_case(ts, None, runner, k), 'exception-args'))
    # task names that contain fnmatch meta characters, named literally in task_dep
    for runner, k in (('serial', 0), ('thread', 2), ('process', 2)):
        for shape in ('ring[]', 'qa->q?', 'chain[]', 'q?->qa', 'sub-ring[]', 'calc-delivers[]'):
            if runner == 'process' and shape not in ('ring[]', 'qa->q?'):
                continue
            sel = None
            if shape == 'ring[]':
                ts = [_task(x) for x in ('q[a]', 'q[b]')]
                ts[0]['task_dep'] = ['q[b]']
                ts[1]['task_dep'] = ['q[a]']
            elif shape == 'qa->q?':
                ts = [_task(x) for x in ('q?', 'qa')]
                ts[1]['task_dep'] = ['q?']
            elif shape == 'q?->qa':
                ts = [_task(x) for x in ('qa', 'q?', 'qb')]
                ts[1]['task_dep'] = ['qa']
                ts[2]['task_dep'] = ['q?']
            elif shape == 'chain[]':
                ts = [_task(x) for x in ('q[a]', 'qa', 'top')]
                ts[1]['task_dep'] = ['q[a]']
                ts[2]['task_dep'] = ['qa', 'q[a]']
                sel = ['top']
            elif shape == 'sub-ring[]':
                ts = [runlib._new_task('test', 'group'), runlib._new_task('test:[a]', 'sub', 'test'),
                      runlib._new_task('test:[b]', 'sub', 'test')]
                ts[1]['task_dep'] = ['test:[b]']
                ts[2]['task_dep'] = ['test:[a]']
                sel = ['test']
            else:
                ts = [_task(x) for x in ('c', 'q[a]', 'a')]
                ts[0]['calc_res'] = {'task_dep': ['q[a]'], 'file_dep': [], 'calc_dep': []}
                ts[1]['task_dep'] = ['a']
                ts[2]['calc_dep'] = ['c']
                sel = ['a']
            out.append(named(base_case(ts, sel, runner, k), 'metachar-names'))
    # create_after(executed=...) naming an unknown task, a task of the same creator, or creators waiting for each other
    # (serial and thread runners only: the process runner pickles a task made by a delayed creator as a whole, and the
    #  closures the harness uses as actions can not be pickled -- doit reports that as a runtime error, exit 2)
    for runner, k in (('serial', 0), ('thread', 2), ('thread', 3)):
        for shape in ('unknown', 'own-task', 'mutual', 'ring3', 'chain-ok', 'waits-for-dependent', 'unknown-and-cycle',
                      'trigger-depends-on-created'):
            ts = [_task(x) for x in ('b', 'x', 'y', 'z')]
            if shape == 'unknown':
                dl = [{'creator': 'c1', 'executed': 'nosuch', 'tasks': ['x']}]
            elif shape == 'own-task':
                dl = [{'creator': 'c1', 'executed': 'x', 'tasks': ['x', 'y']}]
            elif shape == 'mutual':
                dl = [{'creator': 'c1', 'executed': 'y', 'tasks': ['x']}, {'creator': 'c2', 'executed': 'x', 'tasks': ['y']}]
            elif shape == 'ring3':
                dl = [{'creator': 'c1', 'executed': 'y', 'tasks': ['x']}, {'creator': 'c2', 'executed': 'z', 'tasks': ['y']},
                      {'creator': 'c3', 'executed': 'x', 'tasks': ['z']}]
            elif shape == 'chain-ok':
                ts[2]['task_dep'] = ['x']
                dl = [{'creator': 'c1', 'executed': 'b', 'tasks': ['x']}, {'creator': 'c2', 'executed': 'x', 'tasks': ['y', 'z']}]
            elif shape == 'waits-for-dependent':
                ts[0]['task_dep'] = ['x']                     # b -> x, and x is created after b
                dl = [{'creator': 'c1', 'executed': 'b', 'tasks': ['x']}]
            elif shape == 'unknown-and-cycle':
                dl = [{'creator': 'c1', 'executed': 'x', 'tasks': ['x']}, {'creator': 'c2', 'executed': 'nosuch', 'tasks': ['y']}]
            else:
                ts[0]['setup'] = ['y']                        # trigger b needs y (setup), y is created after x, x after b
                dl = [{'creator': 'c1', 'executed': 'b', 'tasks': ['x']}, {'creator': 'c2', 'executed': 'x', 'tasks': ['y']}]
            c = named(base_case(ts, None, runner, k), 'delayed-creators')
            c['delayed'] = dl
            out.append(c)
    # wildcard task_dep: matching the task itself, closing a cycle through a pattern, matching nothing, plain use
    for runner, k in (('serial', 0), ('thread', 2), ('process', 2)):
        for shape in ('self', 'self-only-other-selected', 'cycle-through-pattern', 'acyclic', 'nothing', 'star',
                      'group-subs', 'pattern-and-literal', 'long-ring'):
            if runner == 'process' and shape not in ('self', 'cycle-through-pattern', 'acyclic'):
                continue
            sel = None
            if shape == 'self':
                ts = [_task(x) for x in ('a1', 'a2', 'b')]
                ts[0]['task_dep'] = ['a*']                      # matches a1 itself (and a2)
            elif shape == 'self-only-other-selected':
                ts = [_task(x) for x in ('a1', 'b')]
                ts[0]['task_dep'] = ['a*']
                sel = ['b']                                     # the self-dependent task is outside the closure
            elif shape == 'cycle-through-pattern':
                ts = [_task(x) for x in ('top', 'b1', 'b2')]
                ts[0]['task_dep'] = ['b*']
                ts[2]['task_dep'] = ['top']
            elif shape == 'acyclic':
                ts = [_task(x) for x in ('top', 'b1', 'b2', 'c')]
                ts[0]['task_dep'] = ['c', 'b*']
                ts[1]['task_dep'] = ['c']
            elif shape == 'nothing':
                ts = [_task(x) for x in ('top', 'b1')]
                ts[0]['task_dep'] = ['zz*']
            elif shape == 'star':
                ts = [_task(x) for x in ('x', 'y', 'all')]
                ts[2]['task_dep'] = ['*']                       # everything, itself included
                sel = ['all']
            elif shape == 'group-subs':
                ts = [runlib._new_task('g', 'group'), runlib._new_task('g:a', 'sub', 'g'),
                      runlib._new_task('g:b', 'sub', 'g'), _task('use')]
                ts[3]['task_dep'] = ['g:*']
                ts[1]['task_dep'] = ['use']                     # g:a -> use -> g:* -> g:a
                sel = ['use']
            elif shape == 'pattern-and-literal':
                ts = [_task(x) for x in ('top', 'b1', 'b2')]
                ts[0]['task_dep'] = ['b1', 'b*']                # b1 twice
            else:
                ts = [_task('r%02d' % i) for i in range(12)]
                for i in range(12):
                    ts[i]['task_dep'] = ['r%02d*' % ((i + 1) % 12)]
            out.append(named(base_case(ts, sel, runner, k), 'wildcard-dep'))
    # calc_dep results carrying `uptodate`, unknown keys, or no dict at all (str / None)
    for runner, k in (('serial', 0), ('thread', 2), ('process', 2)):
        for shape in ('uptodate-false', 'uptodate-true-to-utd', 'junk', 'str', 'none', 'junk-and-deps', 'str-then-cycle'):
            if runner == 'process' and shape not in ('uptodate-false', 'str'):
                continue
            ts = [_task(x) for x in ('c', 'd', 'a')]
            ts[2]['calc_dep'] = ['c']
            ts[0]['calc_res'] = {'task_dep': ['d'], 'file_dep': [], 'calc_dep': []}
            if shape == 'uptodate-false':
                ts[0]['calc_extra'] = {'uptodate': [False]}
            elif shape == 'uptodate-true-to-utd':
                ts[2]['status'] = 'utd'
                ts[0]['calc_extra'] = {'uptodate': [True, None]}
            elif shape == 'junk':
                ts[0]['calc_extra'] = {'junk': 1, 'setup': ['d'], 'targets': ['x.out'], 'verbosity': 2}
            elif shape == 'junk-and-deps':
                ts[0]['calc_extra'] = {'junk': {'task_dep': ['a']}, 'uptodate': [False]}
            elif shape == 'str':
                ts[0]['ret_kind'] = 'str'
            elif shape == 'none':
                ts[0]['ret_kind'] = 'none'
            else:
                ts[0]['ret_kind'] = 'str'                       # delivers nothing ...
                ts[1]['task_dep'] = ['a']                       # ... so d (d -> a) is not in the closure: no cycle
            out.append(named(base_case(ts, ['a'], runner, k), 'calc-result-shapes'))
    # a cyclic error found while / after the workers are started (process mode: the started workers must not stay)
    for k in (2, 3):
        ts = [_task(x) for x in ('x', 'a', 'b')]
        ts[1]['task_dep'] = ['b']
        ts[2]['task_dep'] = ['a']
        out.append(named(base_case(ts, None, 'process', k), 'cycle-after-start'))
        ts = [_task(x) for x in ('x', 'y', 'a')]
        ts[2]['task_dep'] = ['a']
        out.append(named(base_case(ts, None, 'process', k), 'cycle-after-start'))
    return out


# ------------------------------------------------------------------------------------------------------
# evaluation

def witness_of(case, obs, failed, py, lean, detail):
    w = runlib.make_witness(case, obs, failed, py, lean, detail)
    w['leak'] = obs.get('leak')
    w['family'] = case.get('family')
    if case.get('delayed'):
        w['delayed'] = case['delayed']
        w['rendered'] = list(w['rendered']) + ['@create_after(executed=%r, creates=%s) def task_%s(): yields %s'
                                               % (d['executed'], d['tasks'], d['creator'], d['tasks']) for d in case['delayed']]
    exo = [(t['name'], t['exc_args']) for t in case['tasks'] if t.get('exc_args')]
    if exo:
        w['exception_args'] = exo
        w['rendered'] = list(w['rendered']) + ['(the failing action of %s raises ToolFailed(msg, <%s>): args %s)'
                                               % (n, 'threading.Lock' if k == 'unpicklable' else "4, ('tool', 'exited')",
                                                  'can NOT be pickled' if k == 'unpicklable' else 'can be pickled')
                                               for n, k in exo]
    big = [t['name'] for t in case['tasks'] if t.get('big')]
    if big:
        w['big_output_tasks'] = big
        w['rendered'] = list(w['rendered']) + ['(the actions of %s also print %d bytes, captured by doit: the result of the '
                                               'task is larger than the 64 KiB pipe buffer)' % (big, BIG_OUTPUT)]
    return w


def monitors_of(case, obs):
    if has_raise(case):
        return py_monitor_raise(case, obs)
    if has_delayed(case):
        return py_monitor_delayed(case, obs)
    return py_monitor(case, obs)


def judge(case, obs, a_run, a_c09, st, shrink_left):
    st.traces += 1
    py, detail = monitors_of(case, obs)
    lean = None
    big_case = case['model']['n'] > LEAN_MAX_N
    if has_raise(case):
        st.count('family:selection-raises(model-not-asked)')
    elif has_delayed(case):
        st.count('delayed-creators:python-monitor-only(model-not-asked)')
    elif big_case and a_c09 is None:
        st.count('scale:python-monitor-only(model-not-asked)')
    elif a_c09 is None or 'error' in a_c09:
        st.count('driver_unavailable')
    else:
        lean = a_c09.get('monitor') or {}
        st.count('closure:cyclic' if a_c09.get('cycle') else 'closure:acyclic')
        if 'cycle_without_fail_deliveries' in detail:
            # a cycle that exists only through what a FAILED-after-start calc task delivered: since wave 5 the closure
            # graph of the Lean monitor (`edgesAt`, `resAt`) has that edge too -- the Lean monitor judges, the Python one
            # cross-checks (the cycle lists are compared below); `cycleGood` is the graph of the earlier rounds
            st.count('cycle-through-fail-delivery:lean-monitor')
            if not detail['cycle_without_fail_deliveries']:
                st.count('cycle-through-fail-delivery:ONLY-through-it')
        if a_c09.get('cutShort'):
            st.count('run:cut_short_by_failure')
        if big_case:
            st.count('scale:lean-monitor(acceptor-not-asked)')
        else:
            m = a_c09.get('model') or {}
            st.count('model_default_schedule:halt=%s' % m.get('halt'))
    failed = [k for k in KEYS if not py.get(k, True) or (lean is not None and not lean.get(k, True))]
    used = 0
    if failed:
        first = failed[0]

        def still(c):
            o = run_case(c, fast=True)
            p, _ = monitors_of(c, o)
            return not p.get(first, True)
        small = case
        if shrink_left > 0 and not py.get(first, True):
            t0 = time.time()
            base = dict(case)
            base.pop('schedule', None)
            runlib.expand = c09_expand       # candidates of the shrinker get this module's expansion
            try:
                small = runlib.shrink(base, still, max_tests=60, max_seconds=min(12.0, shrink_left))
            finally:
                runlib.expand = _orig_expand
            used = time.time() - t0
        o2 = run_case(small)
        p2, d2 = monitors_of(small, o2)
        bad2 = [k for k in KEYS if not p2.get(k, True)]
        if bad2:
            l2 = None
            if not has_raise(small) and not has_delayed(small) and small.get('model', {}).get('n', 0) <= LEAN_MON_MAX_N:
                try:
                    a2 = common.drv_batch([c09_request(small, o2)])[0]
                    l2 = a2.get('monitor')
                except Exception:  # noqa
                    l2 = None
            wit = witness_of(small, o2, bad2, p2, l2, d2)
        else:
            wit = witness_of(case, obs, failed, py, lean, detail)
        st.violation(wit, 'monitor:' + ','.join(wit['failed_monitors']),
                     '%s false on the implementation run (exit=%s err=%s leak=%s; %s)'
                     % (wit['failed_monitors'], wit['exit'], wit['err'], wit.get('leak'), wit['detail']))
        st.count('violation_found')
        return used
    if lean is not None and a_c09 is not None:
        disagree = [k for k in KEYS if py.get(k, True) != lean.get(k, True)]
        if sorted(a_c09.get('cycle') or []) != detail['cycle']:
            disagree.append('cycle(lean=%s,python=%s)' % (a_c09.get('cycle'), detail['cycle']))
        if 'cycle_without_fail_deliveries' in detail and \
                sorted(a_c09.get('cycleGood') or []) != detail['cycle_without_fail_deliveries']:
            disagree.append('cycleGood(lean=%s,python=%s)' % (a_c09.get('cycleGood'), detail['cycle_without_fail_deliveries']))
        if disagree:
            st.divergence(witness_of(case, obs, disagree, py, lean, detail),
                          'python and Lean C09 monitors disagree on %s' % disagree)
            return used
    if has_raise(case):
        return used
    if has_delayed(case):
        bad = delayed_oracle(case, obs)
        if bad is None:
            st.count('delayed-creators:outcome-oracle-agrees')
        else:
            st.divergence(witness_of(case, obs, [], py, None, detail),
                          'delayed creators (outcome oracle instead of the Lean acceptor): %s' % bad)
        return used
    if big_case:
        bad = scale_oracle(case, obs)
        if bad is None:
            st.count('scale:outcome-oracle-agrees')
        else:
            w = witness_of(case, obs, [], py, None, detail)
            st.divergence(w, 'scale tier (outcome oracle instead of the Lean acceptor): %s' % bad)
        return used
    if a_run is not None and 'error' in a_run and any(e[0] in ('runtime_error', 'cleanup_error') for e in obs['trace']):
        # the reporter was told of a runtime error (an InvalidTask raised while the run was under way): the model has no
        # such transition for the inputs generated here, and the acceptor cannot even read the event
        st.count('model:rejected')
        st.divergence(witness_of(case, obs, [], py, lean, detail),
                      'correspondence M1: the run was cut short by a runtime error (reporter.runtime_error; exit=%s, stderr %r): '
                      'the model has no such step' % (obs['exit'], (obs.get('stderr') or '')[-160:]))
        return used
    if a_run is None or 'error' in a_run:
        st.count('driver_unavailable(run)')
    elif a_run.get('skipped'):
        st.count('model_search_skipped')
    elif a_run.get('accepted'):
        st.count('model:accepted')
    else:
        if case['runner'] == 'process' and obs['exit'] == 3:
            # a run of the process runner that an exception in the main process ended: the workers are terminate()d at
            # an arbitrary point, also between taking a job from the queue and the first event of its action (the
            # model takes the job and starts the task in one step).  That race does not repeat: the case is run
            # again (twice at most) and only a run that is rejected every time counts as a divergence.
            for _ in range(2):
                o2 = run_case(case)
                p2, _d2 = monitors_of(case, o2)
                if not all(p2.get(k, True) for k in KEYS):
                    break
                a2 = runlib.ask_model([(case, o2)])[0]
                if 'error' in a2 or a2.get('accepted') or a2.get('skipped'):
                    st.count('process_abort_race:accepted_on_rerun')
                    st.count('model:accepted')
                    return used
        st.count('model:rejected')
        w = witness_of(case, obs, [], py, lean, detail)
        w['matched'] = a_run.get('matched')
        w['expected'] = a_run.get('expected')
        w['request'] = runlib.model_request(case, obs)
        st.divergence(w, 'correspondence M1: the model cannot produce the implementation run (exit=%s err=%s); matched '
                         '%s events, next impl events %s, model could emit %s'
                      % (obs['exit'], obs['err'], a_run.get('matched'),
                         obs['trace'][a_run.get('matched') or 0:(a_run.get('matched') or 0) + 2], a_run.get('expected')))
    return used


def count_c09(st, case, obs):
    m = case['model']
    st.count('family:%s' % case.get('family', 'corpus'))
    st.count('n=%d' % m['n'])
    st.count('runner:%s' % case['runner'] + (':%d' % case['nproc'] if case['runner'] != 'serial' else ''))
    st.count('sel:%s' % ('all' if case.get('sel') is None else 'names:%d' % len(case['sel'])))
    if case.get('family') != 'digraph':
        for t in case['tasks']:
            for k in ('task_dep', 'setup', 'calc_dep', 'file_dep'):
                if t[k]:
                    st.count('edge:%s' % k, len(t[k]))
            if t.get('calc_res'):
                st.count('calc_res')
        if case.get('injected'):
            st.count('injected_ring:%d' % len(case['injected']['ring']))
            for k in case['injected']['kinds']:
                st.count('injected_edge:%s' % k)
        if case.get('cont'):
            st.count('flag:continue')
    st.count('exit:%s' % obs['exit'])
    st.count('err:%s' % obs['err'])
    for d in case.get('delayed') or []:
        names = set(t['name'] for t in case['tasks'])
        st.count('delayed:executed=%s' % ('none' if d['executed'] is None else 'unknown' if d['executed'] not in names
                                          else 'own-task' if d['executed'] in d['tasks'] else 'task'))
    if case.get('scale'):
        st.count('scale:%s' % case['scale'].split(':')[0] + (':' + case['scale'].split(':')[1] if case['scale'].startswith('cycle:') else ''))
        st.count('scale:n>=%d' % (1000 if m['n'] >= 1000 else 200 if m['n'] >= 200 else 50 if m['n'] >= 50 else 0))
    if has_wild(case) or any(t.get('task_dep_wild') for t in case['tasks']):
        st.count('wildcard_task_dep')
    for t in case['tasks']:
        if t.get('calc_first'):
            st.count('calc_first:%s' % t['outcome'])
        if t.get('n_actions'):
            st.count('multi_action_task')
    if case.get('otf'):
        st.count('own-target-filedep:%s:%s' % (case['otf'], case['runner']))
    if case.get('fdc'):
        st.count('fail-delivery-cycle:%s:%s:%s' % (case['fdc'], case['runner'], 'continue' if case.get('cont') else 'stop'))
    if m.get('calcResFail') and any(m['calcResFail']):
        st.count('case_with_calcResFail')
        frun = set(e[1] for e in obs['trace'] if e[0] == 'failure') & set(e[1] for e in obs['trace'] if e[0] == 'start')
        if any(m['calcResFail'][c] for c in frun if isinstance(c, int)):
            st.count('run:failed_calc_task_delivered')
    for t in case['tasks']:
        if t.get('calc_extra'):
            st.count('calc_result_extra_keys:%s' % '+'.join(sorted(t['calc_extra'])))
        if t.get('ret_kind'):
            st.count('calc_result_not_a_dict:%s' % t['ret_kind'])
    if any(t.get('big') for t in case['tasks']):
        st.count('has_big_output_task')
    for t in case['tasks']:
        if t.get('exc_args'):
            st.count('exception_args:%s' % t['exc_args'])
    if any(ch in t['name'] for t in case['tasks'] for ch in '?[') and case.get('family') != 'digraph-metachar-names':
        st.count('has_metachar_task_name')
    if case.get('calc_backrefs'):
        st.count('calc_backrefs:%s' % case['calc_backrefs']['shape'])
    if any((t.get('calc_res') or {}).get('calc_dep') for t in case['tasks']):
        st.count('calc_result_delivers_calc_dep')
    if obs.get('leak'):
        st.count('leaked_worker')
    if obs.get('diag_in_captured_stream'):
        st.count('diagnostic_written_into_stream_of_overlapping_action(F-C17a)')
    if any(e[0] == 'start' for e in obs['trace']) and obs['err'] == 'cyclic':
        st.count('run:tasks_off_the_cycle_ran_before_diagnosis')


def eval_batch(batch):
    """worker: {'specs': [...], 'cases': [...], 'gen': [(seed, runner)...], 'deadline', 'stop', 'shrink_s'}"""
    st = common.WorkerStats()
    common.use_repo()
    deadline = batch.get('deadline')
    stop = batch.get('stop')
    todo = []
    for c in batch.get('cases', []):
        todo.append((dict(c), True))
    for s in batch.get('specs', []):
        todo.append((spec_case(s), False))
    for seed, runner in batch.get('gen', []):
        todo.append((gen_sampled(seed, runner), False))
    pairs = []
    hangs = 0
    for c, always in todo:
        if not always and deadline is not None and time.time() > deadline:
            st.count('not_run_budget_exhausted')
            continue
        if stop and os.path.exists(stop) and not always:
            st.count('not_run_after_violation_elsewhere')
            continue
        if hangs >= 2:
            st.count('not_run_after_2_hangs_in_batch')
            continue
        try:
            c['model'] = c09_expand(c)
        except Exception:  # noqa
            st.count('generator_rejected')
            continue
        o = run_case(c, st)
        if o['err'] == 'deadlock' or o.get('leak'):
            hangs += 1
        pairs.append((c, o))
    plain = [(c, o) for c, o in pairs if not has_raise(c) and not has_delayed(c) and c['model']['n'] <= LEAN_MAX_N]
    a_run = runlib.ask_model(plain)
    # the monitor alone also judges the larger cases (no acceptor, no default-schedule simulation of the model there)
    mon = plain + [(c, o) for c, o in pairs if not has_raise(c) and not has_delayed(c)
                   and LEAN_MAX_N < c['model']['n'] <= LEAN_MON_MAX_N]

    def mon_request(c, o):
        r = c09_request(c, o)
        if c['model']['n'] > LEAN_MAX_N:
            r['noSimulate'] = True
        return r
    try:
        a_c09 = common.drv_batch([mon_request(c, o) for c, o in mon]) if mon else []
    except Exception as ex:  # noqa
        a_c09 = [{'error': str(ex)[:200]} for _ in mon]
    answers = {id(c): (None, p) for (c, _), p in zip(mon, a_c09)}
    answers.update({id(c): (r, p) for (c, _), r, p in zip(plain, a_run, a_c09)})
    shrink_left = batch.get('shrink_s', 15.0)
    for c, o in pairs:
        st.case({'case': runlib.render(c).split('\n'), 'schedule': o.get('schedule')}, runlib.nontrivial(c))
        count_c09(st, c, o)
        if len(st.violations) >= 3:
            st.count('not_judged_after_3_violations_in_batch')
            continue
        if len(st.violations) >= 1:
            shrink_left = min(shrink_left, 0)
        r, p = answers.get(id(c), (None, None))
        shrink_left -= judge(c, o, r, p, st, shrink_left)
        if st.violations and stop:
            try:
                open(stop, 'w').close()
            except OSError:
                pass
    return st


# ------------------------------------------------------------------------------------------------------
# entry points

def corpus_cases():
    out = []
    for name, c in common.load_corpus(PROP):
        c['corpus'] = name
        c.setdefault('family', 'corpus')
        out.append(c)
    return out


def _chunks(xs, size):
    return [xs[i:i + size] for i in range(0, len(xs), size)]


def run(ctx, scale=1.0):
    quick = ctx.tier == 'quick'
    rng = ctx.rng
    stop = os.path.join(common.scratch_dir('c09stop'), 'violation')
    deadline = time.time() + max(12.0, 0.8 * ctx.time_left())
    corpus = corpus_cases()
    ctx.count('corpus', len(corpus))
    fixed = corpus + structured_cases() + scale_cases(ctx.tier, random.Random(ctx.seed * 7919 + 13))
    inproc = [c for c in fixed if c['runner'] != 'process']
    procs = [c for c in fixed if c['runner'] == 'process']
    specs = exhaustive_specs(ctx.tier, ctx.boost)
    if not quick:
        # 4 tasks x explicit selections: sampled
        names4 = all_selections(4)[1:]
        for _ in range(int(6000 * scale)):
            specs.append((4, rng.randrange(1 << 16), rng.choice(names4), rng.choice(['serial', 'thread']), 2, False))
        specs = [s if s[3] != 'serial' else (s[0], s[1], s[2], 'serial', 0, s[5]) for s in specs]
    n_sample = int((360 if quick else 6000) * ctx.boost * scale)
    gen = [(rng.randrange(1 << 60), 'serial' if i % 2 == 0 else 'thread') for i in range(n_sample)]
    n_proc = int((16 if quick else 160) * min(ctx.boost, 2) * scale)
    # process mode: digraphs of the small scope (sampled, cyclic ones weighted by taking them as they come) + sampled graphs
    pspecs = []
    for _ in range(n_proc):
        n = rng.choice([2, 3, 3, 3])
        pspecs.append((n, rng.randrange(1 << (n * n)), rng.choice(all_selections(n)), 'process', rng.choice([2, 2, 3]), False))
    pgen = [(rng.randrange(1 << 60), 'process') for _ in range(n_proc // 2)]
    ctx.extra['exhaustive_small_scope'] = {
        'max_tasks': 3 if quick else 4, 'labels': ['task_dep'], 'self_loops': True,
        'digraphs': sum(1 << (n * n) for n in range(1, (3 if quick else 4) + 1)),
        'selections': 'none + every ordered list of distinct names (<=3 tasks); 4 tasks: none + sampled',
        'runners': 'serial, thread k=2 (k=3 for the whole graph), process sampled', 'cases_planned': len(specs)}
    size = 150 if quick else 400
    batches = [{'cases': c, 'shrink_s': 15.0} for c in _chunks(inproc, 30)]
    sb = [{'specs': s, 'shrink_s': 10.0} for s in _chunks(specs, size)]
    gb = [{'gen': g, 'shrink_s': 12.0} for g in _chunks(gen, 30)]
    # interleave so that a deadline cuts both kinds proportionally
    mixed = []
    for i in range(max(len(sb), len(gb))):
        if i < len(gb):
            mixed.append(gb[i])
        if i < len(sb):
            mixed.append(sb[i])
    batches += mixed
    pbatches = [{'cases': c, 'shrink_s': 15.0} for c in _chunks(procs, 6)]
    pbatches += [{'specs': s, 'shrink_s': 10.0} for s in _chunks(pspecs, 8)]
    pbatches += [{'gen': g, 'shrink_s': 10.0} for g in _chunks(pgen, 6)]
    for b in batches + pbatches:
        b['deadline'] = deadline
        b['stop'] = stop
    _t0 = time.time()
    for st in common.pmap(eval_batch, batches):
        st.merge_into(ctx)
    ctx.extra['wall_inproc_s'] = round(time.time() - _t0, 1)
    _t0 = time.time()
    # process-mode runs fork real worker processes: not possible inside the (daemonic) pool workers
    if ctx.violations:
        ctx.count('process_batches_skipped_after_violation', len(pbatches))
    else:
        for st in runlib.fork_map(eval_batch, pbatches, procs=4):
            st.merge_into(ctx)
    ctx.extra['wall_process_mode_s'] = round(time.time() - _t0, 1)
    done = sum(v for k, v in ctx.dist.items() if k in ('family:digraph', 'family:digraph-metachar-names'))
    ctx.extra['exhaustive_small_scope']['cases_run'] = done
    ctx.extra['exhaustive_small_scope']['not_run_budget_exhausted'] = ctx.dist.get('not_run_budget_exhausted', 0)


def search(ctx):
    ctx.rng.seed(ctx.seed * 1000003 + 7919)
    run(ctx, scale=1.5 if ctx.time_left() > 0.5 * (ctx.budget_s or 30) else 0.5)


def replay(ctx, data):
    w = data.get('witness') or {}
    case = w.get('case')
    if not case:
        print('nothing to replay (no failing input was found): %s' % data.get('note'))
        for r in data.get('no_longer_checks', [])[:5]:
            print(' -', r.get('kind'), ':', str(r.get('note'))[:400])
        return False
    case = dict(case)
    case['model'] = c09_expand(case)
    print(runlib.render(case))
    for t in case['tasks']:
        if t.get('exc_args'):
            print('(the failing action of %s raises ToolFailed with %s args)' % (t['name'], t['exc_args']))
    if any(t.get('big') for t in case['tasks']):
        print('(the actions of %s also print %d bytes)' % ([t['name'] for t in case['tasks'] if t.get('big')], BIG_OUTPUT))
    if has_raise(case):
        print('(the uptodate callable of %s raises RuntimeError)' % [t['name'] for t in case['tasks'] if t['status'] == 'raise'])
    obs = run_case(case)
    print('exit=%s err=%s leaked_workers=%s' % (obs['exit'], obs['err'], obs.get('leak')))
    print('trace:', runlib.render_trace(case, obs['trace']))
    if obs.get('stderr'):
        print('stderr:', obs['stderr'][-400:])
    py, detail = monitors_of(case, obs)
    print('python monitor :', py, detail)
    bad = [k for k in KEYS if not py.get(k, True)]
    if not has_raise(case):
        a = common.drv_batch([c09_request(case, obs)])[0]
        r = runlib.ask_model([(case, obs)])[0]
        print('lean monitor   :', a.get('monitor'), ' cycle tasks:', a.get('cycle'), ' closure:', a.get('closure'))
        print('model (default schedule):', a.get('model'), ' model accepts this run:', r.get('accepted'),
              '' if r.get('accepted') else '(matched %s, model could emit %s)' % (r.get('matched'), r.get('expected')))
        bad += [k for k in KEYS if not (a.get('monitor') or {}).get(k, True) and k not in bad]
        if data.get('failed') == 'correspondence' and not r.get('accepted') and not r.get('skipped') and not bad:
            return False
    if bad:
        print('FAILED clauses:', bad)
    return not bad
