"""C18 -- loading maps task-creators to a well-formed, validated task set   (model M6, DESIGN §5 C18)

(T) lean/DoitModel/Props/C18.lean over lean/DoitModel/Model/Load.lean (load_tasks + dict_to_task + Task.__init__ +
    TaskControl.__init__), plus two obligations regenerated from the imported doit on every run: `Task.valid_attr`
    equals the model's table and `Task.__init__` calls `check_attr` for exactly the attributes the model checks.
(K) generated namespaces of task-creators are loaded by the real `loader.load_tasks` + `TaskControl` and by the CLI
    in-process (`list`, `run`); outcome class, task names/order and the dependency fields of every Task object are
    diffed against the Lean model's answer.
(P) the statement, evaluated in Python on the implementation's behaviour (a trace predicate over the returned Task
    objects / the raised exception / exit code and stderr): harness/loadlib.py `monitor`.
"""
import ast
import copy
import inspect
import json
import os
import random
import textwrap

import common
import loadlib as L
from common import WorkerStats, canon

META = {
    'property': 'C18',
    'lean_props': ['DoitModel.Props.C18'],
    'level': 'proof',
    'budget': {'quick': 30, 'thorough': 400},
    'anchors': ['doit/loader.py::load_tasks', 'doit/loader.py::_get_task_creators', 'doit/loader.py::generate_tasks',
                'doit/loader.py::_generate_task_from_return', 'doit/loader.py::_generate_task_from_yield',
                'doit/loader.py::flat_generator', 'doit/task.py::dict_to_task', 'doit/task.py::Task.__init__',
                'doit/task.py::Task.check_attr', 'doit/task.py::Task._init_deps', 'doit/task.py::Task._init_getargs',
                'doit/task.py::Task._expand_task_dep', 'doit/task.py::Task._expand_calc_dep',
                'doit/task.py::result_dep.configure_task',
                'doit/control.py::TaskControl.__init__', 'doit/control.py::TaskControl._check_dep_names',
                'doit/control.py::TaskControl.set_implicit_deps', 'doit/control.py::TaskControl._get_wild_tasks',
                'doit/doit_cmd.py::DoitMain.run'],
    'technique': 'Lean 4 proofs over an executable model of the loader (creator results -> validated task list -> '
                 'TaskControl checks) + table obligations regenerated from the imported doit + differential '
                 'correspondence against load_tasks/TaskControl/CLI + statement monitor on the real Task objects',
    'design_ref': '§5 C18, §4 M6',
    'level_text': 'Machine-checked over the loader model for all namespaces of creators (dicts, generators nested to any '
                  'depth, Task objects, None/other; any attribute values): loading never raises anything but '
                  'InvalidTask/InvalidDodoFile (total, full strength); an accepted load has pairwise distinct names, every '
                  'task_dep/setup/calc_dep/getargs name defined, distinct targets (wellformed_partial, '
                  'references_are_checked), tasks in definition order of a stable line sort (definition_order, '
                  'creators_sorted_stably), no non-sub-task named like a command (rejects_command_names), every sub-task '
                  'attached to a has_subtask group whose task_dep contains the sub-tasks in yield order, whatever the '
                  'order of yields (wellformed_groups; hypothesis PlainObjs only excludes Task objects marked as '
                  'sub-task by hand); every unknown field, value rejected by Task.valid_attr (type-exact), missing '
                  'actions/name, non-string basename, non-task result, duplicate name/target (also a yielded item for an '
                  'already defined name) and dangling reference is rejected (accepted_results_valid, rejects_at_control, '
                  'rejects_duplicate_in_generator, rejects_group_attrs_over_plain, rejects_wrong_type_partial).  '
                  'Task.valid_attr and the set of check_attr calls are re-read from the imported doit and re-proved equal '
                  'to the model on every run.  The model is tied to doit by diffing outcome class, task order and '
                  'dependency fields against the real loader, TaskControl and the CLI (list, run).',
    'level_note': 'rejects-wrong-type holds only as *_partial on the current tree; the missing parts are exactly the open '
                  'findings coerced-getargs-falsy, coerced-subtask-name, group-attrs-actions-ignored, each proved as a '
                  'counterexample theorem (rejects_wrong_type_counterexample, accepts_*) and replayed on the '
                  'implementation (corpus/C18).  The behaviours repaired by 5a43f74/379257a/5cc6c19/eeaaa80/dd215ad are kept '
                  'as pinned_* counterexample theorems.  The monitor is a Python predicate over the real Task objects / '
                  'exception / exit code + stderr.  Values are abstracted to their top-level type with string items; '
                  'hand-marked Task objects (subtask_of set by the creator) are outside the group clause '
                  '(wellformed_handmade_counterexample).  Hypothesis PlainObjs is evaluated by the driver on every case '
                  '(distribution hyp:PlainObjs).',
    'rule': 'creators (function / create_doit_tasks object / with basename attribute, permuted definition lines; and, in file '
            'mode, functions of a generated dodo module loaded through ModuleTaskLoader(module): plain, sharing a '
            'functools.wraps decorator, doubly decorated, bound methods, create_after, task_params, objects, plus an ignored '
            'functools.partial, defined in non-alphabetical order) '
            'returning dict | generator (nested up to depth 2) | Task | None | other; dicts from doit\'s attribute '
            'vocabulary, mostly valid, with at most a few seeded defects (wrong top-level type incl. True/False/0/1/1.0 '
            'edge values, unknown field, missing actions/name, duplicate names/targets, dangling task_dep/setup/'
            'calc_dep/getargs, command names, "=" in names); exhaustive tier: every attribute x every edge value in '
            'returned, sub-task and group-attribute dicts; non-trivial = at least one creator result is processed '
            'beyond the creator-name check; distinct = distinct canonical case',
    'assumptions': ['items of list/tuple values are strings (element types are outside the property\'s quantifier); '
                    'getargs entries are (task, key) pairs or malformed',
                    'no delayed creators (create_after) and no @task_params: those are C15 / C16',
                    'wild-card task_dep patterns use only * and literal characters'],
    'trusted': ['Python format() of a non-string sub-task name is given to the model as an input',
                'fnmatch is modelled for * and literals only'],
    'models': ['M6'],
}


# ----------------------------------------------------------------------------------------------
# open findings (findings/known-findings.txt)

def _dicts(case):
    return [d for _, _, d in L._walk_dicts(case)]


def _val(d, attr):
    return L._dget(d, attr)


def _reason(w):
    return (w or {}).get('reason', '')


def _wrong_type_reason(w, attr):
    r = _reason(w)
    pre = 'accepted:wrong-type:%s:' % attr
    if not r.startswith(pre):
        return None
    try:
        return json.loads(r[len(pre):])
    except ValueError:
        return None


FALSY = (['bool', False], ['int', 0], ['float', 0], ['str', ''], ['list', []], ['tuple', []], ['dict', []])


def _sig_getargs(w):
    return _wrong_type_reason(w, 'getargs') in FALSY


def _sig_subname(w):
    v = _wrong_type_reason(w, 'name')
    return v is not None and v[0] not in ('str', 'none') and w.get('where') == 'yield-with-name'


def _sig_group_actions(w):
    return _wrong_type_reason(w, 'actions') is not None and w.get('where') == 'yield-group-attrs'


SIGNATURES = {
    'group-attrs-actions-ignored': _sig_group_actions,
    'coerced-getargs-falsy': _sig_getargs,
    'coerced-subtask-name': _sig_subname,
}


# ----------------------------------------------------------------------------------------------
# generated obligations (DESIGN §6.6)

_PYTYPE = {'str': '.str', 'list': '.list', 'tuple': '.tuple', 'dict': '.dict', 'Callable': '.callable'}


def _lean_attr(a):
    if a == 'meta':
        return '.meta_'
    return '.' + a if a in L.VALID_ATTRS else '.UNKNOWN_ATTR_%s' % ''.join(ch for ch in str(a) if ch.isalnum())


def _lean_lit(v):
    if v is None:
        return '.none'
    if v is True:
        return '.true'
    if type(v) is int and v >= 0:
        return '(.int %d)' % v
    return '.UNKNOWN_LITERAL_%s' % type(v).__name__


def checked_attrs():
    """attributes for which Task.__init__ calls self.check_attr(name, '<attr>', <attr>, self.valid_attr['<attr>'])"""
    common.use_repo()
    from doit.task import Task
    tree = ast.parse(textwrap.dedent(inspect.getsource(Task.__init__)))
    out = []
    for node in ast.walk(tree):
        if (isinstance(node, ast.Call) and isinstance(node.func, ast.Attribute) and node.func.attr == 'check_attr'
                and len(node.args) == 4 and isinstance(node.args[1], ast.Constant)):
            attr = node.args[1].value
            a2, a3 = node.args[2], node.args[3]
            same_var = isinstance(a2, ast.Name) and a2.id == attr
            same_key = (isinstance(a3, ast.Subscript) and isinstance(a3.slice, ast.Constant) and a3.slice.value == attr)
            out.append(attr if (same_var and same_key) else 'MISMATCH_%s' % attr)
    return out


def generated_obligations(ctx):
    common.use_repo()
    from doit.task import Task
    rows = []
    for attr, (types, values) in Task.valid_attr.items():
        tys = ', '.join(_PYTYPE.get(getattr(t, '__name__', '?'), '.UNKNOWN_TYPE_%s' % getattr(t, '__name__', 'x'))
                        for t in types)
        vals = ', '.join(_lean_lit(v) for v in values)
        rows.append('  (%s, ([%s], [%s]))' % (_lean_attr(attr), tys, vals))
    chk = ', '.join(_lean_attr(a) for a in checked_attrs())
    text = ('import DoitModel.Model.Load\nopen DoitModel.Load\n'
            '/-- Task.valid_attr of the tree under test -/\n'
            'def realValidAttr : List (Attr × Spec) := [\n%s ]\n'
            'theorem valid_attr_table : realValidAttr = modelValidAttr := by decide\n'
            '/-- the attributes Task.__init__ passes through check_attr, in source order -/\n'
            'def realChecked : List Attr := [%s]\n'
            'theorem checked_attrs : realChecked = modelChecked := by decide\n' % (',\n'.join(rows), chk))
    return text, 2


# ----------------------------------------------------------------------------------------------
# generators

EDGE_VALUES = [['none'], ['bool', True], ['bool', False], ['int', 0], ['int', 1], ['int', 2], ['int', 3], ['int', -1],
               ['float', 0], ['float', 2], ['float', 4], ['float', 1], ['str', ''], ['str', 'x'], ['list', []],
               ['list', ['x']], ['tuple', []], ['tuple', ['x']], ['dict', []], ['dict', [['k', 'x']]],
               ['dict', [['k', None]]], ['callable'], ['object']]
ACTIONS = ['actions', ['list', ['act']]]
NAMES = ['a', 'b', 'c', 'd', 'e', 'f']
ODD_NAMES = ['-x', 'a=b', 'a:b', 'list', 'run', 'help', 'x y', 'é', 'a*', '*.py', 'q?', 'r[1]', '*']
GLOB_SUBNAMES = ['*.py', 'docs/*.rst', '*', 'a*', 's?x', 'q[1]', '[ab]', 'x.py']
TARGETS = ['t1', 't2', 't3', './t1', 'd//t2', 'd/../t3']       # also non-normalised spellings: targets are compared as strings
FILES = ['t1', 't2', 'f1', 'f2', './t1', 'd//t2']
SPELLINGS = ['t1', './out.txt', 'build//gen.c', 'tmp/../out.txt', 'a/./b', 'dir/', '/abs//x', '../up', 'sp ace']
SAME_FILE_PAIRS = [('out.txt', './out.txt'), ('build/gen.c', 'build//gen.c'), ('out.txt', 'tmp/../out.txt'),
                   ('dir', 'dir/'), ('./out.txt', 'tmp/../out.txt')]


def valid_value(rng, attr, names):
    """a value of the right type for attr (references point to `names`)"""
    pick = lambda pool, lo, hi: [rng.choice(pool) for _ in range(rng.randint(lo, hi))] if pool else []
    seq = lambda items: [rng.choice(['list', 'tuple']), items]
    if attr == 'actions':
        return rng.choice([seq(['act']), seq([]), ['none'], seq(['a1', 'a2'])])
    if attr == 'file_dep':
        return seq(pick(FILES, 0, 2))
    if attr == 'task_dep':
        items = pick(names, 0, 2)
        if rng.random() < 0.25:
            items.append(rng.choice(['*', 'a*', '*:s0', 'b*', 'zz*', (rng.choice([n for n in names if '?' not in n and '[' not in n] or ['q'])) + '*']))
        return seq(items)
    if attr in ('calc_dep', 'setup'):
        return seq(pick(names, 0, 2))
    if attr == 'uptodate':
        items = pick(['u'], 0, 2)
        return ['list', items] if rng.random() < 0.85 else ['tuple', items]
    if attr == 'targets':
        return seq(pick(TARGETS, 0, 2))
    if attr == 'clean':
        return rng.choice([['bool', True], seq([]), seq(['c'])])
    if attr in ('teardown', 'watch'):
        return seq(pick(['w'], 0, 1))
    if attr == 'params':
        return seq(pick(['p'], 0, 1))
    if attr == 'doc':
        return rng.choice([['none'], ['str', 'doc'], ['str', '']])
    if attr == 'pos_arg':
        return rng.choice([['none'], ['str', 'pos']])
    if attr == 'verbosity':
        return rng.choice([['none'], ['int', 0], ['int', 1], ['int', 2]])
    if attr in ('io', 'meta'):
        return rng.choice([['none'], ['dict', []], ['dict', [['capture', 'x']]]])
    if attr == 'getargs':
        return ['dict', [['k%d' % i, rng.choice(names)] for i in range(rng.randint(0, 2))] if names else []]
    if attr == 'title':
        return rng.choice([['none'], ['callable']])
    return ['str', 'v']


OPTIONAL = ['file_dep', 'task_dep', 'uptodate', 'calc_dep', 'targets', 'setup', 'clean', 'teardown', 'doc', 'params',
            'pos_arg', 'verbosity', 'io', 'getargs', 'title', 'watch', 'meta']
DEP_HEAVY = ['task_dep', 'setup', 'calc_dep', 'getargs', 'targets', 'file_dep', 'task_dep', 'uptodate']


def valid_dict(rng, names, extra=()):
    d = [copy.deepcopy(ACTIONS)] if rng.random() < 0.8 else [['actions', valid_value(rng, 'actions', names)]]
    attrs = []
    for _ in range(rng.randint(0, 4)):
        a = rng.choice(DEP_HEAVY if rng.random() < 0.6 else OPTIONAL)
        if a not in attrs:
            attrs.append(a)
    for a in attrs:
        d.append([a, valid_value(rng, a, names)])
    d += [list(x) for x in extra]
    rng.shuffle(d)
    return d


DEFECTS = ['wrong-type', 'wrong-type', 'wrong-type', 'unknown-field', 'missing-actions', 'name-in-return',
           'missing-name', 'dup-across', 'dup-in-gen', 'dup-sub', 'group-after-plain', 'group-after-sub', 'taskobj-dup',
           'dup-target', 'dangling', 'dangling', 'dangling', 'cmd-creator', 'cmd-basename', 'yield-other',
           'result-other', 'eq-in-name', 'dup-subtask-taskobj', 'plain-after-group', 'unhashable-basename', 'uptodate-tuple-getargs', 'nonstr-basename',
           'dup-group-basename']


def plan_case(rng):
    """structured case: plan creators and the names they define, then fill in dicts that refer to those names"""
    n_creators = rng.choice([1, 1, 2, 2, 3, 4])
    pool = NAMES[:]
    rng.shuffle(pool)
    plans = []
    for i in range(n_creators):
        nm = pool[i]
        kind = rng.choice(['dict', 'dict', 'dict', 'gen', 'gen', 'gen', 'task', 'none', 'emptygen'])
        plans.append({'name': nm, 'kind': kind, 'subs': rng.randint(1, 3) if kind == 'gen' else 0,
                      'shape': rng.choice(['subs', 'subs', 'subs+attrs', 'basenames', 'mixed'])})
    names = []
    for p in plans:
        pool_sub = ['s0', 's1', 's2', 's3', 'a', 'z'] if rng.random() < 0.8 else GLOB_SUBNAMES + ['s0', 'z']
        p['subnames'] = rng.sample(pool_sub, p['subs']) if p['kind'] == 'gen' else []
        if p['kind'] in ('dict', 'task', 'emptygen'):
            names.append(p['name'])
        elif p['kind'] == 'gen':
            if p['shape'] == 'basenames':
                names += ['%s%d' % (p['name'], j) for j in range(p['subs'])]
            else:
                names += [p['name']] + ['%s:%s' % (p['name'], sn) for sn in p['subnames']]
    creators = []
    lines = rng.sample(range(1, 40), n_creators)
    if rng.random() < 0.5:
        lines.sort()
    if n_creators > 1 and rng.random() < 0.15:
        lines[1] = lines[0]
    for p, line in zip(plans, lines):
        k = p['kind']
        if k == 'dict':
            res = {'k': 'dict', 'd': valid_dict(rng, names)}
        elif k == 'task':
            res = {'k': 'task', 't': {'name': p['name'], 'task_dep': [rng.choice(names)] if rng.random() < 0.4 else [],
                                      'targets': [rng.choice(TARGETS)] if rng.random() < 0.2 else []}}
        elif k == 'none':
            res = {'k': 'none'}
        elif k == 'emptygen':
            res = {'k': 'gen', 'items': [] if rng.random() < 0.6 else [{'k': 'nested', 'items': []}]}
        else:
            items = []
            if p['shape'] == 'basenames':
                for j in range(p['subs']):
                    items.append({'k': 'dict', 'd': valid_dict(rng, names, [['basename', ['str', '%s%d' % (p['name'], j)]]])})
            else:
                if p['shape'] == 'subs+attrs':
                    ga = [['name', ['none']], ['doc', ['str', 'group doc']]]
                    if rng.random() < 0.4:
                        ga.append(['task_dep', ['list', [rng.choice(names)]]])
                    items.append({'k': 'dict', 'd': ga})
                for sn in p['subnames']:
                    extra = [['name', ['str', sn]]]
                    if rng.random() < 0.3:
                        extra.append(['basename', ['str', p['name']]])
                    items.append({'k': 'dict', 'd': valid_dict(rng, names, extra)})
                if p['shape'] == 'mixed':
                    items.insert(rng.randint(0, len(items)),
                                 {'k': 'task', 't': {'name': p['name'] + 'T', 'task_dep': []}})
            # nest some of the items
            if len(items) >= 2 and rng.random() < 0.4:
                i = rng.randint(0, len(items) - 1)
                j = rng.randint(i + 1, len(items))
                inner = items[i:j]
                if len(inner) >= 2 and rng.random() < 0.3:
                    inner = [inner[0], {'k': 'nested', 'items': inner[1:]}]
                items = items[:i] + [{'k': 'nested', 'items': inner}] + items[j:]
            res = {'k': 'gen', 'items': items}
        creators.append({'name': p['name'], 'line': line, 'kind': rng.choice(['func', 'func', 'obj', 'objb']),
                         'result': res})
    return {'creators': creators}, names


def all_dict_refs(case):
    """mutable references to every task dict of the case with its context"""
    out = []
    for c in case['creators']:
        r = c['result']
        if r['k'] == 'dict':
            out.append((c, 'return', r['d']))
        elif r['k'] == 'gen':
            for it in L.flat_items(r):
                if it['k'] == 'dict':
                    out.append((c, 'yield', it['d']))
    return out


def set_attr(d, attr, v):
    for p in d:
        if p[0] == attr:
            p[1] = v
            return
    d.append([attr, v])


def seed_defect(rng, case, names, defect):
    """edit the case in place so that it contains one instance of the defect (when the shape of the case allows)"""
    dicts = all_dict_refs(case)
    gens = [c for c in case['creators'] if c['result']['k'] == 'gen']
    if defect == 'wrong-type' and dicts:
        c, how, d = rng.choice(dicts)
        attr = rng.choice(L.VALID_ATTRS)
        set_attr(d, attr, copy.deepcopy(rng.choice(EDGE_VALUES)))
    elif defect == 'unknown-field' and dicts:
        rng.choice(dicts)[2].append([rng.choice(['bogus', 'subtask_of', 'has_subtask', 'loader', 'Actions', '_private', '__doc__', 'task_deps']), ['int', 1]])
    elif defect == 'missing-actions' and dicts:
        d = rng.choice(dicts)[2]
        d[:] = [p for p in d if p[0] != 'actions']
    elif defect == 'name-in-return':
        cand = [x for x in dicts if x[1] == 'return']
        if cand:
            rng.choice(cand)[2].append(['name', ['str', 'n']])
    elif defect == 'missing-name':
        cand = [x for x in dicts if x[1] == 'yield']
        if cand:
            d = rng.choice(cand)[2]
            d[:] = [p for p in d if p[0] not in ('name', 'basename')]
    elif defect == 'dup-across' and len(case['creators']) >= 2:
        a, b = rng.sample(case['creators'], 2)
        if rng.random() < 0.5 or b['result']['k'] != 'dict':
            b['name'] = a['name']
        else:
            set_attr(b['result']['d'], 'basename', ['str', rng.choice(names) if names else a['name']])
    elif defect == 'dup-in-gen' and gens:
        g = rng.choice(gens)
        items = L.flat_items(g['result'])
        ds = [it for it in items if it['k'] == 'dict']
        if ds:
            g['result']['items'].append(copy.deepcopy(rng.choice(ds)))
    elif defect == 'dup-sub' and gens:
        g = rng.choice(gens)
        subs = [L._dget(it['d'], 'name')[1] for it in L.flat_items(g['result'])
                if it['k'] == 'dict' and (L._dget(it['d'], 'name') or ['none'])[0] == 'str']
        g['result']['items'].append({'k': 'dict', 'd': [copy.deepcopy(ACTIONS),
                                                         ['name', ['str', rng.choice(subs) if subs else 's0']]]})
    elif defect == 'group-after-plain' and gens:
        g = rng.choice(gens)
        g['result']['items'].insert(0, {'k': 'dict', 'd': [copy.deepcopy(ACTIONS), ['basename', ['str', g['name']]]]})
        if rng.random() < 0.5:
            g['result']['items'].append({'k': 'dict', 'd': [['name', ['none']]]})
    elif defect == 'group-after-sub' and gens:
        g = rng.choice(gens)
        g['result']['items'].append({'k': 'dict', 'd': [['name', ['none']], ['doc', ['str', 'late']]]})
        if rng.random() < 0.5:
            g['result']['items'].append({'k': 'dict', 'd': [copy.deepcopy(ACTIONS), ['name', ['str', 'late']]]})
    elif defect == 'taskobj-dup' and gens:
        g = rng.choice(gens)
        subs = [L._dget(it['d'], 'name')[1] for it in L.flat_items(g['result'])
                if it['k'] == 'dict' and (L._dget(it['d'], 'name') or ['none'])[0] == 'str']
        nm = rng.choice([g['name'], g['name'] + ':' + (rng.choice(subs) if subs else 's0'), g['name'] + '0'])
        # round 6: the Task object comes BEFORE the dicts half of the time (the duplicate is then met by the dict path)
        pos = 0 if rng.random() < 0.5 else len(g['result']['items'])
        g['result']['items'].insert(pos, {'k': 'task', 't': {'name': nm, 'task_dep': []}})
    elif defect == 'dup-subtask-taskobj' and gens:
        g = rng.choice(gens)
        subs = [L._dget(it['d'], 'name')[1] for it in L.flat_items(g['result'])
                if it['k'] == 'dict' and (L._dget(it['d'], 'name') or ['none'])[0] == 'str']
        if subs:
            ta = {'name': g['name'] + ':' + rng.choice(subs), 'task_dep': [], 'subtask_of': g['name']}
            if rng.random() < 0.5:
                case['creators'].append({'name': 'q', 'line': rng.randint(1, 40), 'kind': 'func',
                                         'result': {'k': 'task', 't': ta}})
            else:
                case['creators'].append({'name': 'q', 'line': rng.randint(1, 40), 'kind': 'func',
                                         'result': {'k': 'gen', 'items': [{'k': 'task', 't': ta}]}})
    elif defect == 'plain-after-group' and gens:
        g = rng.choice(gens)
        g['result']['items'].append({'k': 'dict', 'd': [copy.deepcopy(ACTIONS), ['basename', ['str', g['name']]]]})
    elif defect == 'dup-target' and len(dicts) >= 1:
        sp = rng.choice(TARGETS + SPELLINGS)
        for x in rng.sample(dicts, min(2, len(dicts))):
            set_attr(x[2], 'targets', ['list', [sp] if len(dicts) > 1 else [sp, sp]])
    elif defect == 'dangling' and dicts:
        d = rng.choice(dicts)[2]
        kind = rng.choice(['task_dep', 'setup', 'calc_dep', 'getargs'])
        ghost = rng.choice(['nope', 'a:zz', 'g', 'a ', '0', 'zz'])
        if kind == 'getargs':
            set_attr(d, 'getargs', ['dict', [['k', ghost]]])
        else:
            old = L._dget(d, kind)
            items = (list(old[1]) if old and old[0] in ('list', 'tuple') else [])
            items = [x for x in items if '*' not in x]
            while names and len(items) < rng.choice([0, 1, 2, 2]):
                items.append(rng.choice(names))
            items.append(ghost)
            rng.shuffle(items)
            set_attr(d, kind, [rng.choice(['list', 'tuple']), items])
    elif defect == 'cmd-creator':
        rng.choice(case['creators'])['name'] = rng.choice(['list', 'run', 'help', 'clean', 'reset-dep'])
    elif defect == 'cmd-basename' and dicts:
        c, how, d = rng.choice(dicts)
        set_attr(d, 'basename', ['str', rng.choice(['list', 'run', 'info', 'forget'])])
    elif defect == 'yield-other' and gens:
        g = rng.choice(gens)
        item = {'k': 'other', 'py': rng.choice(L.OTHER_KINDS)}
        if rng.random() < 0.3:
            item = {'k': 'nested', 'items': [item]}
        g['result']['items'].insert(rng.randint(0, len(g['result']['items'])), item)
    elif defect == 'result-other':
        rng.choice(case['creators'])['result'] = {'k': 'other', 'py': rng.choice([k for k in L.OTHER_KINDS if k != 'none'])}
    elif defect == 'eq-in-name':
        if dicts and rng.random() < 0.6:
            c, how, d = rng.choice(dicts)
            set_attr(d, 'name' if how == 'yield' else 'basename', ['str', rng.choice(['a=b', '=', 'x='])])
        else:
            rng.choice(case['creators'])['name'] = 'n=m'
    elif defect == 'unhashable-basename':
        cand = [x for x in dicts if x[1] == 'yield']
        if cand:
            set_attr(rng.choice(cand)[2], 'basename', rng.choice([['list', ['x']], ['dict', [['k', 'x']]]]))
    elif defect == 'uptodate-tuple-getargs' and dicts and names:
        d = rng.choice(dicts)[2]
        set_attr(d, 'uptodate', ['tuple', ['u']])
        set_attr(d, 'getargs', ['dict', [['k', rng.choice(names)]]])
    elif defect == 'nonstr-basename' and dicts:
        set_attr(rng.choice(dicts)[2], 'basename', copy.deepcopy(rng.choice(EDGE_VALUES)))
    elif defect == 'dup-group-basename' and len(gens) >= 1 and len(case['creators']) >= 2:
        g = rng.choice(gens)
        other = rng.choice([c for c in case['creators'] if c is not g])
        g['result']['items'].append({'k': 'dict', 'd': [copy.deepcopy(ACTIONS), ['name', ['str', 'q']],
                                                         ['basename', ['str', other['name']]]]})


def gen_case(rng):
    case, names = plan_case(rng)
    r = rng.random()
    tags = []
    if r < 0.45:
        n_def = 0
    elif r < 0.9:
        n_def = 1
    else:
        n_def = 2
    for _ in range(n_def):
        d = rng.choice(DEFECTS)
        seed_defect(rng, case, names, d)
        tags.append(d)
    if rng.random() < 0.08:
        rng.choice(case['creators'])['name'] = rng.choice(ODD_NAMES)
    sanitize(case)
    return case, tags


def sanitize(case):
    """Task objects handed over by creators are *given* (valid) objects: constructing Task('a=b', ...) would raise
    inside the creator itself, which is outside the model"""
    for c in case['creators']:
        r = c['result']
        tas = [r['t']] if r['k'] == 'task' else ([it['t'] for it in L.flat_items(r) if it['k'] == 'task']
                                                 if r['k'] == 'gen' else [])
        for ta in tas:
            ta['name'] = ta['name'].replace('=', '_')


def _has_params(case):
    return any(a == 'params' for _, _, d in L._walk_dicts(case) for a, _ in d)


def to_file_case(rng, case):
    """the same creators as functions of a generated dodo *file* (plain, functools.wraps-decorated by a shared
    decorator, doubly decorated, bound method, create_after, task_params, create_doit_tasks object), defined in the
    order of their lines, loaded through ModuleTaskLoader(module).  None when the names do not allow it."""
    names = [c['name'] for c in case['creators']]
    if len(set(names)) != len(names) or not all(n.isidentifier() and n.isascii() for n in names):
        return None
    fc = copy.deepcopy(case)
    order = sorted(range(len(fc['creators'])), key=lambda i: int(fc['creators'][i]['line']))
    for rank, i in enumerate(order):
        fc['creators'][i]['line'] = rank + 1
    shared = rng.random() < 0.6
    for c in fc['creators']:
        c['kind'] = 'wrapped' if shared and rng.random() < 0.8 else rng.choice(L.FILE_KINDS)
        if c['kind'] == 'task_params' and _has_params(fc):
            c['kind'] = 'wrapped'
    fc['mode'] = 'file'
    return fc


def file_exhaustive_cases():
    """three creators a, b, c in every definition order x patterns of creator kinds"""
    import itertools
    res = {'a': {'k': 'gen', 'items': [{'k': 'dict', 'd': [copy.deepcopy(ACTIONS), ['name', ['str', 'z2']]]},
                                       {'k': 'dict', 'd': [copy.deepcopy(ACTIONS), ['name', ['str', 'z1']]]}]},
           'b': {'k': 'dict', 'd': [copy.deepcopy(ACTIONS)]},
           'c': {'k': 'dict', 'd': [copy.deepcopy(ACTIONS), ['task_dep', ['list', ['a']]]]}}
    kinds = [('wrapped', 'wrapped', 'wrapped'), ('wrapped', 'wrapped', 'func'), ('wrapped2', 'wrapped', 'method'),
             ('create_after', 'wrapped', 'wrapped'), ('task_params', 'wrapped2', 'obj'), ('method', 'method', 'method'),
             ('func', 'func', 'func'), ('obj', 'wrapped2', 'wrapped2')]
    out = []
    for perm in itertools.permutations(['a', 'b', 'c']):
        for ks in kinds:
            cs = [{'name': n, 'line': perm.index(n) + 1, 'kind': k, 'result': copy.deepcopy(res[n])}
                  for n, k in zip(['a', 'b', 'c'], ks)]
            out.append(({'creators': cs, 'mode': 'file'}, ['exhaustive:file-module']))
    return out


def exhaustive_cases():
    """every attribute x every edge value, in a returned dict, a sub-task dict and a group-attribute dict; with a
    second creator `x` so that references to 'x' resolve"""
    helper = {'name': 'x', 'line': 2, 'kind': 'func', 'result': {'k': 'dict', 'd': [copy.deepcopy(ACTIONS)]}}
    out = []
    for attr in L.VALID_ATTRS + ['bogus']:
        for v in EDGE_VALUES:
            for shape in ('return', 'sub', 'group', 'plain-yield'):
                d = [copy.deepcopy(ACTIONS)] if attr != 'actions' else []
                d.append([attr, copy.deepcopy(v)])
                if shape == 'return':
                    res = {'k': 'dict', 'd': d}
                elif shape == 'sub':
                    if attr != 'name':
                        d.append(['name', ['str', 's']])
                    res = {'k': 'gen', 'items': [{'k': 'dict', 'd': d}]}
                elif shape == 'group':
                    if attr == 'name':
                        continue
                    d = [p for p in d if p[0] != 'actions' or attr == 'actions'] + [['name', ['none']]]
                    res = {'k': 'gen', 'items': [{'k': 'dict', 'd': d},
                                                 {'k': 'dict', 'd': [copy.deepcopy(ACTIONS), ['name', ['str', 's']]]}]}
                else:
                    if attr in ('name',):
                        continue
                    if attr != 'basename':
                        d.append(['basename', ['str', 'pb']])
                    res = {'k': 'gen', 'items': [{'k': 'dict', 'd': d}]}
                out.append(({'creators': [copy.deepcopy(helper), {'name': 'f', 'line': 5, 'kind': 'func', 'result': res}]},
                            ['exhaustive:%s' % shape]))
    # dangling references: every kind x position of the ghost among valid names x, y
    helper_y = {'name': 'y', 'line': 3, 'kind': 'func', 'result': {'k': 'dict', 'd': [copy.deepcopy(ACTIONS)]}}
    for kind in ('task_dep', 'setup', 'calc_dep', 'getargs'):
        for ghost in ('0', 'xx', 'zz', 'x:s'):
            for arrangement in (['G'], ['x', 'G'], ['G', 'x'], ['x', 'y', 'G'], ['x', 'G', 'y'], ['G', 'y', 'x'], ['x', 'y']):
                items = [ghost if a == 'G' else a for a in arrangement]
                for seq in ('list', 'tuple'):
                    if kind == 'getargs':
                        v = ['dict', [['k%d' % i, it] for i, it in enumerate(items)]]
                    else:
                        v = [seq, items]
                    for shape in ('return', 'sub'):
                        d = [copy.deepcopy(ACTIONS), [kind, v]]
                        if shape == 'return':
                            res = {'k': 'dict', 'd': d}
                        else:
                            res = {'k': 'gen', 'items': [{'k': 'dict', 'd': d + [['name', ['str', 's']]]}]}
                        out.append(({'creators': [copy.deepcopy(helper), copy.deepcopy(helper_y),
                                                  {'name': 'f', 'line': 5, 'kind': 'func', 'result': res}]},
                                    ['exhaustive:refs']))
    # non-dict yields / results of every top-level type: direct, nested, after a valid dict, before one
    vd = lambda n: {'k': 'dict', 'd': [copy.deepcopy(ACTIONS), ['name', ['str', n]]]}
    for kind in L.OTHER_KINDS:
        o = {'k': 'other', 'py': kind}
        for items in ([o], [{'k': 'nested', 'items': [o]}], [vd('s'), o], [o, vd('s')],
                      [vd('s'), {'k': 'nested', 'items': [vd('t'), {'k': 'nested', 'items': [o]}]}]):
            out.append(({'creators': [{'name': 'g', 'line': 5, 'kind': 'func',
                                       'result': {'k': 'gen', 'items': copy.deepcopy(items)}}]}, ['exhaustive:other']))
        if kind != 'none':
            out.append(({'creators': [{'name': 'g', 'line': 5, 'kind': 'func', 'result': {'k': 'other', 'py': kind}}]},
                        ['exhaustive:other']))
    # names with glob metacharacters: sub-task names (every position among plain ones), basenames, references to them
    for gname in GLOB_SUBNAMES:
        for subs in ([gname], [gname, 'b'], ['b', gname], ['c', gname, 'b'], [gname, 'x.py', 'b'], ['x.py', gname]):
            out.append(({'creators': [{'name': 'g', 'line': 5, 'kind': 'func',
                                       'result': {'k': 'gen', 'items': [vd(n) for n in subs]}}]},
                        ['exhaustive:glob-names']))
        out.append(({'creators': [{'name': 'g', 'line': 5, 'kind': 'func', 'result': {'k': 'gen', 'items': [
            {'k': 'dict', 'd': [copy.deepcopy(ACTIONS), ['basename', ['str', gname]]]},
            {'k': 'dict', 'd': [copy.deepcopy(ACTIONS), ['basename', ['str', 'p']]]}]}},
            {'name': 'h', 'line': 7, 'kind': 'func', 'result': {'k': 'dict', 'd': [copy.deepcopy(ACTIONS), ['basename', ['str', 'h' + gname]]]}}]},
            ['exhaustive:glob-names']))
        if '?' not in gname and '[' not in gname:
            out.append(({'creators': [{'name': 'g', 'line': 5, 'kind': 'func',
                                       'result': {'k': 'gen', 'items': [vd(gname), vd('b')]}},
                                      {'name': 'h', 'line': 7, 'kind': 'func', 'result': {'k': 'dict', 'd': [
                                          copy.deepcopy(ACTIONS), ['task_dep', ['list', ['g:' + gname]]]]}}]},
                        ['exhaustive:glob-names']))
    # duplicate targets: inside one task, between a task and a sub-task, between two sub-tasks, group attrs / sub-task
    sub = lambda n, *extra: {'k': 'dict', 'd': [copy.deepcopy(ACTIONS), ['name', ['str', n]]] + [copy.deepcopy(e) for e in extra]}
    plain = lambda n, line, *extra: {'name': n, 'line': line, 'kind': 'func',
                                     'result': {'k': 'dict', 'd': [copy.deepcopy(ACTIONS)] + [copy.deepcopy(e) for e in extra]}}
    gen2 = lambda items: {'name': 'g', 'line': 7, 'kind': 'func', 'result': {'k': 'gen', 'items': items}}
    for sp in SPELLINGS:       # the SAME spelling twice must be rejected, however the path is written
        T1 = ['targets', ['list', [sp]]]
        target_shapes = [
            [plain('f', 5, ['targets', ['tuple', [sp, sp]]])],
            [plain('f', 5, T1), plain('h', 6, T1)],
            [plain('f', 5, T1), gen2([sub('s', T1)])],
            [gen2([sub('s', T1), sub('t', T1)])],
            [gen2([sub('s', ['targets', ['list', ['t2', sp, 't2']]])])],
            [gen2([{'k': 'dict', 'd': [['name', ['none']], T1]}, sub('s', T1)])],
            [gen2([sub('s', T1)]), {'name': 'h', 'line': 9, 'kind': 'func',
                                    'result': {'k': 'task', 't': {'name': 'h', 'task_dep': [], 'targets': [sp]}}}],
            [plain('f', 5, ['targets', ['list', ['t2', sp]]]), plain('h', 6, ['targets', ['tuple', [sp, 't3']]]),
             plain('k', 8, ['file_dep', ['list', [sp]]])],
        ]
        for shp in target_shapes:
            out.append(({'creators': copy.deepcopy(shp)}, ['exhaustive:targets']))
    for s1, s2 in SAME_FILE_PAIRS:      # two spellings of one file are different targets for doit (compared as strings)
        for shp in ([plain('f', 5, ['targets', ['list', [s1]]]), plain('h', 6, ['targets', ['list', [s2]]]),
                     plain('k', 8, ['file_dep', ['list', [s1]]]), plain('m', 9, ['file_dep', ['list', [s2, s1]]])],
                    [gen2([sub('s', ['targets', ['list', [s1]]]), sub('t', ['targets', ['list', [s2]]])])],
                    [plain('f', 5, ['targets', ['list', [s1, s2]]])]):
            out.append(({'creators': copy.deepcopy(shp)}, ['exhaustive:targets-spellings']))
    # pairs that interact inside Task.__init__
    for u in (['list', []], ['list', ['u']], ['tuple', []], ['tuple', ['u']]):
        for g in (['dict', []], ['dict', [['k', 'x']]], ['dict', [['k', None]]], ['dict', [['k', 'nope']]], ['bool', False]):
            for s in (None, ['list', ['x']]):
                d = [copy.deepcopy(ACTIONS), ['uptodate', u], ['getargs', g]] + ([['setup', s]] if s else [])
                out.append(({'creators': [copy.deepcopy(helper), {'name': 'f', 'line': 5, 'kind': 'func',
                                                                  'result': {'k': 'dict', 'd': d}}]},
                            ['exhaustive:pair']))
    return out


# ----------------------------------------------------------------------------------------------
# evaluation

_ENV = {}


def env():
    if not _ENV:
        _ENV['cmds'] = L.command_names()
        _ENV['table'] = L.spec_table()
    return _ENV


def nontrivial(case, api):
    return not (api['load']['out'] == 'invalidDodo' and any(c['name'] in env()['cmds'] for c in case['creators']))


def evaluate(case, with_cli=False, workdir=None):
    e = env()
    api = L.run_api(case, e['cmds'])
    cli = None
    if with_cli:
        cli = {'list': L.run_cli(case, ['list'], workdir)}
        # `doit run` delays a create_after creator (C15): only `list` is comparable for such a case
        if not any(c.get('kind') == 'create_after' for c in case['creators']):
            cli['run'] = L.run_cli(case, ['run'], workdir)
    return api, cli, L.monitor(case, api, e['cmds'], e['table'], cli)


def where_of(case, reason):
    """context of a wrong-type acceptance (used by signatures): which kind of dict carries the value"""
    if not reason.startswith('accepted:wrong-type:'):
        return None
    _, _, attr, rest = reason.split(':', 3)
    val = json.loads(rest)
    for ci, how, d in L._walk_dicts(case):
        if L._dget(d, attr) == val:
            if how == 'yield' and L._dget(d, 'name') is not None:
                return 'yield-group-attrs' if L._dget(d, 'name')[0] == 'none' else 'yield-with-name'
            return how
    return None


def _candidates(case):
    """smaller variants of a case (delta debugging steps)"""
    cs = case['creators']
    for i in range(len(cs)):
        if len(cs) > 1:
            yield dict(case, creators=cs[:i] + cs[i + 1:])
    for i, c in enumerate(cs):
        r = c['result']

        def with_result(nr):
            c2 = dict(c)
            c2['result'] = nr
            return dict(case, creators=cs[:i] + [c2] + cs[i + 1:])
        if r['k'] == 'gen':
            items = r['items']
            for j, it in enumerate(items):
                yield with_result({'k': 'gen', 'items': items[:j] + items[j + 1:]})
                if it['k'] == 'nested':
                    yield with_result({'k': 'gen', 'items': items[:j] + it['items'] + items[j + 1:]})
                elif it['k'] == 'dict':
                    for d2 in _dict_variants(it['d']):
                        yield with_result({'k': 'gen', 'items': items[:j] + [{'k': 'dict', 'd': d2}] + items[j + 1:]})
                elif it['k'] == 'task':
                    for t2 in _task_variants(it['t']):
                        yield with_result({'k': 'gen', 'items': items[:j] + [{'k': 'task', 't': t2}] + items[j + 1:]})
        elif r['k'] == 'dict':
            for d2 in _dict_variants(r['d']):
                yield with_result({'k': 'dict', 'd': d2})
        elif r['k'] == 'task':
            for t2 in _task_variants(r['t']):
                yield with_result({'k': 'task', 't': t2})
        if c.get('kind', 'func') != 'func':
            c2 = dict(c)
            c2['kind'] = 'func'
            yield dict(case, creators=cs[:i] + [c2] + cs[i + 1:])


def _task_variants(t):
    for key in ('task_dep', 'setup', 'calc_dep', 'targets', 'file_dep'):
        items = t.get(key) or []
        for m in range(len(items)):
            t2 = dict(t)
            t2[key] = items[:m] + items[m + 1:]
            yield t2


def _dict_variants(d):
    for k in range(len(d)):
        yield d[:k] + d[k + 1:]
    for k, (a, v) in enumerate(d):
        if v[0] in ('list', 'tuple', 'dict') and len(v[1]) > 0:
            for m in range(len(v[1])):
                yield d[:k] + [[a, [v[0], v[1][:m] + v[1][m + 1:]]]] + d[k + 1:]


def shrink(case, reason, with_cli, workdir, acct=None, budget=600):
    cur = copy.deepcopy(case)
    steps = 0
    acct = acct if acct is not None else {}
    progress = True
    while progress and steps < budget:
        progress = False
        for cand in _candidates(cur):
            steps += 1
            acct['steps'] = acct.get('steps', 0) + (25 if with_cli else 1)
            try:
                _, _, reasons = evaluate(cand, with_cli, workdir)
            except Exception:  # noqa  (a malformed candidate is not a smaller witness)
                continue
            if reason in reasons:
                cur = copy.deepcopy(cand)
                progress = True
                break
            if steps >= budget:
                break
    return cur


def check_case(st, case, tags, model_ans, with_cli, workdir, shrunk_reasons):
    e = env()
    api, cli, reasons = evaluate(case, with_cli, workdir)
    st.case(case, nontrivial(case, api))
    st.traces += 1 + (2 if with_cli else 0)
    st.count('outcome:' + api['control']['out'] + (':load' if api['load']['out'] != 'tasks' else ''))
    st.count('creators:%d' % len(case['creators']))
    st.count('mode:%s' % case.get('mode', 'namespace-dict'))
    for c in case['creators']:
        st.count('result:' + c['result']['k'])
        st.count('creator-kind:' + c.get('kind', 'func'))
    for t in tags or ['no-seeded-defect']:
        st.count('seed:' + t)
    if api['control']['out'] == 'tasks':
        n = len(api['control']['tasks'])
        st.count('tasks:%s' % (n if n < 6 else '6+'))
        if any(t['subtask_of'] for t in api['control']['tasks']):
            st.count('has-subtasks')
        if any(t['wild_dep'] for t in api['control']['tasks']):
            st.count('has-wild-dep')
        if any(len(t['task_dep']) > 0 and t['file_dep'] for t in api['control']['tasks']):
            st.count('has-file-dep+task-dep')
    # hypotheses of the partial theorems, evaluated by the driver on this case
    st.count('hyp:PlainObjs=%s' % model_ans.get('plain_objs'))
    # (K)
    for level in ('load', 'control'):
        dif = L.diff_level(model_ans[level], api[level], level)
        if dif:
            st.divergence({'case': case, 'level': level, 'model': model_ans[level], 'impl': api[level]},
                          'correspondence M6/%s' % dif)
            break
    if cli:
        st.count('cli-cases')
        for cmd in sorted(cli):
            lvl = 'load' if cmd == 'list' else 'control'
            m = model_ans[lvl]['out']
            o = cli[cmd]
            if m == 'tasks':
                load_tb = o['traceback'] and (o.get('site') or '?').split(':')[0] in L.LOADING_FILES
                if o['traceback'] and not load_tb:
                    st.count('cli-%s:traceback-while-executing(not loading)' % cmd)
                agree = not load_tb and (o['traceback'] or o['code'] != 3 or o['cyclic'])
            elif m == 'crash':
                agree = o['traceback']
            else:
                agree = o['code'] == 3 and o['error'] and not o['traceback']
            if not agree:
                st.divergence({'case': case, 'cmd': cmd, 'model': model_ans[lvl], 'cli': o},
                              'correspondence M6/cli-%s: model %s, exit %s error-line %s traceback %s'
                              % (cmd, m, o['code'], o['error'], o['traceback']))
    # (P)
    for r in reasons:
        st.count('monitor:' + r.split(':')[0] + ':' + r.split(':')[1])
        if shrunk_reasons.get('steps', 0) > 8000 or shrunk_reasons.get('n:' + r, 0) >= 3:
            small = case       # shrinking budget of this worker / for this reason is spent: keep the case as found
        else:
            small = shrink(case, r, with_cli and r.startswith('cli-'), workdir, shrunk_reasons)
        shrunk_reasons['n:' + r] = shrunk_reasons.get('n:' + r, 0) + 1
        api2, cli2, _ = evaluate(small, with_cli and r.startswith('cli-'), workdir)
        st.violation({'reason': r, 'case': small, 'cmds': e['cmds'], 'where': where_of(small, r),
                      'observed': {'load': _brief(api2['load']), 'control': _brief(api2['control']),
                                   'cli': cli2}},
                     'monitor', 'C18 statement false on the implementation: %s' % r)


def _brief(o):
    if o['out'] == 'tasks':
        return {'out': 'tasks', 'tasks': [{k: t[k] for k in ('name', 'task_dep', 'setup', 'calc_dep', 'subtask_of',
                                                             'has_subtask', 'targets')} for t in o['tasks']]}
    return o


def process_batch(batch):
    cases, cli_every = batch
    st = WorkerStats()
    e = env()
    work = common.scratch_dir('c18')
    answers = common.drv_batch([L.model_request(c, e['cmds']) for c, _ in cases])
    shrunk = {}
    for i, ((case, tags), ans) in enumerate(zip(cases, answers)):
        if 'error' in ans:
            st.divergence({'case': case}, 'driver: %s' % ans['error'])
            continue
        check_case(st, case, tags, ans, cli_every > 0 and i % cli_every == 0, work, shrunk)
    return st


def run(ctx):
    rng = ctx.rng
    corpus = []
    for name, c in common.load_corpus('C18'):
        corpus.append((c['case'], ['corpus:' + name]))
        ctx.count('corpus')
    ex = exhaustive_cases()
    ctx.extra['exhaustive_small_scope'] = {'attributes': len(L.VALID_ATTRS) + 1, 'edge_values': len(EDGE_VALUES),
                                           'shapes': 4, 'cases': len(ex)}
    n_random = (2500 if ctx.tier == 'quick' else 60000) * ctx.boost
    shift = getattr(ctx, 'seed_shift', 0)
    rand = []
    for i in range(n_random):
        r = random.Random(canon([ctx.seed, 'C18', shift, i]))
        case, tags = gen_case(r)
        rand.append((case, tags))
        if i % 3 == 0:
            fc = to_file_case(r, case)
            if fc is not None:
                rand.append((fc, tags + ['file-module']))
    ex += file_exhaustive_cases()
    batches = []
    # corpus: always with the CLI
    if corpus:
        batches.append((corpus, 1))
    size = 120
    cli_ex = 6 if ctx.tier == 'quick' else 2
    cli_rand = 5 if ctx.tier == 'quick' else 3
    batches += [(ex[i:i + size], cli_ex) for i in range(0, len(ex), size)]
    batches += [(rand[i:i + size], cli_rand) for i in range(0, len(rand), size)]
    for st in common.pmap(process_batch, batches):
        st.merge_into(ctx)


def search(ctx):
    ctx.seed_shift = getattr(ctx, 'seed_shift', 0) + 7919
    run(ctx)


def replay(ctx, data):
    w = data.get('witness') or {}
    case = w.get('case') or data.get('case')       # a replay file, or a corpus seed (corpus/C18/*.json)
    if case is None:
        print('nothing to replay (no failing input was found): %s' % data.get('note'))
        return False
    e = env()
    work = common.scratch_dir('c18r')
    api, cli, reasons = evaluate(case, True, work)
    ans = common.drv_batch([L.model_request(case, e['cmds'])])[0]
    print('case    :', json.dumps(case))
    print('impl    : load=%s' % json.dumps(_brief(api['load'])))
    print('          control=%s' % json.dumps(_brief(api['control'])))
    for cmd in sorted(cli):
        o = cli[cmd]
        print('doit %-4s: exit=%s ERROR-line=%s traceback=%s  %s' % (cmd, o['code'], o['error'], o['traceback'],
                                                                  o['err'].strip().split('\n')[-1][:140]))
    print('model   : load=%s control=%s' % (ans['load']['out'], ans['control']['out']))
    print('monitor : %s' % (reasons or 'statement holds'))
    return not reasons
