"""C02 -- each needed task is processed exactly once; nothing else runs   (model M1, DESIGN §5 C02)

(T) lean/DoitModel/Props/C02.lean: at_most_once, inside_closure (safety, all schedules), all_processed (under the C09
    hypotheses).
(K) as C01 (harness/runlib.py): the real doit on generated DAG cases, every observed event list must be accepted by the
    Lean run model; the generator is weighted towards shared dependencies (diamonds), groups with sub-tasks, shared
    setup-tasks and repeated names in the selection.
(P) per-task counters on the implementation's trace: Lean monitors C02_at_most_once / C02_inside_closure /
    C02_all_processed, cross-checked by runlib.py_monitor_c02.  A crash or hang of the runner on an acyclic graph counts
    as "not all processed".
Round 6: history cases (runlib.apply_history, knob p_history) -- the measured run is the SECOND run on its DB: calc tasks
    that an earlier run executed (uptodate=[run_once]) are up-to-date and deliver their saved values, also when they are
    processed before anybody waits for them (`doit scan build`); seeds corpus/C02/48-history-*.json.
Found by this check and fixed upstream since (fixed: line in findings/known-findings.txt): dup-selection-truncates
(`doit a a b` silently dropped b); seeds corpus/C02/dup-selection*.json, seeded/revert-F-C02-dupsel.
"""
import time

import common
import runlib

PROP = 'C02'

META = {
    'property': PROP,
    'lean_props': ['DoitModel.Props.C02'],
    'level': 'proof',
    'budget': {'quick': 30, 'thorough': 420},
    'anchors': ['doit/control.py::TaskDispatcher._add_task', 'doit/control.py::TaskDispatcher._node_add_wait_run',
                'doit/control.py::TaskDispatcher._update_waiting', 'doit/control.py::TaskDispatcher._gen_node',
                'doit/control.py::TaskDispatcher._get_next_node',
                'doit/control.py::TaskDispatcher._process_calc_dep_results',
                'doit/control.py::TaskDispatcher._check_deadlock',
                'doit/control.py::TaskDispatcher._dispatcher_generator', 'doit/control.py::ExecNode',
                'doit/control.py::TaskControl.set_implicit_deps',
                'doit/runner.py::Runner.select_task', 'doit/runner.py::Runner.execute_task',
                'doit/runner.py::Runner.process_task_result', 'doit/runner.py::Runner._handle_task_error',
                'doit/runner.py::Runner.run_tasks', 'doit/runner.py::Runner.run_all',
                'doit/runner.py::MRunner.get_next_job', 'doit/runner.py::MRunner._run_start_processes',
                'doit/runner.py::MRunner.run_tasks', 'doit/runner.py::MRunner.execute_task_subprocess'],
    'technique': ('Lean 4 invariant proofs over a small-step transition system of TaskDispatcher + Runner / MRunner / '
                  'MThreadRunner (Inv1 dispatcher, Inv2 runner discipline, Inv3 counting / flight exclusivity, MInv '
                  'closure membership, InvD/InvL/InvP "every generator is queued, every yielded node is selected", Inv5 '
                  'free_proc / proc_count accounting), for all schedules; trace-acceptance correspondence against the '
                  'real doit (serial, real MThreadRunner under a deterministic scheduler incl. exhaustive completion '
                  'orders of all small DAGs, real multiprocessing with token-forced completion order); Lean monitors on '
                  'every implementation trace, Python reference monitors as cross-check'),
    'design_ref': '§5 C02, §4 M1, §6.3, §6.4',
    'level_text': ('Machine-checked, all three parts, serial and parallel: (1) C02_at_most_once_serial / _parallel, '
                  'C02_selected_once_serial, C02_job_accounting -- in every reachable state (every graph, oracle, '
                  "set-iteration order, worker interleaving, numProcess) each task's actions start at most once, it gets "
                  'at most one terminal report, and a chosen task is in exactly one place (held by get_next_job, in the '
                  'job queue, started; at most one worker executes it); (2) C02_inside_closure_serial / _parallel, '
                  'C02_no_outside_work -- every event, node, job and busy worker belongs to the closure of the selection '
                  '(task_dep, calc_dep, calc results, setup-tasks only of tasks that are neither ignored nor '
                  'up-to-date; C02_closure_excludes_lazy_setup shows the closure is not everything); (3) '
                  'C02_all_processed_serial / _parallel -- when the run ends because the dispatcher has nothing left '
                  '(no failure without --continue, no internal or cyclic error) every member of the closure has exactly '
                  'one terminal report; for the parallel runners this rests on the proved free_proc / proc_count '
                  'accounting (C02_queue_accounting, C02_end_quiescent).  No acyclicity hypothesis is needed.  The model '
                  'is tied to doit on every run by trace acceptance of the real doit on generated DAGs weighted towards '
                  'shared dependencies, groups, shared setup-tasks and repeated selections; a crash or hang of the runner '
                  'on an acyclic graph counts as a violation.'),
    'level_note': ('Trusted: as C01.  The closure of the theorem C02_inside_closure is a static over-approximation '
                  '(what any closure member could deliver counts); the monitor evaluates the sharper run-dependent '
                  "closure of the USER's selection on every implementation trace.  The finding dup-selection-truncates "
                  '(a repeated task name made doit drop the rest of the command line) was found by this check and is '
                  'fixed in /repo (dcfe778); seeded/revert-F-C02-dupsel re-creates it.'),
    'rule': 'random DAGs of 3-9 tasks (hidden topological order, shuffled definition order; edge kinds task_dep, setup, '
            'calc_dep (+delivered deps), file_dep->target, getargs, result_dep; groups; shared deps), oracle per task '
            '(run/up-to-date/error, ignored, ok/failed/error, teardown), flags, selection all/names/targets, runner '
            'serial | thread k=1..4 x schedule policy | process k=2,3; plus structured large graphs (50-300 tasks: chain, fan-out, '
            'fan-in, layers, ladder, groups; serial, thread -n 2..8, process); wave-4 shapes (wildcard task_dep, 2-3 actions, '
            'several teardown callables, late group attributes, calc results with uptodate / unknown keys / str); round-6 '
            'history (p_history: an earlier serial run on the same DB executes 1-2 calc tasks with uptodate=[run_once]; in '
            'the measured run they are up-to-date, deliver their SAVED values and are mostly selected before the task that '
            'has them as calc_dep; counters history:*); non-trivial = has a dependency edge and at least '
            'one task reported; distinct = distinct rendered case + schedule',
    'assumptions': ['actions touch only their own targets (granularity assumption of M1 for thread mode: one transition = one thread '
                    'running from one queue operation to the next)',
                    'process-mode runs are sampled (real OS scheduling; completion order forced by tokens, pick-up order not)',
                    'up-to-date status is produced by uptodate=[True] on a fresh DB, or (history cases) by '
                    'uptodate=[run_once] after an earlier run of the same dodo (the status computation itself is M2)'],
    'trusted': ['deterministic thread scheduler and token controller of harness/runlib.py',
                'own dependency expansion runlib.expand (getargs/result_dep/file_dep -> edges)'],
    'models': ['M1'],
}

SIGNATURES = {}     # calc-wild-dep-dropped was fixed upstream (bf53535)
# dup-selection-truncates was fixed upstream (dcfe778); runlib.sig_dup_selection still names it in replays

# generator knobs of this property: shared deps, groups, shared setup-tasks, repeated selection
KNOBS = {'p_dup_sel': 0.3, 'p_shared': 0.8, 'p_group': 0.45, 'p_meta_names': 0.2, 'p_share_lists': 0.25, 'p_combo': 0.15, 'p_calc_then_fail': 0.25,
         'p_wild': 0.3, 'p_multi_action': 0.3, 'p_multi_teardown': 0.3, 'p_group_late': 0.35, 'p_calc_extra': 0.25, 'p_history': 0.3,
         'weights': {'task_dep': 30, 'setup': 24, 'calc_dep': 12, 'file': 10, 'getargs': 12, 'result_dep': 6,
                     'getargs_setup': 6}}


def plan(ctx, scale=1.0):
    """(pool batches, main-process batches) for this run"""
    quick = ctx.tier == 'quick'
    n_serial = int((700 if quick else 20000) * ctx.boost * scale)
    n_thread = int((600 if quick else 20000) * ctx.boost * scale)
    n_proc = int((12 if quick else 240) * min(ctx.boost, 2) * scale)
    rng = ctx.rng
    gen = []
    for _ in range(n_serial):
        gen.append((rng.randrange(1 << 60), dict(KNOBS, runner='serial')))
    for _ in range(n_thread):
        gen.append((rng.randrange(1 << 60), dict(KNOBS, runner='thread', gen_policy=True)))
    rng.shuffle(gen)
    size = 25 if quick else 60
    pool = [{'prop': PROP, 'gen': gen[i:i + size], 'shrink_s': 10.0} for i in range(0, len(gen), size)]
    procs = [(rng.randrange(1 << 60), dict(KNOBS, runner='process', n_max=7)) for _ in range(n_proc)]
    # scale (coverage audit #20): structured graphs of 50-300 tasks (deep chains, wide fan-out / fan-in, layers, diamond
    # ladders, groups with wildcard deps), serial and -n 2..8 thread; a few real multiprocessing runs; small sample in quick
    big = []
    n_big_t, n_big_s, n_big_p = (6, 2, 1) if quick else (int(70 * scale), int(25 * scale), 6)
    hi = 90 if quick else 300
    shapes = ['fan_out', 'chain', 'fan_in', 'layers', 'ladder', 'groups']      # every shape in every tier
    for i in range(n_big_t):
        big.append((rng.randrange(1 << 60), {'runner': 'thread', 'gen_policy': True,
                                              'bigcase': {'n_min': 50, 'n_max': hi, 'shape': shapes[i % 6]}}))
    for i in range(n_big_s):
        big.append((rng.randrange(1 << 60), {'runner': 'serial',
                                              'bigcase': {'n_min': 50, 'n_max': hi, 'shape': shapes[(i + 5) % 6]}}))
    pool += [{'prop': PROP, 'gen': big[i:i + 3], 'shrink_s': 10.0} for i in range(0, len(big), 3)]
    bigp = [(rng.randrange(1 << 60), {'runner': 'process', 'bigcase': {'n_min': 50, 'n_max': 80 if quick else 120}})
            for _ in range(n_big_p)]
    return pool, ([{'prop': PROP, 'gen': procs[i:i + 6], 'shrink_s': 10.0} for i in range(0, len(procs), 6)] +
                  [{'prop': PROP, 'gen': bigp[i:i + 2], 'shrink_s': 10.0} for i in range(0, len(bigp), 2)])


def corpus_batches():
    """corpus seeds: plain ones run as they are; seeds with "explore": "eager" run under EVERY completion order (thread
    scheduler enumeration); process-mode seeds run in the main process"""
    plain, explore, main = [], [], []
    for name, c in common.load_corpus(PROP):
        c['corpus'] = name
        if c.get('runner') == 'process':
            main.append(c)
        elif c.get('explore') and c.get('runner') == 'thread':
            explore.append(c)
        else:
            plain.append(c)
    pool = []
    if plain:
        pool.append({'prop': PROP, 'cases': plain, 'shrink_s': 10.0})
    for i in range(0, len(explore), 6):
        pool.append({'prop': PROP, 'exhaustive': explore[i:i + 6], 'limit': 200, 'shrink_s': 10.0})
    return pool, ([{'prop': PROP, 'cases': main, 'shrink_s': 10.0}] if main else [])


def exhaustive_batches(ctx):
    """the exhaustive small scope: every DAG x every completion order with 2 workers (policy eager)"""
    mixed = ('task_dep', 'setup', 'calc_dep')
    if ctx.tier == 'quick' and ctx.boost <= 1:
        dags = runlib.small_dags(3, ('task_dep',))
        scope = {'max_tasks': 3, 'labels': ['task_dep']}
    elif ctx.tier == 'quick':
        dags = runlib.small_dags(4, ('task_dep',)) + [d for d in runlib.small_dags(3, mixed)
                                                       if any(t['setup'] or t['calc_dep'] for t in d['tasks'])]
        scope = {'max_tasks': 4, 'labels': ['task_dep'], 'plus': 'max_tasks 3 with task_dep/setup/calc_dep'}
    else:
        dags = runlib.small_dags(4, ('task_dep',)) + [d for d in runlib.small_dags(4, mixed)
                                                       if any(t['setup'] or t['calc_dep'] for t in d['tasks'])]
        scope = {'max_tasks': 4, 'labels': list(mixed)}
    scope.update({'dags': len(dags), 'workers': 2,
                  'schedules': 'every completion order under eager dispatch (runlib policy eager)'})
    ctx.extra['exhaustive_small_scope'] = scope
    size = 8 if ctx.tier == 'quick' else 40
    return [{'prop': PROP, 'exhaustive': dags[i:i + size], 'limit': 64, 'shrink_s': 5.0}
            for i in range(0, len(dags), size)]


def run(ctx, scale=1.0):
    cpool, cmain = corpus_batches()
    ctx.count('corpus', sum(len(b.get('cases', [])) + len(b.get('exhaustive', [])) for b in cpool + cmain))
    pool, main = plan(ctx, scale)
    batches = cpool + exhaustive_batches(ctx) + pool
    # the correspondence work must fit the budget even on a loaded machine: generated cases that have not started
    # when 80% of what is left of the budget is used are skipped and counted (not_run_budget_exhausted)
    deadline = time.time() + max(10.0, 0.8 * ctx.time_left())
    for b in batches + cmain + main:
        b['deadline'] = deadline
    for st in common.pmap(runlib.eval_batch, batches):
        st.merge_into(ctx)
    # process-mode runs fork real worker processes: not possible inside the (daemonic) pool workers
    if ctx.violations:
        ctx.count('process_batches_skipped_after_violation')
    else:
        for st in runlib.fork_map(runlib.eval_batch, cmain + main, procs=4):
            st.merge_into(ctx)


def search(ctx):
    """intensified search after a divergence / broken theorem: corpus again, adversarial schedules, more seeds"""
    ctx.rng.seed(ctx.seed * 1000003 + 7919)
    run(ctx, scale=2.0 if ctx.time_left() > 0.5 * (ctx.budget_s or 30) else 0.7)


def replay(ctx, data):
    return runlib.replay_witness(PROP, data)
