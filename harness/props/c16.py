"""C16 -- option parsing is exact, pure and respects source precedence   (model M4, DESIGN §5 C16)

(T) lean/DoitModel/Props/C16.lean over lean/DoitModel/Model/Opt.lean (getopt state machine, CmdOption.str2type,
    CmdParse.parse as a state transformer over the option objects, overwrite_defaults / update_defaults, the whole
    resolution `pipeline`, and the specification `specValue`).
    + generated obligation: `decide (WF spec)` for the option table of every real doit command, regenerated from the
    imported package on every run.
(K) the real code is run on generated inputs and compared with the Lean model on the same raw argv / env / config:
      parse    CmdParse.parse                       (twice, same parser object; option defaults before/between/after)
      command  Command(config).parse_execute        (GLOBAL + command section -> overwrite_defaults; twice)
      main     DoitMain.run -> DoitCmdBase.execute  (INI file or API config, DOIT_CONFIG -> update_defaults, exit code)
               also API dict + pyproject.toml + doit.cfg at once (layers merged per key), the same extra_config object
               given to an earlier DoitMain that saw other files; the caller's dict must stay unchanged
               also: the probe command and a DB backend registered as PLUGINS in the same config source ([COMMAND] /
               [BACKEND], tool.doit.plugins.*), `backend` resolved through the layers and read off the class instantiated
      premain  DoitMain.run with a loader that has options of its own (with env_var), some written in front of the
               command name (`doit -f x -k vcmd ...` -> opt_vals -> params.update); observed where loader.setup
               receives the parameters and after DOIT_CONFIG
      task     Task(params).init_options            (per-task config section values)
      runtask  `doit t <args>` through DoitMain + ModuleTaskLoader + TaskControl._process_filter: task params x
               per-task config section (API dict / INI / pyproject.toml) x argv after the task name x pos_arg;
               values observed by the task's action, positionals as pos_arg value or as the further tasks run
      realrun  the real `doit run` on five probe tasks: continue / single / always / verbosity / num_process / par_type
               from DOIT_CONFIG, [GLOBAL] / [run] (API dict, doit.cfg, pyproject.toml) and the command line, read off
               what the run does (which tasks ran, in which thread / process, what was printed)
      creator  @task_params creator via loader.load_tasks (section task:<name>)
      realcmd  the CmdParse each real doit command builds from its own option table
(P) the statement, evaluated by the Lean driver from the *structured* input (list of assignments, the four sources;
    no parsing involved: `specOf`), compared with what the implementation returned; malformed inputs must be rejected
    with CmdParseError (exit code 3); second parse == first parse and the option objects keep their defaults.
"""
import json
import os
import random
import shutil
import sys

sys.path.insert(0, os.path.dirname(os.path.dirname(os.path.abspath(__file__))))   # harness/ (for `--judge`)
import common
import optlib
import optcfglib
from common import WorkerStats, canon

META = {
    'property': 'C16',
    'lean_props': ['DoitModel.Props.C16'],
    'level': 'proof',
    'budget': {'quick': 30, 'thorough': 420},
    'anchors': ['doit/cmdparse.py::DefaultUpdate', 'doit/cmdparse.py::CmdOption.set_default',
                'doit/cmdparse.py::CmdOption.str2type', 'doit/cmdparse.py::CmdOption.str2boolean',
                'doit/cmdparse.py::CmdOption.validate_choice', 'doit/cmdparse.py::CmdParse.get_short',
                'doit/cmdparse.py::CmdParse.get_long', 'doit/cmdparse.py::CmdParse.get_option',
                'doit/cmdparse.py::CmdParse.overwrite_defaults', 'doit/cmdparse.py::CmdParse.parse_only',
                'doit/cmdparse.py::CmdParse.parse', 'doit/cmd_base.py::Command.__init__',
                'doit/cmd_base.py::Command.cmdparser', 'doit/cmd_base.py::Command.parse_execute',
                'doit/cmd_base.py::DoitCmdBase.get_options', 'doit/cmd_base.py::DoitCmdBase.execute',
                'doit/doit_cmd.py::DoitMain.run', 'doit/doit_cmd.py::DoitMain.__init__',
                'doit/doit_cmd.py::DoitMain.process_args',
                'doit/task.py::Task.init_options', 'doit/loader.py::load_tasks',
                'doit/cmd_base.py::NamespaceTaskLoader.load_tasks', 'doit/control.py::TaskControl._process_filter',
                # wave 5: the configuration side (Model/OptCfg.lean)
                'doit/plugin.py::PluginDict.add_plugins', 'doit/plugin.py::PluginDict.get_plugin',
                'doit/plugin.py::PluginDict.to_dict', 'doit/plugin.py::PluginEntry.load',
                'doit/doit_cmd.py::DoitMain.get_cmds', 'doit/doit_cmd.py::DoitConfig.loads',
                'doit/doit_cmd.py::DoitConfig.load_config_toml', 'doit/cmd_base.py::get_loader',
                'doit/cmd_base.py::DoitCmdBase.get_backends', 'doit/cmd_run.py::Run.get_reporters'],
    'technique': 'Lean 4 proofs over an executable model of getopt + CmdOption/CmdParse/DefaultUpdate (round trip of '
                 'rendered assignments by induction, rejection, purity of parse as a state transformer, precedence) '
                 '+ differential correspondence against the real classes on five code paths + specification monitor',
    'design_ref': '§5 C16, §4 M4',
    'level_text': 'Machine-checked for every option table with distinct names, assignment list, environment, '
                  'configuration and argv: the model of CmdParse.parse returns the parser object unchanged (pure, so a '
                  'second parse gives the same result); any rendering of a list of assignments (short clusters, '
                  'attached / detached values, --long=v, --long v, inverse flags, optional `--`) is accepted whenever '
                  'its texts convert (accept) and then every option holds exactly the value the property states and '
                  'the positionals come back unchanged (roundtrip_total, precedence: command line > environment > '
                  'DOIT_CONFIG > config sections > declared default; last wins, lists accumulate, flags / inverse '
                  'flags); unknown / truncated / flag-with-value / ambiguous-prefix / ill-typed / bad-choice inputs in '
                  'argv, environment or config are errors (reject_*); unique abbreviations of long names resolve; the '
                  'pinned list `append` is refuted by three counterexample theorems; `decide (WF table)` is '
                  're-discharged for the option table of every real doit command on every run.  The model is tied to doit on every run by driving the real '
                  'CmdParse / Command / DoitMain+DoitCmdBase / Task.init_options / @task_params code on generated '
                  'inputs; the monitor compares the real results with the specification value computed in Lean from '
                  'the structured input, and checks purity on the real parser objects.',
    'level_note': 'Trusted: Lean kernel (axioms propext/Classical.choice/Quot.sound only); the Python harness and '
                  'doitdrv; Python getopt is modelled (state machine) and exercised through the real CmdParse, so a '
                  'wrong getopt model shows up as a divergence; int()/str.lower()/str.strip() on ASCII input.  '
                  'DOIT_CONFIG beats INI/TOML/API sections (that is what the code does; the property puts them on one '
                  'level).  List options with `choices`, options whose `short` has more than one character and '
                  'types other than bool/int/str/list are outside the model (excluded by the WF hypothesis).',
    'rule': 'option tables of 1-6 options over bool/int/str/list with short/long/inverse/choices/env_var (longs drawn '
            'from a pool with prefix relations; 10% ill-formed tables for (K) only) x structured assignment lists in all '
            'rendering forms (+ `--`, positionals) or malformed injections (9 kinds) or garbage token streams x env x '
            'config sections (raw strings and typed values; API dict, INI file, pyproject.toml) x DOIT_CONFIG, on 7 '
            'code paths (one with loader options written before the sub-command name x environment x config); 35% of the cases with an earlier, different command line handled first by the same parser / '
            'command object / process; + all argv up to length 2 (quick) / 3 (thorough) over 16 tokens; + the option '
            'table of every real doit command: each option addressed once through each of its names (the option meant '
            'must get the value, no other may change) and random assignment lists; non-trivial = at least one '
            'option is decided by a non-default source or the input is rejected; distinct = distinct canonical case',
    'assumptions': ['text values are ASCII where python would apply unicode rules (int(), lower(), strip())',
                    'option tables satisfy WF for the monitor (ill-formed tables are only compared with the model)',
                    'INI files are generated inside the alphabet ConfigParser reads back verbatim'],
    'trusted': ['python getopt: modelled in Lean and exercised through the real CmdParse on every run',
                'ConfigParser / tomllib reading of config files: exercised (INI), not modelled'],
    'models': ['M4'],
}





def _sig_var_word_steals_option_value(w):
    """F-C16c: through DoitMain, an option is followed by its DETACHED value and that value is a `name=value` word"""
    case = w.get('case') or {}
    if case.get('path') not in VIA_DOITMAIN:
        return False
    return any(a[0] in ('sDet', 'lDet') and is_var_word(a[-1]) for a in (case.get('asgs') or []))


SIGNATURES = {'var-word-steals-option-value': _sig_var_word_steals_option_value,
              }

PATHS = ['parse', 'parse', 'command', 'main', 'premain', 'task', 'runtask', 'creator']
# + 'realrun' (the real `doit run`, wave 4 #23): generated by realrun_cases(), not by gen_case


# ------------------------------------------------------------------------------------------------ cases

def gen_case(rng, base, path=None):
    path = path or rng.choice(PATHS)
    case = {'path': path, 'env': [], 'ini': [], 'glob': [], 'dodo': [], 'asgs': None, 'sep': False, 'pos': [],
            'malformed': None, 'n_base': 0, 'ini_mode': 'api'}
    if path == 'premain':
        # a loader with options of its own (most with env_var), some of them written in front of the command name
        gen = optlib.gen_spec(rng, wf_bias=1.0)
        def clash(g):
            ls = [o['long'] for o in g if o['long']] + [o['inverse'] for o in g if o['long'] and o['inverse']]
            return len(ls) != len(set(ls))
        while len(gen) < 2 or clash(gen):       # `no-<long>` as inverse may collide with a long of the pool
            gen = optlib.gen_spec(rng, wf_bias=1.0)
        k = rng.randint(1, len(gen) - 1)
        free = [e for e in optlib.ENVS if e not in [o['env_var'] for o in gen]]
        for o in gen[:k]:
            if o['type'] == 'list':
                o.update(type='str', default=rng.choice(['', 'dflt']), choices=[])
            if not o['env_var'] and free and rng.random() < 0.8:
                o['env_var'] = free.pop()
        case['lspec'] = gen[:k]
        case['spec'] = base + gen
        case['n_base'] = len(base)
        case['pre_asgs'] = optlib.gen_asgs(rng, gen[:k], n=rng.choice([0, 1, 1, 2, 3]), good_p=1.0)
        case['pre'] = optlib.render(case['pre_asgs'], False, [])
    elif path == 'main':
        # the command's table = options DoitCmdBase adds + generated ones (names / letters kept apart from them)
        gen = optlib.gen_spec(rng, wf_bias=0.95)
        case['spec'] = base + gen
        case['n_base'] = len(base)
    else:
        case['spec'] = optlib.gen_spec(rng)
    spec = case['spec']
    gen_opts = spec[case['n_base']:]
    kind = rng.random()
    if path != 'parse':
        env, ini, glob, dodo = optlib.gen_sources(rng, gen_opts, good_p=0.93)
        case['env'] = env
        case['ini'] = ini
        if path in ('command', 'main', 'premain'):
            case['glob'] = glob
        if path in ('main', 'premain'):
            case['dodo'] = dodo
            r = rng.random()
            if path == 'main' and rng.random() < 0.35:
                # API dict + pyproject.toml + doit.cfg at once: same sections, overlapping and disjoint keys
                r = 2.0
                case['ini_mode'] = 'mixed'

                def layer_set():
                    fs = {}
                    for kind in ('toml', 'cfg'):
                        if rng.random() < 0.75:
                            _, i2, g2, _ = optlib.gen_sources(rng, gen_opts, good_p=0.97, p_ini=0.45, extra_keys=False)
                            g2 += [e for e in optlib.gen_sources(rng, gen_opts, good_p=0.97, p_ini=0.3, extra_keys=False)[1]
                                   if e[0] not in [x[0] for x in g2]]
                            fs[kind] = optlib.filter_layer(kind, g2, i2)
                        else:
                            fs[kind] = None
                    return fs
                case['files'] = layer_set()
                if rng.random() < 0.5:
                    # an earlier invocation of the same API caller (same extra_config object) saw other files
                    case['prev_files'] = layer_set()
                    case['want_prev'] = True
            if r < 0.3 and optlib.toml_file_ok(case):
                case['ini_mode'] = 'toml'
            elif r < 0.65:
                case['ini'] = [e for e in case['ini'] if 'raw' in e[1]]
                case['glob'] = [e for e in case['glob'] if 'raw' in e[1]]
                if optlib.ini_file_ok(case):
                    case['ini_mode'] = 'file'
    else:
        case['env'] = optlib.gen_sources(rng, gen_opts, good_p=0.93)[0]
    if kind < 0.18:
        case['argv'] = optlib.gen_garbage_argv(rng, gen_opts)
    else:
        case['asgs'] = optlib.gen_asgs(rng, gen_opts, good_p=0.93)
        if kind > 0.9 and path != 'premain':
            case['asgs'] = optlib.gen_asgs(rng, gen_opts, good_p=0.93, abbrev_p=0.5)
            case['abbrev'] = True
        case['sep'] = rng.random() < 0.25
        npos = rng.choice([0, 0, 1, 2, 3])
        pool = optlib.POSITIONALS + (optlib.POS_AFTER_SEP if case['sep'] else [])
        case['pos'] = [rng.choice(pool) for _ in range(npos)]
        case['argv'] = optlib.render(case['asgs'], case['sep'], case['pos'])
        if 0.18 <= kind < 0.42:
            case['malformed'] = optlib.inject_malformed(rng, case)
            if case['malformed'] == 'bad-config' and case.get('ini_mode') == 'mixed':
                # the injected value sits in the API layer: no config file may replace that key
                bad = case['ini'][-1][0]
                for fs in (case.get('files') or {}).values():
                    if fs is not None:
                        fs['ini'] = [e for e in fs['ini'] if e[0] != bad]
    if path == 'main' and rng.random() < 0.25 and not case['malformed']:
        # wave 4 #12: plugin sections ([COMMAND] / [BACKEND], tool.doit.plugins.*) in the same config source; the
        # `backend` option (a base option of every DoitCmdBase command) set through the layers, one value is the plugin
        case['plugins'] = True
        case['spec'] = [dict(o) for o in case['spec']]
        for o in case['spec'][:case['n_base']]:
            if o['name'] == 'backend':
                o['choices'] = list(o['choices']) + ['vmem']
        pick = lambda: rng.choice(['vmem', 'vmem', 'json', 'sqlite3', 'dbm'])      # noqa: E731
        if rng.random() < 0.4:
            case['glob'] = case['glob'] + [['backend', {'raw': pick()}]]
        if rng.random() < 0.4:
            case['ini'] = case['ini'] + [['backend', {'raw': pick()}]]
        if rng.random() < 0.4:
            case['dodo'] = case['dodo'] + [['backend', pick()]]
        if rng.random() < 0.4 and case['asgs'] is not None:
            case['asgs'] = case['asgs'] + [[rng.choice(['lEq', 'lDet']), 'backend', pick()]]
            case['argv'] = optlib.render(case['asgs'], case['sep'], case['pos'])
        if rng.random() < 0.1:
            # a backend name that does not exist: config section, DOIT_CONFIG or command line
            where = rng.choice(['glob', 'ini', 'dodo', 'argv'])
            case['malformed'] = 'bad-choice-backend-' + where
            if where == 'argv':
                case['argv'] = ['--backend', 'nosuch'] + list(case['argv'])
            elif where == 'dodo':
                case['dodo'] = [e for e in case['dodo'] if e[0] != 'backend'] + [['backend', 'nosuch']]
                case['asgs'] = [a for a in (case['asgs'] or []) if a[1] != 'backend'] if case['asgs'] is not None else None
                if case['asgs'] is not None:
                    case['argv'] = optlib.render(case['asgs'], case['sep'], case['pos'])
            else:
                # nothing of higher precedence names a backend (else the unknown name is silently overridden)
                case['dodo'] = [e for e in case['dodo'] if e[0] != 'backend']
                if case['asgs'] is not None:
                    case['asgs'] = [a for a in case['asgs'] if a[1] != 'backend']
                    case['argv'] = optlib.render(case['asgs'], case['sep'], case['pos'])
                case[where] = [e for e in case[where] if e[0] != 'backend'] + [['backend', {'raw': 'nosuch'}]]
                if where == 'glob':
                    case['ini'] = [e for e in case['ini'] if e[0] != 'backend']
                for fs in (case.get('files') or {}).values():
                    if fs is not None:
                        fs['ini'] = [e for e in fs['ini'] if e[0] != 'backend']
                        fs['glob'] = [e for e in fs['glob'] if e[0] != 'backend']
    if path in ('parse', 'command', 'main') and (rng.random() < 0.35 or case.get('want_prev')):
        # history: another command line handled first by the same parser / command object / process
        prev = optlib.render(optlib.gen_asgs(rng, gen_opts, n=rng.randint(1, 4), good_p=0.95), False, [])
        if not any(a == '' or ('=' in a and not a.startswith('-')) for a in prev):
            case['prev_argv'] = prev
        elif case.get('want_prev'):
            case['prev_argv'] = []
    if path == 'premain' and any(a == '' for a in case['pre']):
        return gen_case(rng, base, path)
    if path == 'runtask':
        # `doit t <args>`: what is left after t's options is t's pos_arg value, or (no pos_arg) further task names
        shorts = [o['short'] for o in spec if o['short']]
        longs = [o['long'] for o in spec if o['long']] + [o['inverse'] for o in spec if o['long'] and o['inverse']]
        ill = (len(shorts) != len(set(shorts)) or len(longs) != len(set(longs))
               or any(o['inverse'] and o['type'] != 'bool' for o in spec))
        # without pos_arg whatever t's parser leaves must be task names: only with a well-formed table
        case['pos_arg'] = ill or bool(case.get('abbrev')) or rng.random() < 0.4      # abbreviations may leave leftovers too
        if any(a[0] in ('sDet', 'lDet') and is_var_word(a[-1]) for a in (case['asgs'] or [])):
            case['pos_arg'] = True      # a detached `name=value` value is stripped (F-C16c): what follows shifts, leftovers again
        r = rng.random()
        case['ini'] = [e for e in case['ini'] if e[0] != 'unknown_key']
        if r < 0.25 and optlib.toml_file_ok(case):
            case['ini_mode'] = 'toml'
        elif r < 0.5 and all('raw' in e[1] for e in case['ini']) and optlib.ini_file_ok(case):
            case['ini_mode'] = 'file'
        case['cfg_not_none'] = bool(case['ini']) or rng.random() < 0.5
        if case['asgs'] is not None and not case['malformed']:
            if not case['pos_arg']:
                case['pos'] = rng.sample(['u', 'w'], rng.choice([0, 0, 1, 2]))
            case['argv'] = optlib.render(case['asgs'], case['sep'], case['pos'])
        elif not case['pos_arg']:
            return gen_case(rng, base, path)      # malformed / garbage streams: only with pos_arg (any leftover is a value)
        if rng.random() < 0.25 and not case['malformed']:
            # API: doit.api.run_tasks(loader, {'t': {...}}) -- no command line; values typed or text, pos_arg value as given
            case['api'] = True
            case['task_opts'] = optlib.gen_sources(rng, gen_opts, good_p=0.93, p_ini=0.6, extra_keys=False)[1]
            case['asgs'], case['abbrev'], case['sep'] = [], False, True
            case['api_pos_given'] = case['pos_arg'] and rng.random() < 0.8
            case['pos'] = ([rng.choice(optlib.POSITIONALS + ['k=v', '-x']) for _ in range(rng.randint(0, 3))]
                           if case['api_pos_given'] else [])
            case['argv'] = ['--'] + case['pos']       # the model's view: nothing to parse, positionals as they are
    # main / premain / runtask: '' and `name=value` words are generated; DoitMain.process_args is part of the model
    # (stripVars): `x=1` positionals are command-line variables (documented), a detached option value `--o a=b` is
    # taken for one too (F-C16c, open); '' is an ordinary word (F-C16d, fixed)
    if path == 'creator' and (case['pos'] or case['sep'] or any(a == 't' for a in case['argv'])):
        case['pos'] = []
        case['sep'] = False
        if case['asgs'] is not None and not case['malformed']:
            case['argv'] = optlib.render(case['asgs'], False, [])
        else:
            return gen_case(rng, base, path)
    return case


BLANK_KEYS = set(optcfglib.BLANK)

VIA_DOITMAIN = ('main', 'premain', 'runtask', 'realrun')


def is_var_word(a):
    return bool(a) and a[0] != '-' and '=' in a


def add_layers(req, case):
    """mixed config: the section as extra_config, pyproject.toml and doit.cfg hold it (the model merges per key)"""
    if case.get('ini_mode') == 'mixed':
        fs = case.get('files') or {}
        for fld in ('ini', 'glob'):
            req[fld + '_layers'] = [case[fld]] + [fs[k][fld] for k in ('toml', 'cfg') if fs.get(k) is not None]
    return req


def model_request(case):
    if case['path'] == 'plug':
        return optcfglib.plug_request(case)
    if case['path'] == 'conv':
        return optcfglib.conv_request(case)
    if case['path'] == 'plugcmd':
        return optcfglib.cmd_request(case)
    if case['path'] == 'tlayers':
        return optcfglib.tlayers_request(case)
    req = {'model': 'opt', 'spec': case['spec'], 'env': case['env'], 'ini': case['ini'], 'glob': case['glob'],
           'dodo': case['dodo'], 'argv': case['argv']}
    add_layers(req, case)
    if case['path'] in VIA_DOITMAIN and not case.get('api'):
        req['strip'] = True
    if case.get('plugins'):
        req['late'] = ['backend']           # choices attached after overwrite_defaults, validated afterwards (pipelineLate)
    if case.get('api'):
        req['ini'] = case['task_opts']      # task_opts[t] replaces the per-task section as t.cfg_values
    req['op'] = 'parse' if case['path'] in ('parse', 'realcmd') else 'pipeline'
    if case['path'] == 'premain':
        req.update(op='prepipeline', lspec=case['lspec'], pre=case['pre'])
    return req


def aux_requests(case):
    """premain: what the property gives (a) the options written in front of the command name, (b) every option at the
    moment the loader receives them (DOIT_CONFIG not loaded yet)"""
    if case.get('klayers'):
        return {'winner': optcfglib.winner_request(case)}
    if case['path'] != 'premain' or case['asgs'] is None:
        return {}
    pre = {'model': 'opt', 'op': 'spec', 'spec': case['lspec'], 'env': [], 'ini': [], 'glob': [], 'dodo': [],
           'asgs': case['pre_asgs'], 'sep': False, 'pos': []}
    nod = dict(spec_request(case), dodo=[])
    return {'pre': pre, 'nodod': nod}


def spec_request(case):
    if case.get('api'):
        return {'model': 'opt', 'op': 'spec', 'spec': case['spec'], 'env': case['env'], 'ini': case['task_opts'],
                'glob': [], 'dodo': [], 'asgs': [], 'sep': True, 'pos': case['pos']}
    return add_layers({'model': 'opt', 'op': 'spec', 'spec': case['spec'], 'env': case['env'], 'ini': case['ini'],
            'glob': case['glob'], 'dodo': case['dodo'], 'asgs': case['asgs'] or [], 'sep': case['sep'],
            # `name=value` positionals are command-line variables for DoitMain (doit.get_var), not positionals
            'pos': ([p_ for p_ in case['pos'] if not is_var_word(p_)] if case['path'] in VIA_DOITMAIN else case['pos'])},
                      case)


def run_impl(case, workdir):
    p = case['path']
    if p == 'plug':
        return optcfglib.impl_plug(case, workdir)
    if p == 'conv':
        return optcfglib.impl_conv(case)
    if p == 'plugcmd':
        return optcfglib.impl_cmd(case, workdir)
    if p == 'tlayers':
        return optcfglib.impl_tlayers(case, workdir)
    if p == 'parse':
        return optlib.impl_parse(case)
    if p == 'command':
        return optlib.impl_command(case)
    if p in ('main', 'premain'):
        return optlib.impl_main(case, workdir)
    if p == 'task':
        return optlib.impl_task(case)
    if p == 'runtask':
        return optlib.impl_runtask(case, workdir)
    if p == 'realcmd':
        return impl_realcmd(case)
    if p == 'realrun':
        return optlib.impl_realrun(case, workdir)
    return optlib.impl_creator(case)


def eval_cases(cases):
    """-> [(case, impl, model, spec)]   (spec is None for unstructured cases)"""
    common.use_repo()
    work = common.scratch_dir('c16')
    reqs, idx = [], []
    for c in cases:
        reqs.append(model_request(c))
        if c['asgs'] is not None:
            idx.append(len(reqs))
            reqs.append(spec_request(c))
        else:
            idx.append(None)
        for name, r in sorted(aux_requests(c).items()):
            reqs.append(r)
    answers = common.drv_batch(reqs)
    out = []
    k = 0
    for c, si in zip(cases, idx):
        model = answers[k]
        k += 1
        spec = None
        if si is not None:
            spec = answers[si]
            k += 1
        aux = {}
        for name, r in sorted(aux_requests(c).items()):
            aux[name] = answers[k]
            k += 1
        if aux:
            model['_aux'] = aux
        for a in (model, spec):
            if a is not None and 'error' in a:
                raise RuntimeError('driver rejected a request: %s / %s' % (a, json.dumps(c)[:600]))
        impl = run_impl(c, work)
        out.append((c, impl, model, spec))
    shutil.rmtree(work, ignore_errors=True)
    return out


# ------------------------------------------------------------------------------------------------ judging

def res_key(res, with_nd=True, with_pos=True):
    """canonical comparable form of a result"""
    if res is None:
        return None
    if 'err' in res:
        return ['err', res['err']]
    ok = res['ok']
    return ['ok', ok['vals'], sorted(ok['nd']) if (with_nd and ok.get('nd') is not None) else None,
            ok['pos'] if with_pos else None]


def same_result(impl, model, case):
    with_pos = case['path'] != 'creator'
    a = res_key(impl, with_pos=with_pos)
    b = res_key(model, with_nd=(impl is not None and 'ok' in impl and impl['ok'].get('nd') is not None),
                with_pos=with_pos)
    return a == b


def judge(case, impl, model, spec):
    """-> (violations [(label, note)], divergences [note])"""
    if case['path'] == 'realrun':
        return judge_realrun(case, impl, model, spec)
    if case['path'] == 'plug':
        return optcfglib.judge_plug(case, impl, model)
    if case['path'] == 'conv':
        return optcfglib.judge_conv(case, impl, model)
    if case['path'] == 'plugcmd':
        return optcfglib.judge_cmd(case, impl, model)
    if case['path'] == 'tlayers':
        return optcfglib.judge_tlayers(case, impl, model)
    if case.get('klayers'):
        v0, d0 = optcfglib.judge_layers(case, impl, model)
        v1, d1 = judge(dict(case, klayers=None), impl, model, spec)
        return v0 + v1, d0 + d1
    viol, div = [], []
    path = case['path']
    r1 = impl.get('res')
    if path == 'premain' and not model.get('pre_ok'):
        return viol, div            # the tokens in front of the command name do not parse as loader options: not generated
    loader_names = set(o['name'] for o in case.get('lspec') or [])
    # ---- (K)
    if not same_result(r1, model['res'], case):
        div.append('M4/%s: result differs: impl %s model %s' % (path, canon(res_key(r1))[:300],
                                                               canon(res_key(model['res']))[:300]))
    if path == 'premain' and 'ok' in (r1 or {}) and not same_result(impl.get('setup'), model.get('setup'), case):
        div.append('M4/premain: parameters handed to loader.setup differ: impl %s model %s'
                   % (canon(res_key(impl.get('setup')))[:300], canon(res_key(model.get('setup')))[:300]))
    if path in ('main', 'premain', 'runtask') and 'exit' in impl and impl['exit'] != model.get('exit'):
        div.append('M4/main: DoitMain.run ended with %s, the model with exit %s' % (impl['exit'], model.get('exit')))
    if path in ('parse', 'realcmd') and not impl.get('ctor'):
        if not same_result(impl.get('res2'), model['res2'], case):
            div.append('M4/parse: second parse differs: impl %s model %s'
                       % (canon(res_key(impl.get('res2')))[:300], canon(res_key(model['res2']))[:300]))
        if impl.get('defaults2') != model['defaults2']:
            div.append('M4/parse: option defaults after parsing differ: impl %s model %s'
                       % (impl.get('defaults2'), model['defaults2']))
    # ---- (P) purity: same input, same parser object, same answer; option objects untouched
    if 'res2' in impl and res_key(impl['res2']) != res_key(r1):
        viol.append(('pure', 'second parse of the same input with the same parser object differs: %s then %s'
                     % (canon(res_key(r1))[:300], canon(res_key(impl['res2']))[:300])))
    if path in ('parse', 'realcmd') and 'defaults0' in impl and not (impl['defaults0'] == impl['defaults'] == impl['defaults2']):
        viol.append(('pure', 'parse changed option defaults: %s -> %s -> %s'
                     % (impl['defaults0'], impl['defaults'], impl['defaults2'])))
    if impl.get('task_opts_mutated'):
        viol.append(('pure', 'doit.api.run_tasks modified the task_opts dict of its caller: %s' % canon(impl['task_opts_mutated'])[:300]))
    if impl.get('extra_config_mutated'):
        m = impl['extra_config_mutated']
        viol.append(('pure', 'DoitMain modified the extra_config dict of its caller: %s -> %s'
                     % (canon(m['before'])[:200], canon(m['after'])[:300])))
    if path == 'task' and impl.get('again_is_none') is False:
        viol.append(('pure', 'Task.init_options parsed a second time'))
    wf = model.get('wf')
    # ---- (P) a real command's option, addressed by one of its names, gets the value (and no other option changes)
    if case.get('target') is not None:
        if 'ok' not in (r1 or {}):
            viol.append(('roundtrip', '%s: option %r given as %s was rejected: %s'
                         % (case['cmd'], case['target'], case['argv'], canon(r1)[:200])))
        else:
            got = dict((n, v) for n, v in r1['ok']['vals'])
            dflt = dict((o['name'], o['default']) for o in case['spec'])
            if got.get(case['target']) != case['expected']:
                viol.append(('roundtrip', '`doit %s %s`: option %r is %s, written %s'
                             % (case['cmd'].lower(), ' '.join(case['argv']), case['target'],
                                canon(got.get(case['target'])), canon(case['expected']))))
            else:
                for n, v in got.items():
                    if n != case['target'] and v != dflt.get(n):
                        viol.append(('roundtrip', '`doit %s %s` changed option %r to %s'
                                     % (case['cmd'].lower(), ' '.join(case['argv']), n, canon(v))))
                        break
    # ---- (P) rejection of malformed input
    if r1 is not None and r1.get('escaped'):
        viol.append(('reject', 'the parse error (%s) escaped DoitMain.run as an exception (traceback, exit status 1) '
                               'instead of "ERROR: ..." and exit code 3' % r1['err']))
    elif case.get('malformed') and wf:
        if 'err' not in r1 or r1['err'] == 'crash':
            viol.append(('reject', 'malformed input (%s) was not rejected with a parse error: %s'
                         % (case['malformed'], canon(r1)[:300])))
    # ---- (P) exact values / positional / precedence against the specification
    if spec is not None and not case.get('malformed') and not case.get('abbrev') and wf and spec['hyp_ok']:
        if spec['argv'] != [a for a in case['argv'] if not (path in VIA_DOITMAIN and not case.get('api') and is_var_word(a)
                                                            and a in case['pos'])]:
            raise RuntimeError('harness render differs from the model render: %s vs %s' % (spec['argv'], case['argv']))
        exp = spec['expect']
        if 'err' in exp:
            if r1.get('escaped'):
                pass        # reported above
            elif 'err' not in r1 or r1['err'] == 'crash':
                viol.append(('reject', 'ill-typed value / invalid choice was not rejected with a parse error: %s'
                             % canon(r1)[:300]))
        elif 'err' in r1:
            viol.append(('roundtrip', 'well-formed input rejected: %s' % canon(r1)))
        else:
            got = dict((n, v) for n, v in r1['ok']['vals'])
            for n, v in exp['vals']:
                if n in loader_names:
                    continue        # loader options of the premain path are judged where the loader receives them (below)
                if got.get(n, '<missing>') != v:
                    viol.append(('precedence' if (case['env'] or case['ini'] or case['glob'] or case['dodo'])
                                 else 'roundtrip',
                                 'option %r: got %s, the property gives %s' % (n, canon(got.get(n, '<missing>')), canon(v))))
                    break
            if path != 'creator' and r1['ok']['pos'] != exp['pos']:
                viol.append(('roundtrip', 'positional arguments changed: got %s expected %s' % (r1['ok']['pos'], exp['pos'])))
    # ---- plugins: the DB backend the command instantiated is the one the resolved `backend` option names
    if case.get('plugins') and 'ok' in (r1 or {}) and impl.get('backend_seen'):
        if 'ok' in model['res']:
            want = optlib.BACKEND_CLASS.get(dict(model['res']['ok']['vals']).get('backend'))
            if want != impl['backend_seen']:
                div.append('M4/main: backend %s instantiated, the model resolves to %s' % (impl['backend_seen'], want))
        if spec is not None and not case.get('malformed') and not case.get('abbrev') and wf and spec['hyp_ok'] \
                and 'vals' in spec['expect']:
            want = optlib.BACKEND_CLASS.get(dict(spec['expect']['vals']).get('backend'))
            if want != impl['backend_seen']:
                viol.append(('precedence', 'DB backend %s was instantiated, the property resolves `backend` to %r (%s)'
                             % (impl['backend_seen'], dict(spec['expect']['vals']).get('backend'), want)))
    # ---- (P) loader options: written in front of the command name, or resolved by precedence, as loader.setup sees them
    aux = model.get('_aux') or {}
    if (path == 'premain' and aux and spec is not None and not case.get('malformed') and wf and spec['hyp_ok']
            and aux['pre']['hyp_ok'] and aux['nodod']['hyp_ok'] and 'vals' in aux['pre']['expect']
            and 'vals' in aux['nodod']['expect'] and 'ok' in (r1 or {}) and impl.get('setup')):
        got = dict((n, v) for n, v in impl['setup']['ok']['vals'])
        written_pre = refs_of(case['pre_asgs'], case['lspec'])
        written_post = refs_of(case['asgs'], case['lspec'])
        pre_val = dict((n, v) for n, v in aux['pre']['expect']['vals'])
        prec_val = dict((n, v) for n, v in aux['nodod']['expect']['vals'])
        for o in case['lspec']:
            n = o['name']
            if n in written_pre and n in written_post:
                continue            # written on both sides of the command name: the property does not say which is "last"
            want = pre_val[n] if n in written_pre else prec_val[n]
            if got.get(n, '<missing>') != want:
                viol.append(('precedence', 'loader option %r %s: loader.setup received %s, the property gives %s'
                             % (n, 'written before the command name' if n in written_pre else 'not written before the command name',
                                canon(got.get(n, '<missing>')), canon(want))))
                break
    return viol, div


def refs_of(asgs, opts):
    """names of the options (of `opts`) a list of exact-name assignments writes"""
    by_short = dict((o['short'], o['name']) for o in opts if o['short'])
    by_long = {}
    for o in opts:
        if o['long']:
            by_long[o['long']] = o['name']
            if o['inverse']:
                by_long[o['inverse']] = o['name']
    out = set()
    for a in asgs or []:
        if a[0] == 'flags':
            out.update(by_short[c] for c in a[1] if c in by_short)
        elif a[0] in ('sAtt', 'sDet'):
            out.update(by_short[c] for c in a[1] + a[2] if c in by_short)
        elif a[1] in by_long:
            out.add(by_long[a[1]])
    return out


def nontrivial(case, impl):
    if case['path'] in ('plug', 'conv', 'plugcmd', 'tlayers'):
        return True
    r = impl.get('res') or {}
    if 'err' in r:
        return True
    return bool(case['env'] or case['ini'] or case['dodo'] or case['glob'] or
                (r.get('ok') and (r['ok'].get('nd') or case['argv'])))


# ------------------------------------------------------------------------------------------------ shrinking

def _fails(case, label):
    try:
        c, impl, model, spec = eval_cases([case])[0]
        viol, _ = judge(c, impl, model, spec)
    except Exception:  # noqa
        return False
    return any(v[0] == label for v in viol)


def shrink(case, label, cap=120):
    cur = json.loads(json.dumps(case))
    budget = [cap]
    if cur.get('malformed') or cur.get('target') is not None:
        return cur          # the injected element / the single targeted assignment is the case: keep it as generated

    def attempt(cand):
        if budget[0] <= 0:
            return False
        budget[0] -= 1
        return _fails(cand, label)

    changed = True
    while changed and budget[0] > 0:
        changed = False
        cands = []
        if cur['asgs'] is not None and not cur.get('malformed'):
            for i in range(len(cur['asgs'])):
                c = json.loads(json.dumps(cur))
                del c['asgs'][i]
                c['argv'] = optlib.render(c['asgs'], c['sep'], c['pos'])
                cands.append(c)
            for i in range(len(cur['pos']) if cur['path'] != 'realrun' else 0):     # realrun: the probe tasks stay selected
                c = json.loads(json.dumps(cur))
                del c['pos'][i]
                c['argv'] = optlib.render(c['asgs'], c['sep'], c['pos'])
                cands.append(c)
        else:
            for i in range(len(cur['argv'])):
                c = json.loads(json.dumps(cur))
                del c['argv'][i]
                c['asgs'] = None
                cands.append(c)
        if cur.get('prev_argv') is not None:
            c = json.loads(json.dumps(cur))
            c['prev_argv'] = None
            cands.append(c)
        for i in range(len(cur.get('pre_asgs') or [])):
            c = json.loads(json.dumps(cur))
            del c['pre_asgs'][i]
            c['pre'] = optlib.render(c['pre_asgs'], False, [])
            cands.append(c)
        for fkey in ('files', 'prev_files'):
            fs = cur.get(fkey)
            if not fs:
                continue
            if fkey == 'prev_files':
                c = json.loads(json.dumps(cur))
                del c['prev_files']
                cands.append(c)
            for kind in ('toml', 'cfg'):
                if fs.get(kind) is None:
                    continue
                c = json.loads(json.dumps(cur))
                c[fkey][kind] = None
                cands.append(c)
                for fld in ('glob', 'ini'):
                    for i in range(len(fs[kind][fld])):
                        c = json.loads(json.dumps(cur))
                        del c[fkey][kind][fld][i]
                        cands.append(c)
        for fld in ('env', 'ini', 'glob', 'dodo'):
            for i in range(len(cur[fld])):
                c = json.loads(json.dumps(cur))
                del c[fld][i]
                cands.append(c)
        used = json.dumps([cur['argv'], cur['asgs']])
        for i in range(cur['n_base'] + len(cur.get('lspec') or []), len(cur['spec'])):   # loader options stay
            o = cur['spec'][i]
            if len(cur['spec']) - cur['n_base'] - len(cur.get('lspec') or []) <= 1:
                break
            if any(o['name'] == e[0] for f in ('ini', 'glob', 'dodo') for e in cur[f]):
                continue
            if any(o['env_var'] == e[0] for e in cur['env']):
                continue
            if cur['asgs'] is not None and not cur.get('malformed'):
                # keep options an assignment refers to
                refs = set()
                for a in cur['asgs']:
                    if a[0] == 'flags':
                        refs.update(a[1])
                    elif a[0] in ('sAtt', 'sDet'):
                        refs.update(a[1] + a[2])
                    else:
                        refs.add(a[1])
                if (o['short'] and o['short'] in refs) or o['long'] in refs or (o['inverse'] and o['inverse'] in refs):
                    continue
            elif used.count(o['short'] or '\x00') or (o['long'] and o['long'][:1] in used):
                continue
            c = json.loads(json.dumps(cur))
            del c['spec'][i]
            cands.append(c)
        for c in cands:
            if attempt(c):
                cur = c
                changed = True
                break
    return cur


def fresh_labels(case):
    """labels of the property violations of one case in a *new* python process (no state left by earlier cases)"""
    import subprocess
    env = dict(os.environ, VERIF_REPO=common.REPO, PYTHONDONTWRITEBYTECODE='1')
    p = subprocess.run([common.PYTHON, os.path.abspath(__file__), '--judge'], input=json.dumps(case), text=True,
                       stdout=subprocess.PIPE, stderr=subprocess.PIPE, env=env, timeout=120)
    try:
        return [v[0] for v in json.loads(p.stdout.strip().split('\n')[-1])['viol']]
    except Exception:  # noqa
        return []


def full_assignment_argv(case):
    """a command line that gives every generated option a value (used as synthetic history)"""
    out = []
    for o in case['spec'][case['n_base']:]:
        key = ('-' + o['short']) if o['short'] else (('--' + o['long']) if o['long'] else None)
        if key is None:
            continue
        if o['type'] == 'bool':
            out.append(key)
        else:
            v = {'int': '3', 'str': 'h', 'list': 'h'}[o['type']]
            if o['choices']:
                v = str(o['choices'][0])
            if v:
                out += [key, v]
    return out


def standalone_witness(case, small, label):
    """a violation must replay in a new process.  Try the shrunk case, then the case as found, then both with a
    synthetic earlier command line (state leaking from earlier parses).  Returns (case, reproduced?)"""
    for cand in (small, case):
        if label in fresh_labels(cand):
            return cand, True
    if case['path'] in ('parse', 'command', 'main'):
        for cand in (small, case):
            c = json.loads(json.dumps(cand))
            c['prev_argv'] = full_assignment_argv(c)
            if label in fresh_labels(c):
                return c, True
    return case, False


def witness_of(case, impl, model, spec, label, note):
    return {'case': case, 'failed': label, 'argv': case['argv'], 'impl': impl, 'model': model.get('res'),
            'expected_by_property': (spec or {}).get('expect'), 'note': note}


# ------------------------------------------------------------------------------------------------ workers

def account(st, case, impl, model, spec):
    if case['path'] in ('plug', 'conv', 'plugcmd', 'tlayers'):
        st.case({k: v for k, v in case.items() if k not in BLANK_KEYS or k == 'argv'}, True)
        st.traces += 1
        st.count('path:' + case['path'])
        if case['path'] == 'tlayers':
            st.count('tlayers:winner=%s,noise=%s' % (model.get('winner'), '+'.join(case['noise']) or '-'))
        elif case['path'] == 'plugcmd':
            st.count('plugcmd:first-word=%s,command=%s,class=%s,outcome=%s%s'
                     % ((case['argv'] or ['-'])[0], model.get('cmd'), (model.get('cls') or ['-'])[0], model.get('pick'),
                        ',entry-does-not-load' if case.get('broken') else ''))
        elif case['path'] == 'plug':
            lay = case['layers']
            n_def = sum(1 for l in optcfglib.LAYER3 if lay[l] and case['name'] in [n for n, _ in lay[l]])
            st.count('plug:%s,name-in=%s,defined-in-layers=%d' % (case['cat'], (case.get('cfg_at') or [case['where']])[0] if case['where'] == 'config' else case['where'], n_def))
            st.count('plug:%s,outcome=%s' % (case['cat'], model.get('pick')))
            st.count('plug:class=%s' % ((model.get('cls') or ['-'])[0]))
            st.count('plug:layers-present=%s' % '+'.join(l for l in optcfglib.LAYER3 if lay[l] is not None))
            if case.get('broken'):
                b = case['broken'][2]
                st.count('plug:entry-does-not-load=%s,%s,all_load=%s,outcome=%s'
                         % (case['cat'], 'no-colon' if ':' not in b else 'two-colons' if b.count(':') > 1 else
                            'no-module' if b.startswith('nomod') else 'no-attr', model.get('all_load'), model.get('pick')))
            if case['name'] in case['core'] and n_def:
                st.count('plug:plugin-shadows-core-name')
        else:
            st.count('conv:%s,cfg=%s,cmd=%s' % (case['opt']['type'], 'ok' if 'ok' in model['cfg'] else model['cfg']['err'],
                                                 'ok' if 'ok' in model['cmd'] else model['cmd']['err']))
            st.count('conv:cfg==cmd:%s' % (model['cfg'] == model['cmd']))
        return
    if case.get('klayers'):
        w = (model.get('_aux') or {}).get('winner') or {}
        st.count('layers:winner=%s' % w.get('winner'))
        st.count('layers:present=%d,type=%s' % (len(case['klayers']['present']), case['klayers']['type']))
    st.case({'path': case['path'], 'cmd': case.get('cmd'), 'spec': [[o['name'], o['type'], o['short'], o['long'], o['inverse']] for o in case['spec'][case['n_base']:]],
             'argv': case['argv'], 'env': case['env'], 'ini': case['ini'], 'dodo': case['dodo'],
             'prev': case.get('prev_argv'), 'pre': case.get('pre'), 'files': case.get('files'),
             'prev_files': case.get('prev_files')},
            nontrivial(case, impl))
    st.traces += 1
    st.count('path:' + case['path'] + (('/config-' + case['ini_mode']) if case['path'] in ('main', 'runtask') else ''))
    if case.get('ini_mode') == 'mixed':
        fs = case.get('files') or {}
        st.count('mixed-config:files=%s%s' % ('+'.join(k for k in ('toml', 'cfg') if fs.get(k) is not None) or 'none',
                                              ',earlier-files' if 'prev_files' in case and case.get('prev_argv') is not None else ''))
        keys = [set(e[0] for e in case['ini'] + case['glob'])] + \
               [set(e[0] for e in fs[k]['ini'] + fs[k]['glob']) for k in ('toml', 'cfg') if fs.get(k) is not None]
        if len(keys) > 1:
            st.count('mixed-config:key-in-several-layers=%s' % any(a & b for i, a in enumerate(keys) for b in keys[i + 1:]))
    if case['path'] in VIA_DOITMAIN and not case.get('api'):
        st.count('process_args:var-word-positional=%s,detached-value-var-word=%s,empty-word=%s'
                 % (any(is_var_word(p_) for p_ in case['pos']),
                    any(a[0] in ('sDet', 'lDet') and is_var_word(a[-1]) for a in (case['asgs'] or [])),
                    '' in case['argv']))
    if case['path'] == 'realrun':
        b = ((impl.get('res') or {}).get('ok') or {}).get('behaviour')
        if b:
            st.count('realrun:mode=%s' % b['mode'])
            st.count('realrun:single=%s,always=%s,continue=%s,verbosity=%s' % (b['single'], b['always'], b['continue'], b['verbosity']))
        else:
            st.count('realrun:rejected')
        for o in ('continue', 'verbosity', 'num_process'):
            srcs = ''.join(t for t, lst in (('G', case['glob']), ('S', case['ini']), ('D', case['dodo'])) if any(e[0] == o for e in lst))
            onc = any(o_name in json.dumps(case['asgs']) for o_name in {'continue': ['"c"', 'continue'], 'verbosity': ['"v"', 'verbosity'], 'num_process': ['"n"', 'process']}[o])
            st.count('realrun:%s-sources=%s%s' % (o, srcs or '-', '+argv' if onc else ''))
    if str(case.get('malformed') or '').startswith('bad-choice-backend'):
        st.count('plugins:%s' % case['malformed'])
    if case.get('plugins'):
        st.count('plugins:config-%s,backend-seen=%s' % (case['ini_mode'], impl.get('backend_seen')))
    if case.get('api'):
        st.count('api.run_tasks:pos_arg=%s,pos_given=%s,task_opts=%d,section-too=%s'
                 % (bool(case.get('pos_arg')), bool(case.get('api_pos_given')), min(3, len(case['task_opts'])), bool(case['ini'])))
    if case['path'] == 'runtask':
        st.count('runtask:pos_arg=%s,section=%s,args=%s' % (bool(case.get('pos_arg')), bool(case['ini']), bool(case['argv'])))
    if case['path'] == 'realcmd':
        st.count('realcmd:' + case['cmd'] + ('/targeted' if case.get('target') is not None else '/random'))
    st.count('options:%d' % (len(case['spec']) - case['n_base']))
    st.count('kind:' + ('malformed' if case.get('malformed') else 'abbrev' if case.get('abbrev') else
                        'structured' if case['asgs'] is not None else 'garbage'))
    if case.get('malformed'):
        st.count('malformed:' + case['malformed'])
    for a in case['asgs'] or []:
        st.count('form:' + a[0] + ('+cluster' if a[0] in ('sAtt', 'sDet') and a[1] else ''))
    for o in case['spec'][case['n_base']:]:
        st.count('type:' + o['type'])
    r = model.get('res') or {'err': 'pre-command-part-not-parsed'}
    st.count('result:' + ('ok' if 'ok' in r else 'err-' + r['err']))
    st.count('wf:%s' % model.get('wf'))
    if spec is not None:
        st.count('hyp_ok:%s' % spec['hyp_ok'])
        if spec['hyp_ok'] and model.get('wf') and not case.get('malformed') and not case.get('abbrev'):
            st.count('monitor:spec-evaluated')
            st.count('monitor:expect-' + ('err' if 'err' in spec['expect'] else 'ok'))
    src = ''.join(t for t, f in (('E', 'env'), ('I', 'ini'), ('G', 'glob'), ('D', 'dodo')) if case[f])
    st.count('sources:' + (src or '-') + ('+argv' if case['argv'] else ''))
    if case['path'] == 'premain':
        st.count('premain:pre_ok:%s' % model.get('pre_ok'))
        st.count('premain:loader.setup-observed:%s' % bool(impl.get('setup')))
        st.count('premain:pre-options:%d' % len(case['pre_asgs']))
        both = refs_of(case['pre_asgs'], case['lspec']) & set(o['name'] for o in case['lspec'] if o['env_var'] in [e[0] for e in case['env']])
        st.count('premain:pre-option-also-in-env:%s' % bool(both))
    if case['sep']:
        st.count('sep')
    if case.get('prev_argv') is not None:
        st.count('history:earlier-argv-same-object')
    st.count('positional:%d' % len(case['pos']))


def process_batch(batch):
    st = WorkerStats()
    shrunk = 0
    for case, impl, model, spec in eval_cases(batch):
        account(st, case, impl, model, spec)
        viol, div = judge(case, impl, model, spec)
        seen = set()
        for label, note in viol:
            if label in seen:
                continue
            seen.add(label)
            small = case
            extra = ''
            known = any(k in SIGNATURES and SIGNATURES[k]({'case': case, 'impl': impl, 'failed': label})
                        for kind_, k, _ in common.load_findings('C16') if kind_ == 'open')
            if shrunk < 2 and not known:        # a listed finding is reported as found, not shrunk again on every run
                shrunk += 1
                small = shrink(case, label)
                small, ok = standalone_witness(case, small, label)
                if not ok:
                    extra = ' [seen only after earlier cases in the same process: state leaks between parses; ' \
                            'not reproduced standalone]'
            if known or small is case or len(st.violations) >= 50:
                # as found: no second evaluation (listed findings are hit thousands of times in the thorough tier)
                st.violation(witness_of(case, impl, model, spec, label, note + extra), label, note + extra)
                continue
            c2, i2, m2, s2 = eval_cases([small])[0]
            v2 = [v for v in judge(c2, i2, m2, s2)[0] if v[0] == label]
            st.violation(witness_of(c2, i2, m2, s2, label, (v2[0][1] if v2 else note) + extra), label,
                         (v2[0][1] if v2 else note) + extra)
        if not viol:
            for note in div[:1]:
                st.divergence(witness_of(case, impl, model, spec, 'correspondence', note), 'correspondence ' + note)
    return st


# ------------------------------------------------------------------------------------------------ small scope

SMALL_SPEC = [
    {'name': 'flag', 'type': 'bool', 'default': False, 'short': 'f', 'long': 'flag', 'inverse': 'no-flag',
     'choices': [], 'env_var': None},
    {'name': 'num', 'type': 'int', 'default': 0, 'short': 'n', 'long': 'num', 'inverse': '', 'choices': [],
     'env_var': 'DOITV_A'},
    {'name': 'items', 'type': 'list', 'default': ['d'], 'short': 'l', 'long': 'list', 'inverse': '', 'choices': [],
     'env_var': 'DOITV_B'},
    {'name': 'mode', 'type': 'str', 'default': 'a', 'short': 'm', 'long': 'no', 'inverse': '', 'choices': ['a', 'b'],
     'env_var': None},
]
SMALL_TOKENS = ['-f', '-fn', '-n3', '3', '--n', '--no-f', '--no=b', '--li', 'a,b', '-lx', '-mb', '--', '-mz', '-', '--flag=1', 'x']
SMALL_ENVS = [[], [['DOITV_A', '5'], ['DOITV_B', 'e1,e2']]]


def small_scope_cases(maxlen):
    seqs, out = [[]], []
    allseq = [[]]
    for _ in range(maxlen):
        seqs = [s + [t] for s in seqs for t in SMALL_TOKENS]
        allseq += seqs
    for env in SMALL_ENVS:
        for argv in allseq:
            out.append({'path': 'parse', 'spec': SMALL_SPEC, 'env': env, 'ini': [], 'glob': [], 'dodo': [],
                        'asgs': None, 'sep': False, 'pos': [], 'malformed': None, 'n_base': 0, 'ini_mode': 'api',
                        'argv': argv})
    return out


# ------------------------------------------------------------------------------------------------ entry points

def corpus_cases():
    out = []
    for name, c in common.load_corpus('C16'):
        c = dict(c)
        if c.get('path') == 'realrun' and 'spec' not in c:
            c['spec'] = optlib.run_spec()           # the real table is introspected, not stored in the seed
            c['n_base'] = len(c['spec'])
        c.setdefault('n_base', 0)
        for k in ('env', 'ini', 'glob', 'dodo', 'pos'):
            c.setdefault(k, [])
        c.setdefault('asgs', None)
        c.setdefault('sep', False)
        c.setdefault('malformed', None)
        c.setdefault('ini_mode', 'api')
        if c['asgs'] is not None and 'argv' not in c:
            c['argv'] = optlib.render(c['asgs'], c['sep'], c['pos'])
        out.append(c)
    return out


def with_base(case, base):
    """corpus cases of the main path are written without the base options"""
    if case['path'] in ('main', 'premain') and case['n_base'] == 0:
        case = dict(case)
        case['spec'] = [dict(o) for o in base] + case['spec']
        case['n_base'] = len(base)
        if case.get('plugins'):
            for o in case['spec'][:case['n_base']]:
                if o['name'] == 'backend' and 'vmem' not in o['choices']:
                    o['choices'] = list(o['choices']) + ['vmem']
    return case


def run(ctx):
    common.use_repo()
    base = optlib.base_spec()
    if base is None:
        ctx.note('options added by DoitCmdBase are outside the modelled vocabulary: main path skipped')
    shift = getattr(ctx, 'seed_shift', 0)
    cases = [with_base(c, base or []) for c in corpus_cases()]
    ctx.count('corpus', len(cases))
    n_random = (2600 if ctx.tier == 'quick' else 160000) * ctx.boost
    master = ctx.sub_rng('cases', shift)
    for i in range(n_random):
        rng = random.Random(master.getrandbits(64))
        path = None
        while path is None or (path == 'main' and base is None):
            path = rng.choice(PATHS)
        cases.append(gen_case(rng, base or [], path))
    rr = realrun_cases(random.Random(master.getrandbits(64)), (90 if ctx.tier == 'quick' else 1200) * ctx.boost)
    ctx.count('real-run-command:cases', len(rr))
    cases += rr
    real = realcmd_cases(random.Random(master.getrandbits(64)), 4 if ctx.tier == 'quick' else 60)
    ctx.count('real-command-tables:cases', len(real))
    cases += real
    crng = random.Random(master.getrandbits(64))
    core = optcfglib.core_tables()
    n_cfg = (1 if ctx.tier == 'quick' else 12) * ctx.boost
    cfgc = [optcfglib.gen_layers_case(crng, base) for _ in range(150 * n_cfg)] if base is not None else []
    cfgc += [optcfglib.gen_plug_case(crng, core) for _ in range(150 * n_cfg)]
    cfgc += [optcfglib.gen_conv_case(crng) for _ in range(120 * n_cfg)]
    cfgc += [optcfglib.gen_tlayers_case(crng) for _ in range(80 * n_cfg)]
    ccmds = optcfglib.core_commands()
    cfgc += [optcfglib.gen_cmd_case(crng, ccmds) for _ in range(100 * n_cfg)]
    ctx.count('config-side:cases', len(cfgc))
    cases += cfgc
    small = small_scope_cases(3 if (ctx.tier == 'thorough' or ctx.boost > 1) else 2)
    ctx.extra['exhaustive_small_scope'] = {'tokens': len(SMALL_TOKENS), 'envs': len(SMALL_ENVS),
                                           'max_len': 3 if (ctx.tier == 'thorough' or ctx.boost > 1) else 2,
                                           'argvs': len(small)}
    cases += small
    size = max(25, len(cases) // (common.NCPU * 4))
    batches = [cases[i:i + size] for i in range(0, len(cases), size)]
    for st in common.pmap(process_batch, batches):
        st.merge_into(ctx)
    ctx.extra['hypotheses'] = {'WF_true': ctx.dist.get('wf:True', 0), 'WF_false': ctx.dist.get('wf:False', 0),
                               'roundtrip_hyp_true': ctx.dist.get('hyp_ok:True', 0),
                               'roundtrip_hyp_false': ctx.dist.get('hyp_ok:False', 0)}
    ctx.extra['monitor'] = 'specification value computed by the Lean driver (specOf) from the structured input; ' \
                           'purity and rejection predicates in Python (simple trace predicates)'


def search(ctx):
    ctx.seed_shift = 7919
    run(ctx)


def replay(ctx, data):
    w = data.get('witness') or {}
    case = w.get('case')
    if not case:
        print('nothing to replay (no failing input was found): %s' % data.get('note'))
        return False
    c, impl, model, spec = eval_cases([case])[0]
    print('path    :', c['path'])
    if c['path'] in ('plug', 'plugcmd', 'conv', 'tlayers'):
        print('input   :', json.dumps({k: v for k, v in c.items() if k not in BLANK_KEYS or k == 'argv'}))
        print('model   :', json.dumps({k: v for k, v in model.items() if k != '_aux'}))
    if c.get('klayers'):
        print('layers  : option probe, present: %s; model: %s' % (optcfglib.present_of(c), json.dumps((model.get('_aux') or {}).get('winner'))))
    print('options :', json.dumps(c['spec'][c['n_base']:]))
    print('env     :', c['env'], ' config section:', c['ini'], ' GLOBAL:', c['glob'], ' DOIT_CONFIG:', c['dodo'])
    if c.get('api'):
        print('API     : doit.api.run_tasks(ModuleTaskLoader(ns), {"t": %s%s}) twice with the same dict; the argv below is only '
              'the model\'s view' % (json.dumps(c['task_opts']), (' + posv=%s' % c['pos']) if c.get('api_pos_given') else ''))
    if c['path'] == 'runtask':
        print('task t  : pos_arg=%s, per-task config section present: %s (%s); command line: doit t %s'
              % (bool(c.get('pos_arg')), bool(c['ini'] or c.get('cfg_not_none')), c.get('ini_mode'), ' '.join(c['argv'])))
    if c.get('plugins'):
        print('plugins : [COMMAND] vcmd = optlib:PLUGIN_VCMD, [BACKEND] vmem = optlib:PLUGIN_BACKEND in the same config source '
              '(%s); backend instantiated: %s' % (c['ini_mode'], impl.get('backend_seen')))
    if c.get('ini_mode') == 'mixed':
        print('config  : extra_config (same dict object for every DoitMain of the case) = the sections above; files of '
              'this invocation: %s' % json.dumps(c.get('files')))
        if c.get('prev_argv') is not None and 'prev_files' in c:
            print('          files present during the earlier invocation: %s' % json.dumps(c['prev_files']))
    if c.get('pre') is not None:
        print('loader options %s; written before the command name: %s' % (json.dumps(c['lspec']), c['pre']))
    if c.get('prev_argv') is not None:
        print('earlier :', c['prev_argv'], '(handled first by the same parser / command object / process)')
    print('argv    :', c['argv'])
    print('impl    :', json.dumps(impl)[:1500])
    print('model   :', json.dumps(model.get('res'))[:800])
    if spec is not None:
        print('property:', json.dumps(spec.get('expect'))[:800], '(hypotheses hold: %s)' % spec.get('hyp_ok'))
    viol, div = judge(c, impl, model, spec)
    for label, note in viol:
        print('VIOLATED %s: %s' % (label, note))
    for note in div:
        print('DIVERGES: %s' % note)
    return not viol and not div


# ------------------------------------------------------------------------------------------------ generated obligations

REAL_COMMANDS = ['doit.cmd_run:Run', 'doit.cmd_list:List', 'doit.cmd_clean:Clean', 'doit.cmd_forget:Forget',
                 'doit.cmd_ignore:Ignore', 'doit.cmd_info:Info', 'doit.cmd_help:Help', 'doit.cmd_dumpdb:DumpDB',
                 'doit.cmd_resetdep:ResetDep', 'doit.cmd_completion:TabCompletion', 'doit.cmd_strace:Strace']


def lean_str(s):
    return '[' + ', '.join("Char.ofNat %d" % ord(ch) for ch in s) + ']'


def lean_val(v):
    if v is None:
        return 'Val.none'
    if isinstance(v, bool):
        return 'Val.b %s' % ('true' if v else 'false')
    if isinstance(v, int):
        return 'Val.i (%d)' % v
    if isinstance(v, str):
        return 'Val.s %s' % lean_str(v)
    if isinstance(v, list):
        return 'Val.l [%s]' % ', '.join(lean_str(x) for x in v)
    return 'Val.none'


def lean_opt(o):
    return ('{ name := %s, ty := Ty.%s, default := %s, short := %s, long := %s, inverse := %s, choices := [%s], envVar := %s }'
            % (lean_str(o['name']), o['type'], lean_val(o['default']),
               ('some (Char.ofNat %d)' % ord(o['short'])) if o['short'] else 'none', lean_str(o['long']),
               lean_str(o['inverse']), ', '.join(lean_val(c) for c in o['choices']),
               ('some %s' % lean_str(o['env_var'])) if o['env_var'] else 'none'))


def real_tables():
    """[(label, spec | None, why)] for every real command (its full table as the parser sees it) and the loader"""
    import importlib
    common.use_repo()
    from doit.cmd_base import DodoTaskLoader
    from doit.cmdparse import CmdOption
    from doit.plugin import PluginDict
    out = []
    for ref in REAL_COMMANDS:
        modname, cls = ref.split(':')
        try:
            klass = getattr(importlib.import_module(modname), cls)
            try:
                inst = klass(task_loader=DodoTaskLoader(), config={}, cmds=PluginDict())
            except TypeError:
                inst = klass(config={})
            opts = inst.get_options()
        except Exception as ex:  # noqa
            out.append((cls, None, 'cannot introspect: %s' % type(ex).__name__))
            continue
        loose = []
        for o in opts:
            # types outside the vocabulary do not matter for well-formedness of the table: keep names / letters
            if o.type not in (bool, int, str, list):
                loose.append(o.name)
                o.type = str
            if isinstance(optlib.canon_val(o.default), dict):
                o.default = None
            o.choices = {k: v for k, v in o.choices.items() if not isinstance(optlib.canon_val(k), dict)}
        spec = optlib.spec_of_cmdoptions(opts)
        out.append((cls, spec, 'types mapped to str: %s' % loose if loose else ''))
    try:
        out.append(('DodoTaskLoader', optlib.spec_of_cmdoptions([CmdOption(o) for o in DodoTaskLoader.cmd_options]), ''))
    except Exception as ex:  # noqa
        out.append(('DodoTaskLoader', None, type(ex).__name__))
    return out


def realrun_cases(rng, n):
    """the real `run` command: continue / single / always / verbosity / num_process / par_type from DOIT_CONFIG, the
    [GLOBAL] / [run] sections (API dict, doit.cfg, pyproject.toml) and the command line; judged by what the run does"""
    spec = optlib.run_spec()
    if spec is None:
        return []
    by = dict((o['name'], o) for o in spec)
    out = []

    def text_of(v):
        if isinstance(v, bool):
            return rng.choice(['yes', 'on', '1', 'True']) if v else rng.choice(['no', 'off', '0', 'false'])
        return str(v)

    def layer(p, typed_ok):
        res = []
        for name, pool in optlib.RUN_POOL.items():
            if rng.random() < p:
                v = rng.choice(pool)
                res.append([name, {'val': v}] if (typed_ok and not isinstance(v, str) and rng.random() < 0.5)
                           else [name, {'raw': text_of(v)}])
        rng.shuffle(res)
        return res

    for _ in range(n):
        mode = rng.choice(['api', 'file', 'toml'])
        c = {'path': 'realrun', 'spec': spec, 'env': [], 'glob': layer(0.2, mode != 'file'), 'ini': layer(0.35, mode != 'file'),
             'dodo': [[k, rng.choice(pool)] for k, pool in optlib.RUN_POOL.items() if rng.random() < 0.35],
             'ini_mode': mode, 'sep': False, 'pos': ['t', 'u', 'a_fail', 'z'], 'malformed': None, 'n_base': len(spec)}
        asgs = []
        for name, pool in optlib.RUN_POOL.items():
            if rng.random() < 0.35:
                o = by[name]
                v = rng.choice(pool)
                if o['type'] == 'bool':
                    forms = ([['flags', o['short']]] if o['short'] else []) + [['lFlag', o['long']]]
                    if o['inverse'] and not v:
                        forms = [['lFlag', o['inverse']]]
                    asgs.append(rng.choice(forms))
                else:
                    forms = ['lEq', 'lDet'] + (['sAtt', 'sDet'] if o['short'] else [])
                    f = rng.choice(forms)
                    asgs.append([f, '', o['short'], str(v)] if f in ('sAtt', 'sDet') else [f, o['long'], str(v)])
        rng.shuffle(asgs)
        c['asgs'] = asgs
        if rng.random() < 0.06:
            c['malformed'] = 'bad-value'
            if rng.random() < 0.5:
                c['argv'] = ['-v', 'abc'] + optlib.render(asgs, False, c['pos'])
            else:
                c['ini'] = [e for e in c['ini'] if e[0] != 'num_process'] + [['num_process', {'raw': 'many'}]]
                c['argv'] = optlib.render(asgs, False, c['pos'])
        else:
            c['argv'] = optlib.render(asgs, False, c['pos'])
        out.append(c)
    return out


def judge_realrun(case, impl, model, spec):
    """(K) behaviour for the model's resolved values, (P) behaviour for the specification's values, against what the
    run did (continue is only visible in a serial run, verbosity not in a process run: compared when observed)"""
    viol, div = [], []
    r1 = impl.get('res') or {}

    def cmp_(want_vals, label):
        want = optlib.run_behaviour(want_vals)
        got = r1['ok']['behaviour']
        bad = [(k, got[k], want[k]) for k in ('mode', 'single', 'always', 'continue', 'verbosity')
               if got[k] is not None and got[k] != want[k]]
        if bad:
            k, g, w_ = bad[0]
            return '`doit run %s`: the run shows %s=%r, %s gives %r (%s)' % (' '.join(case['argv']), k, g, label, w_,
                                                                            'tasks run: %s' % impl.get('ran'))
        return None

    mres = model['res']
    if 'err' in mres or 'err' in r1:
        if ('err' in mres) != ('err' in r1) or ('err' in r1 and r1['err'] == 'crash'):
            div.append('M4/realrun: impl %s model %s' % (canon(r1)[:200], canon(res_key(mres))[:200]))
        if case.get('malformed') and ('err' not in r1 or r1['err'] == 'crash' or impl.get('exit') != 3):
            viol.append(('reject', 'ill-typed value for a `run` option was not rejected with exit code 3: %s' % canon(impl)[:200]))
        elif 'err' in r1 and not case.get('malformed') and spec is not None and 'vals' in spec['expect']:
            viol.append(('roundtrip', 'well-formed `doit run %s` rejected: %s' % (' '.join(case['argv']), canon(r1)[:200])))
        return viol, div
    note = cmp_(mres['ok']['vals'], 'the model')
    if note:
        div.append('M4/realrun: ' + note)
    if spec is not None and spec['hyp_ok'] and model.get('wf') and 'vals' in spec['expect']:
        note = cmp_(spec['expect']['vals'], 'the property (cmdline > DOIT_CONFIG > [run] > [GLOBAL] > default)')
        if note:
            viol.append(('precedence', note))
    return viol, div


def _real_parser(label):
    """the CmdParse a real command builds for itself (fresh objects)"""
    import importlib
    from doit.cmd_base import DodoTaskLoader
    from doit.cmdparse import CmdOption, CmdParse
    from doit.plugin import PluginDict
    if label == 'DodoTaskLoader':
        return CmdParse([CmdOption(o) for o in DodoTaskLoader.cmd_options])
    ref = [r for r in REAL_COMMANDS if r.endswith(':' + label)][0]
    modname, cls = ref.split(':')
    klass = getattr(importlib.import_module(modname), cls)
    try:
        inst = klass(task_loader=DodoTaskLoader(), config={}, cmds=PluginDict())
    except TypeError:
        inst = klass(config={})
    return CmdParse(inst.get_options())


def impl_realcmd(case):
    names = [o['name'] for o in case['spec']]
    out = {}

    def cv(v):
        v = optlib.canon_val(v)
        return None if isinstance(v, dict) else v

    with optlib.environ(case['env']):
        try:
            parser = _real_parser(case['cmd'])
        except Exception as ex:  # noqa
            return {'res': optlib.exc_obs(ex), 'ctor': True}
        out['defaults0'] = [cv(o.default) for o in parser.options]
        for tag, dtag in (('res', 'defaults'), ('res2', 'defaults2')):
            try:
                params, pos = parser.parse(list(case['argv']))
                obs = optlib.params_obs(names, params, pos)
                obs['ok']['vals'] = [[n, None if isinstance(v, dict) else v] for n, v in obs['ok']['vals']]
                out[tag] = obs
            except Exception as ex:  # noqa
                out[tag] = optlib.exc_obs(ex)
            out[dtag] = [cv(o.default) for o in parser.options]
    return out


def realcmd_cases(rng, n_random):
    """(a) every option of every real command addressed once through each of its names, with the value the user
    means it to get (`target`/`expected`); (b) random assignment lists over the real tables"""
    out = []
    for label, spec, why in real_tables():
        if spec is None:
            continue
        base = {'path': 'realcmd', 'cmd': label, 'spec': spec, 'env': [], 'ini': [], 'glob': [], 'dodo': [],
                'sep': False, 'pos': [], 'malformed': None, 'n_base': 0, 'ini_mode': 'api'}
        for o in spec:
            if o['type'] == 'bool':
                forms = ([(['flags', o['short']], True)] if o['short'] else []) + \
                        ([(['lFlag', o['long']], True)] if o['long'] else []) + \
                        ([(['lFlag', o['inverse']], False)] if o['long'] and o['inverse'] else [])
            else:
                text = str(o['choices'][0]) if o['choices'] else {'int': '2', 'str': 'val', 'list': 'val'}[o['type']]
                val = {'int': (lambda t: int(t)), 'str': (lambda t: t),
                       'list': (lambda t: list(o['default'] or []) + [t])}[o['type']](text)
                forms = ([(['sAtt', '', o['short'], text], val), (['sDet', '', o['short'], text], val)] if o['short'] else []) + \
                        ([(['lEq', o['long'], text], val), (['lDet', o['long'], text], val)] if o['long'] else [])
            for asg, val in forms:
                c = dict(base, asgs=[asg], target=o['name'], expected=val)
                c['argv'] = optlib.render(c['asgs'], False, [])
                out.append(c)
        for _ in range(n_random):
            c = dict(base, asgs=optlib.gen_asgs(rng, spec, good_p=0.95), pos=[rng.choice(optlib.POSITIONALS) for _ in range(rng.randint(0, 2))])
            c['env'] = [e for e in optlib.gen_sources(rng, spec, good_p=0.95, p_env=0.5)[0]]
            c['argv'] = optlib.render(c['asgs'], False, c['pos'])
            out.append(c)
    return out


def generated_obligations(ctx):
    lines = ['import DoitModel.Model.Opt', 'open DoitModel.Opt', 'namespace GenC16',
             '/-! option tables of the real doit commands, regenerated from the imported package -/']
    n = 0
    summary = {}
    for label, spec, why in real_tables():
        if spec is None:
            # a table that cannot be expressed is an undischarged obligation, not a silently skipped one
            lines.append('example : (false = true) := by decide  -- %s: %s' % (label, why))
            n += 1
            summary[label] = 'not expressible: ' + why
            continue
        lines.append('def spec%s : List Opt := [\n  %s]' % (label, ',\n  '.join(lean_opt(o) for o in spec)))
        lines.append('example : WF spec%s = true := by decide' % label)
        n += 1
        summary[label] = '%d options%s' % (len(spec), (' (' + why + ')') if why else '')
    lines.append('end GenC16')
    ctx.extra['generated_tables'] = summary
    return '\n'.join(lines) + '\n', n


if __name__ == '__main__':
    import sys
    if '--judge' in sys.argv:
        _case = json.loads(sys.stdin.read())
        common.use_repo()
        _c, _impl, _model, _spec = eval_cases([_case])[0]
        _viol, _div = judge(_c, _impl, _model, _spec)
        common.cleanup_scratch()
        print(json.dumps({'viol': _viol, 'div': _div}))
