"""C13 -- forget, ignore and reset-dep have exactly their documented effect   (models M2 + M8, DESIGN §5 C13)

(T) lean/DoitModel/Props/C13.lean over lean/DoitModel/Model/Cmds.lean (task graph + target lists of the three
    commands + a run that honours ignore marks, on top of the M2 state of Model/Status.lean).
(K) histories (file edits, runs with selections / failures / --always / --continue, `forget` in every argument form,
    `ignore`, `reset-dep`, unknown names) over generated task sets with task_dep / setup / calc_dep / target->file_dep edges,
    groups with sub-tasks and `default_tasks` are executed by the real doit *through the command line entry point
    in-process* (`DoitMain.run([...])`) on real files with every backend and both checkers.  Compared with the Lean
    model: the list of tasks each command printed (order and duplicates included), its exit code, per-task reports of
    every run (in the order of the final report), reset-dep's per-task lines, and the logical DB after every op.
(P) the statement of C13 evaluated on the implementation's observations.  The *specification sets* (what forget must
    clear, what ignore must mark, which tasks must be reported ignored / must not execute in a run given the marks
    placed and not yet forgotten, what reset-dep acts on) and the record predicate of reset-dep are computed by the
    Lean driver from the documented semantics only (never from a DB, never from the model of the code); the
    comparison of DB dumps before/after against these sets is a Python predicate (set / equality tests on dumps).
Builds on harness/statuslib.py (World, RecordingReporter, canonical DB form).
"""
import json
import os
import random
import shutil

import common
import statuslib
from common import WorkerStats
from statuslib import fname, size_of, content_of, T0

UNKNOWN = 99          # an argument that names no task (`nosuch`)

META = {
    'property': 'C13',
    'lean_props': ['DoitModel.Props.C13'],
    'level': 'proof',
    'budget': {'quick': 35, 'thorough': 420},
    'anchors': ['doit/cmd_forget.py::Forget._execute', 'doit/cmd_ignore.py::Ignore._execute',
                'doit/cmd_resetdep.py::ResetDep._execute', 'doit/cmd_base.py::check_tasks_exist',
                'doit/cmd_base.py::tasks_and_deps_iter', 'doit/cmd_base.py::subtasks_iter',
                'doit/cmd_base.py::DoitCmdBase.execute',
                'doit/dependency.py::Dependency.ignore', 'doit/dependency.py::Dependency.status_is_ignore',
                'doit/dependency.py::Dependency.save_success', 'doit/dependency.py::Dependency.get_status',
                'doit/dependency.py::Dependency.close',
                'doit/dependency.py::JsonDB.remove', 'doit/dependency.py::JsonDB.remove_all',
                'doit/dependency.py::DbmDB.remove', 'doit/dependency.py::DbmDB.remove_all',
                'doit/dependency.py::SqliteDB.remove', 'doit/dependency.py::SqliteDB.remove_all',
                'doit/dependency.py::SqliteDB.dump',
                'doit/runner.py::Runner.select_task', 'doit/runner.py::Runner._handle_task_error',
                'doit/control.py::ExecNode.parent_status', 'doit/control.py::TaskDispatcher._node_add_wait_run'],
    'technique': 'Lean 4 proofs about an executable model of the three commands and of select_task\'s ignore handling '
                 '(target lists = declarative sets; effect on the DB = exactly those records; ignore marks persist and '
                 'propagate; reset-dep record predicate) + differential correspondence through the real command line '
                 'entry point + monitor of the property statement on DB dumps and reporter streams',
    'design_ref': '§5 C13, §4 M2/M8',
    'level_text': 'Machine-checked (Lean 4, no sorry, axioms propext/Classical.choice/Quot.sound) over the executable model '
                  'Model/Cmds.lean, for every task graph, DB state, file system, argument form and default_tasks setting: '
                  'C13_forget -- after `forget` exactly the records of the documented selection (named + sub-tasks; '
                  'task_dep/setup closure under --follow-sub, proved equal to graph reachability; everything under '
                  '--all; default tasks, else all) are empty and every other record, the files and the definitions are '
                  'untouched; an unknown name rejects the command with nothing done; C13_forgotten_not_skipped -- a '
                  'forgotten task with a file dependency is not reported up-to-date in the next run, for every order of '
                  'hand-over; C13_ignore_cmd / C13_ignore_run / C13_ignore_persists / C13_ignore -- exactly the named '
                  'tasks and their sub-tasks are marked, the mark survives every history of edits, runs, reset-deps, ignores and '
                  'forgets of other tasks and changes of the configured checker, and in every later run every processed task that is marked or reaches a marked '
                  'task over task_dep edges (declared or implicit) is reported ignored while tasks with such a setup-task '
                  'are not executed; C13_resetdep -- target list, no other record changed, nothing recorded with a '
                  'missing file_dep, otherwise every dependency recorded as the present file, values and result kept and '
                  'status = up-to-date unless an early exit of get_status fires; counterexample theorems for the three '
                  'pinned defects.  The model is tied to doit on every run by driving the real command line entry point '
                  'in-process on real files (3 backends x 2 checkers): printed target lists, exit codes, per-task '
                  'reports, reset-dep lines and the logical DB after every op are diffed against the model; the monitor '
                  'evaluates the property statement on DB dumps and reporter streams against specification sets '
                  'computed by the Lean driver from the documented semantics (never from a DB).',
    'level_note': 'C13_forget assumes a well-formed task set (declared edges name tasks: the loader enforces it, C18; '
                  'decidable, evaluated on every generated case); the model\'s closure iteration provably never runs '
                  'out of fuel (C13_forget_fuel_suffices).  C13_ignore_run '
                  'assumes a duplicate-free hand-over order in which no task is processed before a dependency it needs '
                  'has a report (`bad = false`; C01 is the theorem about the dispatcher, the driver evaluates the flag on '
                  'every observed run).  C13_ignore_persists holds from any DB state for every history that does not forget '
                  'the task (reset-dep and checker changes included, since the repair 017f29e of finding F-C13c: '
                  'findings/resolved/C13-resetdep-checker-change-drops-ignore.md; C13_pinned_resetdep_counterexample).  '
                  '"Executes on the next run" is read for tasks whose decision consults saved state (file_dep), DESIGN '
                  '§5.  The monitor is a Python predicate (set/equality tests on dumps and reports) over specification '
                  'sets and the reset-dep record predicate evaluated by the Lean driver.  Wave 4 shapes and their tie: private '
                  'names, option spellings, DB location (sub-directory / absolute / command line options) and commands on a '
                  'DB that does not exist are inside the model unchanged; value-saving uptodate helpers (timeout, '
                  'check_timestamp_unchanged, an UptodateCalculator subclass) are tied through the run_once item of M2 '
                  '(same decision rule and saved-value life cycle, value keys translated), config_changed(dict) through '
                  'the cfg item, tuple / task-only / truthy callables through the custom item; a creator delayed by '
                  'create_after is modelled as evaluated by the three commands, its `executed` task being a run-time '
                  'dependency of the creator\'s own task (calc_dep edge kind); with creates= the commands see '
                  'placeholders (open finding delayed-creates-placeholder): K skipped and counted, monitor kept; a DB in a '
                  'missing directory is monitors-only (no command may exit 0), counted.',
    'rule': 'task sets of 2-5 creators (45% with a group of 1-2 sub-tasks; 15-20% private `_x` names; 22% with one creator delayed by create_after, a third of those with creates=; 40% of uptodate lists drawn from tuple / task-only / truthy callables, config_changed(dict), timeout, check_timestamp_unchanged, an UptodateCalculator subclass), DB file plain / in a sub-directory / absolute / given by --db-file --backend --check_file_uptodate on every command line / in a missing directory (3%, monitors only); 8% without an initial run (commands meet a DB that does not exist); forget options in both spellings (-s/--follow-sub, -a/--all, --disable-default/--enable-default); 1-2 source files, edges to earlier tasks: '
            'task_dep p=.3, setup p=.25, calc_dep p=.18 (provider with a file_dep) / .06, target->file_dep p=.3; 40% with default_tasks; a set-up prefix (write sources, '
            'full run) then 3-8 ops: runs (selection, -a, -c, failing actions), forget in 12 argument forms (names, -s, '
            '--all, --disable-default, none, unknown names), ignore, reset-dep (named / all), edits / touches / '
            'deletions of sources and targets, each command mostly followed by a run; 10% of md5 cases change the '
            'checker once, 12% do so while a file_dep is missing and reset-dep is issued (after an ignore in half of them); 20% with boundary REAL mtimes (12%: one write of the history -- mostly a source or a target of the first run -- gets mtime exactly 0, the next ones 1, 2, ...; 8%: mtimes start at 1 / below 2**31 / below 2**32 / in the year 2286), 30% of the cases that use the timestamp checker use a user-written FileChangedChecker (timestamp rule, states of its own) whose state for one file is falsy-but-valid (0, \'\', [], False, 0.0) -- counters real-mtimes:*, checker-class:*, falsy-file-state-in-db-after:<command>; 12% mutations of corpus seeds; exhaustive tier: every command word of length <= 1 (quick; '
            'length 2 sampled) / <= 2 (thorough; length 3 sampled) over a 15-letter alphabet on 6 fixed task sets (DB location rotating); '
            'non-trivial = a command changed the DB and a later run both skipped/ignored and executed; distinct = '
            'distinct rendered case',
    'assumptions': ['a file\'s content never changes while its mtime stays the same (MD5Checker\'s premise); mtimes are '
                    'set by the harness from an integer clock',
                    'md5 is treated as an injective content id',
                    'only dbm.dumb is available as dbm implementation in this sandbox',
                    'task selection arguments are plain task names (patterns and targets are C12)'],
    'trusted': ['the order in which one `doit run` hands tasks to select_task is taken from the reporter stream '
                '(ordering is C01); the model flags an order in which a needed dependency has no report yet',
                'backends are exercised, not modelled here (C07)'],
    'models': ['M2', 'M8'],
}

def sig_delayed_creates(w):
    """the (shrunk) witness still needs a creator delayed with `creates=`, and a forget / ignore / reset-dep whose
    arguments reach a task of that creator (or the `executed` task under -s) comes at or before the failing op"""
    f = w.get('failed') or {}
    case = w.get('case') or {}
    tasks = case.get('tasks') or []
    mine = set()
    for j, t in enumerate(tasks):
        if (t.get('delayed') or {}).get('creates'):
            mine |= {j} | set(k for k, u in enumerate(tasks) if u.get('sub_of') == j)
    if not mine:
        return False
    if f.get('clause', '').split('-')[0] not in ('forget', 'ignore', 'reset'):
        return False
    for op in case['ops'][:f.get('op', len(case['ops'])) + 1]:
        if op[0] == 'forget':
            a = op[1]
            if not a['names'] or a.get('sub') or set(a['names']) & mine:
                return True
        elif op[0] in ('ignore', 'reset'):
            if not op[1] or set(op[1]) & mine:
                return True
    return False


SIGNATURES = {'delayed-creates-placeholder': sig_delayed_creates}

EMPTY = {'values': None, 'result': None, 'checker': None, 'deps': None, 'fstate': [], 'ign': False}
EXECUTED = ('ok', 'fail', 'save-missing')


# ----------------------------------------------------------------------------------------------
# names

def names_of(case):
    out = []
    tasks = case['tasks']
    for i, t in enumerate(tasks):
        if t.get('sub_of') is not None:
            g = t['sub_of']
            out.append('%st%d:s%d' % ('_' if tasks[g].get('private') else '', g, i))
        else:
            # a leading underscore makes a task "private" (hidden from `list`); commands must treat it like any other
            out.append('%st%d' % ('_' if t.get('private') else '', i))
    return out


def arg_name(names, t):
    return names[t] if 0 <= t < len(names) else 'nosuch%d' % t


class Shift(object):
    """real mtime -> model clock (the harness clock ticks exactly when the model's does)"""

    def __init__(self, world=None):
        self.world = world

    def get(self, m, default=None):
        return int(m) - T0 if self.world is None else self.world.model_of(int(m))


# ---- boundary mtimes and falsy-but-valid file states (round 6).  Both knobs change only what the REAL files / the real
# checker states look like; the model (its own clock, checker kinds md5 / ts) is untouched: the code under test may
# compare mtimes / states for equality only, never test them for truth or order them.
#   case['mtimes'] = {'zero_at': z}   the z-th write of the history gets the real mtime 0 (1970-01-01: reproducible
#                                     archives, `touch -d @0`), the following ones 1, 2, ...; earlier ones wrap around
#                    {'base': name}   the real mtimes start at 1 / just below 2**31 / just below 2**32 / in the year 2286
#   case['ckfalsy'] = {'v': i, 'at': z}   `check_file_uptodate` is a user-written FileChangedChecker (not derived from a
#                                     builtin one) with the rule of the timestamp checker whose state for the file
#                                     written at tick z is FALSY_STATES[i] -- a valid state that is falsy (a size-based
#                                     checker on an empty file, a counter at 0, an empty digest list)
MT_MOD = 100003
MT_BASES = {'one': 1, 'y2038': 2 ** 31 - 3, 'u32': 2 ** 32 - 3, 'far': 10 ** 10}
FALSY_STATES = [0, '', [], False, 0.0]
CK_OFFSET = 5000


# ----------------------------------------------------------------------------------------------
# the world: statuslib's files/DB + a task graph

# ---- value-saving / unusual `uptodate` forms (wave 4, audit #2).  Each is tied to the Lean model through the item of
# M2 with the same decision rule and the same saved-value life cycle:
#   ['tuple', b]   (fn, [b]) with positional args            -> custom b
#   ['taskonly', b] callable taking only `task`               -> custom b
#   ['truthy', v]  callable returning a non-bool ('x', 1, 0, '', []): falsy = not up-to-date, never "None"  -> custom bool(v)
#   ['cfgdict', k] tools.config_changed(<dict k>): digest of the sorted JSON   -> cfg (100 + digest class of k)
#   ['timeout'] tools.timeout(10**9), ['tsunchanged'] tools.check_timestamp_unchanged(<file never touched>),
#   ['ucalc'] a user UptodateCalculator subclass: false without their saved value, true once a successful execution
#   saved it -- the rule of run_once; their value keys are translated to the model's run-once flag  -> runOnce
CFG_DICTS = [{'b': 1, 'a': [2]}, {'a': [2], 'b': 1}, {'a': [2], 'b': 1, 'c': None}]
CFG_DICT_ID = [100, 100, 102]
KFILE = 'kfile'                   # a file no history op ever touches (check_timestamp_unchanged)
ONCE_KEYS = ('success-time', KFILE + '.st_mtime', 'ucalc')
_CFG_HASH = {}


def model_utd(u):
    k = u[0]
    if k in ('tuple', 'taskonly'):
        return ['custom', bool(u[1])]
    if k == 'truthy':
        return ['custom', bool(u[1])]
    if k == 'cfgdict':
        return ['cfg', CFG_DICT_ID[u[1]]]
    if k in ('timeout', 'tsunchanged', 'ucalc'):
        return ['runOnce']
    return list(u)


def canon_values(db):
    """translate the saved values of the helpers above into the model's vocabulary (in place)"""
    if not isinstance(db, list) or db[:1] == ['exc']:
        return db
    for rec in db:
        v = rec.get('values') if isinstance(rec, dict) else None
        if not v:
            continue
        other = v.get('other')
        if other:
            for key in ONCE_KEYS:
                if key in other:
                    del other[key]
                    v['runOnce'] = True
            if not other:
                del v['other']
        if isinstance(v.get('cfg'), str) and v['cfg'] in _CFG_HASH:
            v['cfg'] = _CFG_HASH[v['cfg']]
    return db


class GraphWorld(statuslib.World):
    def _uptodate(self, item, t=None):
        from doit import tools
        from doit.dependency import UptodateCalculator
        kind = item[0]
        if kind == 'tuple':
            return (lambda flag: flag, [bool(item[1])])
        if kind == 'taskonly':
            val = bool(item[1])
            return lambda task: val
        if kind == 'truthy':
            val = item[1]
            return lambda task, values: val
        if kind == 'cfgdict':
            c = tools.config_changed(dict(CFG_DICTS[item[1]]))
            _CFG_HASH[c._calc_digest()] = CFG_DICT_ID[item[1]]
            return c
        if kind == 'timeout':
            return tools.timeout(10 ** 9)
        if kind == 'tsunchanged':
            if not os.path.exists(KFILE):
                with open(KFILE, 'w') as f:
                    f.write('k')
                os.utime(KFILE, ns=(T0 * statuslib.NS, T0 * statuslib.NS))
            return tools.check_timestamp_unchanged(KFILE)
        if kind == 'ucalc':
            class Seen(UptodateCalculator):
                def __call__(self, task, values):
                    assert self.tasks_dict is not None and task.name in self.tasks_dict and callable(self.get_val)
                    task.value_savers.append(lambda: {'ucalc': 1})
                    return bool(values.get('ucalc'))
            return Seen()
        return statuslib.World._uptodate(self, item, t)

    def __init__(self, case):
        statuslib.World.__init__(self, case['backend'], case['checker'], len(case['tasks']),
                                 case['nsrc'] + len(case['tasks']))
        self.case = case
        self.names = names_of(case)
        self.executed = []
        # where the DB file lives and how the commands are told (wave 4, audit #22)
        self.db_loc = case.get('db_loc') or 'plain'
        if self.db_loc == 'subdir':
            os.makedirs(os.path.join('dbdir', 'sub'), exist_ok=True)
            self.db = os.path.join('dbdir', 'sub', self.db)
        elif self.db_loc == 'abs':
            self.db = os.path.abspath(self.db)
        elif self.db_loc == 'missing-dir':
            self.db = os.path.join('no-such-dir', self.db)
        self.falsy_seen = 0      # recorded file states that are falsy / hold a zero mtime, in the last dump
        self.mtimes = case.get('mtimes') or None
        self.ckfalsy = case.get('ckfalsy') or None
        self._ckcls = None

    # -- real mtimes (see MT_BASES above); model clock k = harness clock - T0
    def real_sec(self, mtime):
        k = mtime - T0
        if not self.mtimes:
            return mtime
        if self.mtimes.get('zero_at') is not None:
            return (k - self.mtimes['zero_at']) % MT_MOD
        return MT_BASES[self.mtimes['base']] + k - 1

    def model_of(self, real):
        if not self.mtimes:
            return real - T0
        if self.mtimes.get('zero_at') is not None:
            return (real + self.mtimes['zero_at']) % MT_MOD
        return real - MT_BASES[self.mtimes['base']] + 1

    def _ns(self, mtime):
        return self.real_sec(mtime) * statuslib.NS

    def checker_value(self):
        """what `check_file_uptodate` is set to"""
        if not (self.ckfalsy and self.checker == 'timestamp'):
            return self.checker
        if self._ckcls is None:
            from doit.dependency import FileChangedChecker
            world, spec = self, self.ckfalsy

            class UserTS(FileChangedChecker):
                """the rule of the timestamp checker, with states of its own: one of them is falsy"""
                def _state(self, mtime):
                    k = world.model_of(int(mtime))
                    return FALSY_STATES[spec['v']] if k == spec['at'] else CK_OFFSET + k

                def check_modified(self, file_path, file_stat, state):
                    return self._state(file_stat.st_mtime) != state

                def get_state(self, dep, current_state):
                    return self._state(os.path.getmtime(dep))
            self._ckcls = UserTS
        return self._ckcls

    def _decode_state(self, st):
        """state of the user-written checker -> the real mtime it stands for (what the timestamp checker would hold)"""
        if st is None or (isinstance(st, (list, tuple)) and len(st) == 3):
            return st
        if not st:
            return float(self.real_sec(T0 + self.ckfalsy['at']))
        if isinstance(st, int) and st >= CK_OFFSET:
            return float(self.real_sec(T0 + st - CK_OFFSET))
        return st

    def _task_dict(self, i, with_name=None):
        world = self
        t = self.case['tasks'][i]

        def action(i=i):
            pl = world.plan.get(str(i)) or {'ok': True, 'writes': [], 'res': None}
            world.executed.append(i)
            for p, cid in pl.get('writes', []):
                world.write(p, cid, world.tick())
            if not pl.get('ok', True):
                return False
            if pl.get('res') is not None:
                return 'r%d' % pl['res']
            return True

        d = {'actions': [action], 'file_dep': [fname(p) for p in t['deps']],
             'targets': [fname(p) for p in t['targets']],
             'uptodate': [self._uptodate(u) for u in t['uptodate']],
             'task_dep': [self.names[x] for x in t['task_dep']],
             'setup': [self.names[x] for x in t['setup']]}
        if t.get('calc_dep'):
            d['calc_dep'] = [self.names[x] for x in t['calc_dep']]
        if with_name is not None:
            d['name'] = with_name
        return d

    def _subs_gen(self, subs):
        for j in subs:
            yield self._task_dict(j, with_name='s%d' % j)

    def namespace(self):
        ns = {}
        tasks = self.case['tasks']
        for i, t in enumerate(tasks):
            if t.get('sub_of') is not None:
                continue
            subs = [j for j, u in enumerate(tasks) if u.get('sub_of') == i] if t.get('group') else None
            # one `def` line for every creator: the loader orders creators by line number (stable)
            def creator(i=i, subs=subs, self=self): return self._subs_gen(subs) if subs else self._task_dict(i)  # noqa
            dl = t.get('delayed')
            if dl:
                # @create_after(executed=E[, creates=[name]]): in a run the creator is evaluated after E; forget / ignore /
                # reset-dep evaluate it while loading -- unless `creates` is given: then they see a bare placeholder
                from doit import create_after
                kw = {'executed': self.names[dl['after']]}
                if dl.get('creates'):
                    kw['creates'] = [self.names[i]]
                creator = create_after(**kw)(creator)
            ns['task_%st%d' % ('_' if t.get('private') else '', i)] = creator
        return ns

    def doit(self, argv, reporter=None):
        import contextlib
        import io
        from doit.doit_cmd import DoitMain
        from doit.cmd_base import ModuleTaskLoader
        ns = self.namespace()
        ck = self.checker_value()
        cfg = {'dep_file': self.db, 'backend': self.backend, 'verbosity': 0, 'check_file_uptodate': ck}
        if self.db_loc == 'cli':
            # DB file, backend and checker given as command line options of every command instead of DOIT_CONFIG
            # (a checker CLASS can not be named on a command line: it stays in DOIT_CONFIG)
            cfg = {'verbosity': 0}
            if not isinstance(ck, str):
                cfg['check_file_uptodate'] = ck
            argv = [argv[0], '--db-file', self.db, '--backend', self.backend] + (
                ['--check_file_uptodate', ck] if isinstance(ck, str) else []) + list(argv[1:])
        if self.case.get('default') is not None:
            cfg['default_tasks'] = [self.names[t] for t in self.case['default']]
        if reporter is not None:
            cfg['reporter'] = reporter
        ns['DOIT_CONFIG'] = cfg
        out, err = io.StringIO(), io.StringIO()
        with contextlib.redirect_stdout(out), contextlib.redirect_stderr(err):
            try:
                code = DoitMain(ModuleTaskLoader(ns)).run(list(argv))
                code = 0 if code is None else code
            except SystemExit as e:
                code = e.code
            except BaseException as e:  # noqa
                code = ['exc', type(e).__name__]
        return code, out.getvalue(), err.getvalue()

    def dump(self):
        from doit import dependency as dep
        cls = {'json': dep.JsonDB, 'dbm': dep.DbmDB, 'sqlite3': dep.SqliteDB}[self.backend]
        self.falsy_seen = 0
        db = cls(self.db, codec=dep.JSONCodec())
        out = []
        try:
            for name in self.names:
                rec = {}
                for key in ['_values_:', 'result:', 'checker:', 'deps:', 'ignore:']:
                    rec[key] = db.get(name, key)
                rec['files'] = {p: db.get(name, fname(p)) for p in range(self.npaths)}
                for st in rec['files'].values():
                    if st is not None and not isinstance(st, (list, tuple)) and not st:
                        self.falsy_seen += 1
                    elif isinstance(st, (list, tuple)) and (len(st) == 0 or (len(st) == 3 and not st[0])):
                        self.falsy_seen += 1
                if self.ckfalsy:
                    rec['files'] = {p: self._decode_state(st) for p, st in rec['files'].items()}
                out.append(rec)
        finally:
            try:
                if self.backend == 'dbm':
                    db._dbm.close()
                elif self.backend == 'sqlite3':
                    db._conn.close()
            except Exception:  # noqa
                pass
        return out

    def fs_snapshot(self):
        snap = []
        for p in range(self.npaths):
            try:
                st = os.stat(fname(p))
                with open(fname(p)) as f:
                    data = f.read()
                cid = statuslib._MD5_CID.get(statuslib._md5(data), 999)
                snap.append([self.model_of(int(st.st_mtime)), st.st_size, cid])
            except OSError:
                snap.append(None)
        return snap


FINAL = ('skip_ignore', 'skip_uptodate', 'add_success', 'add_failure')


def run_steps(events, index):
    """[(task, outcome)] in the order of each task's final report"""
    per, last = {}, {}
    for n, (kind, name, info) in enumerate(events):
        if name is None:
            continue
        per.setdefault(name, []).append((kind, info))
        if kind in FINAL:
            last[name] = n
    steps = []
    for name in sorted(per, key=lambda x: last.get(x, 10 ** 9)):
        if name not in last:
            continue        # the run stopped (failure without --continue) before the task got a final report
        kinds = [k for k, _ in per[name]]
        fails = [i for k, i in per[name] if k == 'add_failure']
        if 'skip_ignore' in kinds:
            out = 'ignored'
        elif 'skip_uptodate' in kinds:
            out = 'up-to-date'
        elif 'execute_task' in kinds:
            if 'add_success' in kinds:
                out = 'ok'
            elif fails and fails[0][0] == 'DependencyError':
                out = 'save-missing'
            elif fails:
                out = 'fail'
            else:
                out = 'other:executed-without-result'
        elif fails and fails[0][0] == 'UnmetDependency':
            out = 'unmet'
        elif fails and fails[0][0] == 'DependencyError':
            out = 'error'
        elif fails:
            out = 'other:' + fails[0][0]
        else:
            out = 'other:' + '+'.join(kinds)
        steps.append([index.get(name, -1), out])
    return steps


def forget_argv(names, a):
    argv = ['forget']
    long_ = a.get('long')       # every option of cmd_forget in both spellings: -s/--follow-sub, -a/--all,
    if a.get('sub'):            # --disable-default / --enable-default (the default, spelled out)
        argv.append('--follow-sub' if long_ else '-s')
    if a.get('all'):
        argv.append('--all' if long_ in (None, True) else '-a')
    if a.get('dd'):
        argv.append('--disable-default')
    elif a.get('ed'):
        argv.append('--enable-default')
    return argv + [arg_name(names, t) for t in a['names']]


def lines_of(out, word, index):
    res = []
    for line in out.split('\n'):
        parts = line.split()
        if len(parts) >= 2 and parts[0] == word and parts[1] in index:
            res.append(index[parts[1]])
    return res


def run_history(case):
    """execute the history on the tree under test (cwd = empty scratch dir); one observation per op"""
    common.use_repo()
    w = GraphWorld(case)
    names = w.names
    index = {n: i for i, n in enumerate(names)}
    obs = []
    shift = Shift(w)

    def canon_db():
        try:
            return canon_values(statuslib.canon_impl_db(w.dump(), shift))
        except Exception as ex:  # noqa
            return ['exc', type(ex).__name__]

    prev = canon_db()
    for op in case['ops']:
        kind = op[0]
        o = {'kind': kind, 'crash': None, 'code': None}
        code, out, err = None, '', ''
        if kind == 'edit':
            w.write(op[1], op[2], w.tick())
        elif kind == 'touch':
            w.touch(op[1], w.tick())
        elif kind == 'delete':
            w.delete(op[1])
        elif kind == 'checker':
            w.checker = op[1]
        elif kind == 'run':
            spec = op[1]
            w.plan = spec.get('plan') or {}
            w.executed = []
            argv = ['run']
            if spec.get('always'):
                argv.append('-a')
            if spec.get('cont'):
                argv.append('-c')
            if spec.get('sel') is not None:
                argv += [arg_name(names, t) for t in spec['sel']]
            rep = statuslib.RecordingReporter()
            code, out, err = w.doit(argv, rep)
            o['steps'] = run_steps(rep.events, index)
            done_ = set(n for k, n, _ in rep.events if k in FINAL)
            # first select_task pass (get_status) without a final report: the run stopped before the second pass
            o['unfinished'] = sorted(set(index[n] for k, n, _ in rep.events
                                         if k == 'get_status' and n not in done_ and n in index))
            o['executed'] = list(w.executed)
        elif kind == 'forget':
            o['fs'] = None
            code, out, err = w.doit(forget_argv(names, op[1]))
            o['printed'] = lines_of(out, 'forgetting', index)
            o['all_msg'] = 'forgetting all tasks' in out
            o['none_msg'] = 'no tasks specified' in out
        elif kind == 'ignore':
            code, out, err = w.doit(['ignore'] + [arg_name(names, t) for t in op[1]])
            o['printed'] = lines_of(out, 'ignoring', index)
            o['none_msg'] = 'You cant ignore all tasks' in out
        elif kind == 'reset':
            o['fs'] = w.fs_snapshot()
            code, out, err = w.doit(['reset-dep'] + [arg_name(names, t) for t in op[1]])
            res = []
            for line in out.split('\n'):
                parts = line.split()
                if len(parts) >= 2 and parts[0] in ('processed', 'skip', 'failed') and parts[1] in index:
                    res.append([index[parts[1]], parts[0]])
            o['reset'] = res
        else:
            raise ValueError('unknown op %r' % (op,))
        o['code'] = code
        if code is not None:
            if isinstance(code, list):
                o['crash'] = code[1]
            elif code == 3 and 'Traceback' in err:
                o['crash'] = statuslib.classify_traceback(err) or 'Exception'
            o['not_a_task'] = (code == 3 and 'is not a task' in err)
            o['stderr'] = err[-300:] if code not in (0, 1, 2) else ''
        o['pre'] = prev
        o['db'] = canon_db()
        o['falsy'] = w.falsy_seen
        prev = o['db']
        obs.append(o)
    return obs


# ----------------------------------------------------------------------------------------------
# requests to the Lean driver

def trigger_of(case, t):
    """the task named in `executed=` of the delayed creator that makes task dict `t`: the creator's own task and, since
    /repo aca1bdd (the created tasks inherit the placeholder's bad / ignored marks), every sub-task it yields"""
    if t.get('delayed'):
        return [t['delayed']['after']]
    so = t.get('sub_of')
    if so is not None and (case['tasks'][so].get('delayed') or None):
        return [case['tasks'][so]['delayed']['after']]
    return []


def model_tasks(case):
    return [{'deps': list(t['deps']), 'targets': list(t['targets']), 'uptodate': [model_utd(u) for u in t['uptodate']],
             'task_dep': list(t['task_dep']), 'setup': list(t['setup']), 'sub_of': t.get('sub_of'),
             'calc_dep': list(t.get('calc_dep') or []) + trigger_of(case, t)}
            for t in case['tasks']]


def model_plan(plan, case=None):
    out = {}
    for t, pl in (plan or {}).items():
        if case is not None and case['tasks'][int(t)].get('group'):
            continue        # a group task has no action
        out[str(t)] = {'ok': bool(pl.get('ok', True)), 'res': pl.get('res'),
                       'writes': [[p, size_of(cid), cid] for p, cid in pl.get('writes', [])]}
    return out


def to_requests(case, obs):
    ops_m, ops_p = [], []
    for op, o in zip(case['ops'], obs):
        kind = op[0]
        if kind == 'edit':
            m = ['edit', op[1], size_of(op[2]), op[2]]
            ops_m.append(m)
            ops_p.append(m)
        elif kind in ('touch', 'delete'):
            ops_m.append([kind, op[1]])
            ops_p.append([kind, op[1]])
        elif kind == 'checker':
            ops_m.append(['checker', statuslib.CK_MODEL[op[1]]])
            ops_p.append(['checker', statuslib.CK_MODEL[op[1]]])
        elif kind == 'run':
            m = ['run', {'order': [t for t, _ in o['steps'] if t >= 0], 'unfinished': o.get('unfinished') or [],
                         'always': bool(op[1].get('always')),
                         'plan': model_plan(op[1].get('plan'), case)}]
            ops_m.append(m)
            ops_p.append(m)
        elif kind == 'forget':
            a = op[1]
            m = ['forget', {'names': list(a['names']), 'sub': bool(a.get('sub')), 'all': bool(a.get('all')),
                            'dd': bool(a.get('dd'))}]
            ops_m.append(m)
            ops_p.append(m)
        elif kind == 'ignore':
            ops_m.append(['ignore', list(op[1])])
            ops_p.append(['ignore', list(op[1])])
        elif kind == 'reset':
            ops_m.append(['reset', list(op[1])])
            ops_p.append(['reset', list(op[1]), {'fs': o['fs'], 'pre': o['pre'] if isinstance(o['pre'], list) else [],
                                                 'post': o['db'] if isinstance(o['db'], list) else []}])
    base = {'model': 'c13', 'npaths': case['nsrc'] + len(case['tasks']),
            'checker': statuslib.CK_MODEL[case['checker']], 'tasks': model_tasks(case), 'default': case.get('default')}
    return dict(base, mode='model', fixed=True, ops=ops_m), dict(base, mode='monitor', ops=ops_p)


# ----------------------------------------------------------------------------------------------
# K + P

def consults_state(t):
    return bool(t['deps'])


def target_printed(target):
    return target[1] if target[0] == 'tasks' else []


def evaluate(cases, workdir=None):
    """run each case on the implementation, on the model, and ask the driver for the specification sets.
    Returns [{'case', 'obs', 'div': [...], 'viol': [...], 'stats': {...}}]"""
    common.use_repo()
    old = os.getcwd()
    base = workdir or common.scratch_dir('c13')
    all_obs = []
    for k, case in enumerate(cases):
        d = os.path.join(base, 'c%d' % k)
        shutil.rmtree(d, ignore_errors=True)
        os.makedirs(d)
        os.chdir(d)
        try:
            all_obs.append(run_history(case))
        finally:
            os.chdir(old)
            shutil.rmtree(d, ignore_errors=True)
    reqs = []
    for case, obs in zip(cases, all_obs):
        reqs += list(to_requests(case, obs))
    answers = common.drv_batch(reqs)
    res = []
    for k, (case, obs) in enumerate(zip(cases, all_obs)):
        model, mon = answers[2 * k], answers[2 * k + 1]
        if 'error' in model or 'error' in mon:
            raise RuntimeError('driver rejected request: %s / %s' % (model.get('error'), mon.get('error')))
        r = {'case': case, 'obs': obs, 'div': [], 'viol': [], 'stats': {}, 'wf': model.get('wf')}
        compare(case, obs, model['steps'], r)
        monitor(case, obs, mon['steps'], r)
        res.append(r)
    return res


def has_creates(case):
    return any((t.get('delayed') or {}).get('creates') for t in case['tasks'])


def _cnt(r, key, n=1):
    r['stats'][key] = r['stats'].get(key, 0) + n


def compare(case, obs, steps, r):
    """(K) model of the code vs implementation"""
    names = names_of(case)
    if case.get('db_loc') == 'missing-dir':
        _cnt(r, 'k-skipped:db-in-missing-directory (outside the model, monitors only)')
        return
    if has_creates(case):
        # forget / ignore / reset-dep see bare placeholders for these creators (open finding delayed-creates-placeholder):
        # the model mirrors the evaluated creator; monitors only
        _cnt(r, 'k-skipped:delayed creator with `creates` (monitors only)')
        return
    for i, (op, o, ms) in enumerate(zip(case['ops'], obs, steps)):
        kind = op[0]

        def div(what, impl=None, model=None):
            r['div'].append({'op': i, 'what': what, 'impl': impl, 'model': model})

        if o['crash'] and not (kind == 'run' and ms.get('crashed')):
            div('%s: implementation crashed (%s)' % (kind, o['crash']), o.get('stderr'))
            return
        if kind in ('forget', 'ignore', 'reset'):
            tg = ms['target']
            _cnt(r, '%s-target:%s' % (kind, tg[0]))
            exp_code = 3 if tg[0] in ('notATask', 'crash') else 0
            if tg[0] == 'fuel':
                div('model ran out of fuel in tasks_and_deps_iter')
                return
            if o['code'] != exp_code:
                div('%s: exit code' % kind, o['code'], exp_code)
                return
            if tg[0] == 'notATask' and not o.get('not_a_task'):
                div('%s: expected "is not a task" error' % kind, o.get('stderr'))
                return
            if kind == 'reset':
                impl_l = [list(x) for x in o['reset']]
                model_l = [list(x) for x in ms.get('reset', [])]
                for _, w_ in model_l:
                    _cnt(r, 'reset:' + w_)
            else:
                impl_l = o['printed']
                model_l = target_printed(tg)
                if kind == 'forget' and bool(o.get('all_msg')) != (tg[0] == 'everything'):
                    div('forget: "forgetting all tasks" message', o.get('all_msg'), tg)
                    return
                if bool(o.get('none_msg')) != (tg[0] == 'nothing'):
                    div('%s: message-only outcome' % kind, o.get('none_msg'), tg)
                    return
            if impl_l != model_l:
                div('%s: tasks acted on (printed lines)' % kind, impl_l, model_l)
                return
        elif kind == 'run':
            impl_out = [list(x) for x in o['steps']]
            model_out = [list(x) for x in ms.get('out', [])]
            for _, w_ in model_out:
                _cnt(r, 'run:' + w_)
            if ms.get('bad'):
                div('run: a task got its final report before a dependency it needed', impl_out, model_out)
                return
            if impl_out != model_out:
                div('run: per-task reports', [(names[t] if t >= 0 else '?', x) for t, x in impl_out],
                    [(names[t], x) for t, x in model_out])
                return
            if o['code'] not in (0, 1, 2):
                div('run: exit code', o['code'])
                return
        mdb = statuslib.canon_model_db(ms['db'])
        if o['db'] != mdb:
            bad = [t for t in range(len(names)) if not isinstance(o['db'], list) or o['db'][:1] == ['exc']
                   or o['db'][t] != mdb[t]]
            div('logical DB after op %d (%s) differs for %s' % (i, kind, [names[t] for t in bad]),
                [o['db'][t] for t in bad] if isinstance(o['db'], list) and o['db'][:1] != ['exc'] else o['db'],
                [mdb[t] for t in bad])
            return


def monitor(case, obs, steps, r):
    """(P) the statement of C13 on the implementation's observations"""
    names = names_of(case)
    if case.get('db_loc') == 'missing-dir':
        # there is no DB and none can be created: no command may claim success
        for i, (op, o) in enumerate(zip(case['ops'], obs)):
            if op[0] in ('run', 'forget', 'ignore', 'reset'):
                _cnt(r, 'mon:db-missing-dir:%s:%s' % (op[0], o['crash'] or 'exit-%s' % (o['code'],)))
                message_only = op[0] == 'ignore' and not op[1]      # prints a message, never touches the DB
                if o['code'] == 0 and not message_only:
                    r['viol'].append({'op': i, 'clause': 'db-missing-dir', 'detail':
                                      '%s exited 0 although the DB file cannot be created (directory missing)' % op[0]})
        return
    n = len(names)
    tasks = case['tasks']
    pending_forgot = set()      # forgotten, consults saved state, not yet seen in a run
    pending_reset = {}          # t -> True: reset with all deps present and no early exit, nothing happened since

    def viol(i, clause, detail, **kw):
        r['viol'].append(dict({'op': i, 'clause': clause, 'detail': detail}, **kw))

    for i, (op, o, sp) in enumerate(zip(case['ops'], obs, steps)):
        kind = op[0]
        pre, post = o['pre'], o['db']
        dumps_ok = isinstance(pre, list) and isinstance(post, list) and pre[:1] != ['exc'] and post[:1] != ['exc']
        if kind in ('edit', 'touch', 'delete', 'checker'):
            pending_reset = {}
            continue
        if not dumps_ok:
            viol(i, 'db-readable', 'the DB could not be read back after %s: %s' % (kind, post))
            return
        if kind in ('forget', 'ignore', 'reset') and 'unknown' in sp:
            _cnt(r, 'mon:%s-unknown-name' % kind)
            if o['code'] != 3 or o['crash']:
                viol(i, '%s-unknown-name' % kind, 'an argument names no task: expected the "not a task" error (exit 3), '
                                                   'got exit %s %s' % (o['code'], o['crash'] or ''))
            if post != pre:
                viol(i, '%s-unknown-name' % kind, 'the command was rejected but the DB changed')
            continue
        if sp.get('closed') is False:
            r['div'].append({'op': i, 'what': 'specification closure of the monitor is not a fixpoint (broken check)',
                             'impl': None, 'model': sp})
            return
        if kind == 'forget':
            spec = sp['spec']
            if o['code'] != 0:
                viol(i, 'forget-exit', 'forget %s: exit %s %s' % (op[1], o['code'], o['crash'] or ''))
            sset = set(range(n)) if spec == 'everything' else set(spec)
            _cnt(r, 'mon:forget-spec-size:%d' % min(len(sset), 6))
            kept_state = [names[t] for t in sorted(sset) if post[t] != EMPTY]
            lost = [names[t] for t in range(n) if t not in sset and post[t] != pre[t]]
            if kept_state:
                viol(i, 'forget-clears', 'documented to be forgotten but still has saved state: %s' % kept_state)
            if lost:
                viol(i, 'forget-others', 'not in the forgotten selection but record changed: %s' % lost)
            for t in sset:
                pending_reset.pop(t, None)
                if consults_state(tasks[t]) and pre[t] != EMPTY:
                    pending_forgot.add(t)
        elif kind == 'ignore':
            spec = set(sp['spec'])
            if o['code'] != 0:
                viol(i, 'ignore-exit', 'ignore %s: exit %s %s' % (op[1], o['code'], o['crash'] or ''))
            for t in range(n):
                if t in spec:
                    want = dict(pre[t], ign=True)
                    if post[t] != want:
                        viol(i, 'ignore-marks', '%s: record after ignore is %s, expected the old record with the mark'
                             % (names[t], post[t]))
                elif post[t] != pre[t]:
                    viol(i, 'ignore-others', '%s is not named (nor a sub-task) but its record changed' % names[t])
        elif kind == 'reset':
            spec = set(sp['spec'])
            if o['crash']:
                viol(i, 'reset-crash', 'reset-dep crashed: %s' % o['crash'])
                continue
            for t in range(n):
                if t not in spec and post[t] != pre[t]:
                    viol(i, 'reset-others', '%s is not selected but its record changed' % names[t])
            for per in sp['per']:
                t = per['t']
                pending_forgot.discard(t)
                if per['missing']:
                    _cnt(r, 'mon:reset-missing-dep')
                    if post[t] != pre[t]:
                        viol(i, 'reset-missing', '%s has a missing file_dep: nothing may be recorded for it (nor erased), but its record changed: %s -> %s'
                             % (names[t], pre[t], post[t]))
                    continue
                _cnt(r, 'mon:reset-present')
                if not per['rec_ok']:
                    viol(i, 'reset-record', '%s: recorded state is not that of the present files, or values/result '
                                             'not kept: %s -> %s (files %s)' % (names[t], pre[t], post[t], o['fs']))
                elif not per['status_ok']:
                    viol(i, 'reset-status', '%s: record after reset-dep does not make the task up-to-date: %s'
                         % (names[t], post[t]))
                if not per['early'] and not post[t]['ign']:
                    pending_reset[t] = True
        elif kind == 'run':
            hard, soft = set(sp['ign_hard']), set(sp['ign_setup'])
            marks = set(sp['marks'])
            executed_targets = set()
            always = bool(op[1].get('always'))
            seen = {}
            for t, out in o['steps']:
                if t < 0:
                    continue
                hd = [d for d in sp['hard_deps'][t] if seen.get(d) == 'ignored']
                sd = [d for d in tasks[t]['setup'] if seen.get(d) == 'ignored']
                if t in hard or hd:
                    _cnt(r, 'mon:run-must-be-ignored')
                    if out != 'ignored':
                        viol(i, 'ignore-skips', '%s is ignored (marks %s, not forgotten since) or depends on an ignored '
                                                'task (%s reported ignored in this run), but the run reported %s'
                             % (names[t], [names[x] for x in sorted(marks)], [names[x] for x in hd], out),
                             task=t, marks=sorted(marks))
                elif t in soft or sd:
                    _cnt(r, 'mon:run-setup-of-ignored')
                    failed_hard = [d for d in sp['hard_deps'][t] if seen.get(d) in ('fail', 'unmet', 'error', 'save-missing')]
                    if out in EXECUTED:
                        viol(i, 'ignore-skips-setup', '%s has an ignored setup-task but was executed (%s)' % (names[t], out),
                             task=t, marks=sorted(marks))
                    elif out == 'unmet' and not failed_hard:
                        # skipped means skipped: a failure report is only legitimate for a failed task_dep
                        viol(i, 'ignore-skips-setup', '%s has an ignored setup-task and no failed task_dep but was reported '
                                                      'as a failure (%s) instead of being skipped' % (names[t], out),
                             task=t, marks=sorted(marks))
                elif out == 'ignored':
                    viol(i, 'ignore-others', '%s was reported ignored but neither it nor a dependency is ignored'
                         % names[t])
                seen[t] = out
                blocked = out in ('ignored', 'unmet', 'error') or t in hard or t in soft
                if t in pending_forgot:
                    _cnt(r, 'mon:run-after-forget')
                    if out == 'up-to-date':
                        viol(i, 'forget-executes', '%s was forgotten (it has file dependencies) but the next run '
                                                   'skipped it as up-to-date' % names[t])
                    pending_forgot.discard(t)
                if t in pending_reset and not blocked and not always:
                    dirty = set(tasks[t]['deps']) & executed_targets
                    if not dirty:
                        _cnt(r, 'mon:run-after-reset')
                        if out != 'up-to-date':
                            viol(i, 'reset-uptodate', '%s: after reset-dep (all deps present, targets present, no '
                                                      'false uptodate item) the next run reported %s' % (names[t], out))
                if out in EXECUTED:
                    executed_targets |= set(tasks[t]['targets'])
            pending_reset = {}


# ----------------------------------------------------------------------------------------------
# rendering, shrinking

def render(case):
    names = names_of(case)
    out = ['backend=%s checker=%s default_tasks=%s' % (case['backend'], case['checker'],
                                                      None if case.get('default') is None
                                                      else [names[t] for t in case['default']])]
    if (case.get('db_loc') or 'plain') != 'plain':
        out[0] += ' db-file=%s' % {'subdir': 'in a sub-directory', 'abs': 'absolute path', 'missing-dir': 'in a directory that does not exist',
                                   'cli': 'given by --db-file/--backend/--check_file_uptodate on every command line'}[case['db_loc']]
    mt = case.get('mtimes')
    if mt:
        out.append('  real mtimes: ' + ('write #%d of the history gets mtime 0 (os.utime(f, (0, 0))), the next ones 1, 2, ...'
                                        % mt['zero_at'] if mt.get('zero_at') is not None
                                        else 'start at %d' % MT_BASES[mt['base']]))
    if case.get('ckfalsy'):
        out.append('  check_file_uptodate=timestamp is a user-written FileChangedChecker (state = mtime code; the state of '
                   'the file written by write #%d is %r)' % (case['ckfalsy']['at'], FALSY_STATES[case['ckfalsy']['v']]))
    for i, t in enumerate(case['tasks']):
        bits = []
        if t.get('group'):
            bits.append('group')
        if t.get('delayed'):
            bits.append('@create_after(executed=%s%s)' % (names[t['delayed']['after']], ', creates=[%s]' % names[i] if t['delayed'].get('creates') else ''))
        for key, label in (('deps', 'file_dep'), ('targets', 'targets')):
            if t[key]:
                bits.append('%s=%s' % (label, [fname(p) for p in t[key]]))
        for key in ('task_dep', 'setup', 'calc_dep'):
            if t.get(key):
                bits.append('%s=%s' % (key, [names[x] for x in t[key]]))
        if t['uptodate']:
            bits.append('uptodate=%s' % [' '.join(str(x) for x in u) for u in t['uptodate']])
        out.append('  %s: %s' % (names[i], ' '.join(bits)))
    for op in case['ops']:
        k = op[0]
        if k == 'edit':
            out.append('write f%d := %r' % (op[1], content_of(op[2])))
        elif k in ('touch', 'delete'):
            out.append('%s f%d' % (k, op[1]))
        elif k == 'checker':
            out.append('from now on --check_file_uptodate=%s' % op[1])
        elif k == 'run':
            s = op[1]
            flags = (' -a' if s.get('always') else '') + (' -c' if s.get('cont') else '')
            sel = '' if s.get('sel') is None else ' ' + ' '.join(arg_name(names, t) for t in s['sel'])
            acts = []
            for t, pl in sorted((s.get('plan') or {}).items()):
                bits = []
                if pl.get('writes'):
                    bits.append('writes ' + ','.join('f%d:=%r' % (p, content_of(c)) for p, c in pl['writes']))
                if not pl.get('ok', True):
                    bits.append('FAILS')
                if bits:
                    acts.append('%s %s' % (names[int(t)], ' '.join(bits)))
            out.append('doit run%s%s%s' % (flags, sel, ('   [actions: ' + '; '.join(acts) + ']') if acts else ''))
        elif k == 'forget':
            out.append('doit ' + ' '.join(forget_argv(names, op[1])))
        elif k == 'ignore':
            out.append('doit ignore ' + ' '.join(arg_name(names, t) for t in op[1]))
        elif k == 'reset':
            out.append('doit reset-dep ' + ' '.join(arg_name(names, t) for t in op[1]))
    return out


def valid_case(case):
    n = len(case['tasks'])
    for i, t in enumerate(case['tasks']):
        for x in t['task_dep'] + t['setup'] + list(t.get('calc_dep') or []):
            if not (0 <= x < n) or x == i:
                return False
        if t.get('sub_of') is not None and not (0 <= t['sub_of'] < n and case['tasks'][t['sub_of']].get('group')):
            return False
        if t.get('delayed'):
            e = t['delayed']['after']
            if not (0 <= e < i) or t.get('sub_of') is not None:
                return False
            te = case['tasks'][e]
            if te.get('group') or te.get('sub_of') is not None or te.get('delayed'):
                return False
        if t.get('group'):
            subs = [j for j, u in enumerate(case['tasks']) if u.get('sub_of') == i]
            if t['task_dep'] != subs or not subs:
                return False
    if case.get('default') is not None and any(not (0 <= x < n) for x in case['default']):
        return False
    return True


def drop_task(case, k):
    """the case without task k (references removed, indices and target paths shifted)"""
    tasks = case['tasks']
    if tasks[k].get('group'):
        return None
    if any((t.get('delayed') or {}).get('after') == k for t in tasks):
        return None
    n = len(tasks)
    nsrc = case['nsrc']

    def tmap(x):
        return x if x < k else x - 1

    def pmap_(p):
        if p < nsrc:
            return p
        if p == nsrc + k:
            return None
        return p if p < nsrc + k else p - 1

    new = []
    for i, t in enumerate(tasks):
        if i == k:
            continue
        u = dict(t)
        u['task_dep'] = [tmap(x) for x in t['task_dep'] if x != k]
        u['setup'] = [tmap(x) for x in t['setup'] if x != k]
        u['calc_dep'] = [tmap(x) for x in (t.get('calc_dep') or []) if x != k]
        if t.get('delayed'):
            u['delayed'] = dict(t['delayed'], after=tmap(t['delayed']['after']))
        u['deps'] = [pmap_(p) for p in t['deps'] if pmap_(p) is not None]
        u['targets'] = [pmap_(p) for p in t['targets'] if pmap_(p) is not None]
        if t.get('sub_of') is not None:
            u['sub_of'] = tmap(t['sub_of'])
        new.append(u)
    ops = []
    for op in case['ops']:
        kind = op[0]
        if kind in ('edit', 'touch', 'delete'):
            p = pmap_(op[1])
            if p is None:
                continue
            ops.append([kind, p] + list(op[2:]))
        elif kind == 'run':
            s = dict(op[1])
            if s.get('sel') is not None:
                s['sel'] = [tmap(x) for x in s['sel'] if x != k]
                if not s['sel']:
                    s['sel'] = None
            plan = {}
            for t, pl in (s.get('plan') or {}).items():
                if int(t) == k:
                    continue
                pl = dict(pl)
                pl['writes'] = [[pmap_(p), c] for p, c in pl.get('writes', []) if pmap_(p) is not None]
                plan[str(tmap(int(t)))] = pl
            s['plan'] = plan
            ops.append(['run', s])
        elif kind == 'forget':
            a = dict(op[1])
            a['names'] = [x if x >= n else tmap(x) for x in a['names'] if x != k]
            ops.append(['forget', a])
        elif kind == 'checker':
            ops.append(list(op))
        else:
            ops.append([kind, [x if x >= n else tmap(x) for x in op[1] if x != k]])
    c = dict(case, tasks=new, ops=ops)
    if case.get('default') is not None:
        c['default'] = [tmap(x) for x in case['default'] if x != k]
    return c


def shrink_candidates(case):
    ops = case['ops']
    for i in range(len(ops) - 1, -1, -1):
        yield dict(case, ops=ops[:i] + ops[i + 1:])
    for k in range(len(case['tasks']) - 1, -1, -1):
        c = drop_task(case, k)
        if c is not None:
            yield c
    for i, t in enumerate(case['tasks']):
        for key in ('setup', 'task_dep', 'calc_dep', 'deps', 'targets', 'uptodate'):
            if key == 'task_dep' and t.get('group'):
                continue
            for j in range(len(t.get(key) or [])):
                u = dict(t)
                u[key] = t[key][:j] + t[key][j + 1:]
                yield dict(case, tasks=case['tasks'][:i] + [u] + case['tasks'][i + 1:])
    for i, op in enumerate(ops):
        if op[0] == 'run':
            s = op[1]
            for key, val in (('always', False), ('cont', False), ('sel', None)):
                if s.get(key) not in (val, None):
                    yield dict(case, ops=ops[:i] + [['run', dict(s, **{key: val})]] + ops[i + 1:])
            for t in list((s.get('plan') or {})):
                yield dict(case, ops=ops[:i] + [['run', dict(s, plan={k: v for k, v in s['plan'].items() if k != t})]]
                           + ops[i + 1:])
        elif op[0] == 'forget':
            a = op[1]
            for j in range(len(a['names'])):
                yield dict(case, ops=ops[:i] + [['forget', dict(a, names=a['names'][:j] + a['names'][j + 1:])]]
                           + ops[i + 1:])
        elif op[0] in ('ignore', 'reset'):
            for j in range(len(op[1])):
                yield dict(case, ops=ops[:i] + [[op[0], op[1][:j] + op[1][j + 1:]]] + ops[i + 1:])
    if case.get('default') is not None:
        yield dict(case, default=None)
    if (case.get('db_loc') or 'plain') != 'plain':
        yield dict(case, db_loc='plain')
    for i, t in enumerate(case['tasks']):
        if t.get('delayed'):
            yield dict(case, tasks=case['tasks'][:i] + [dict(t, delayed=None)] + case['tasks'][i + 1:])
        if t.get('private'):
            yield dict(case, tasks=case['tasks'][:i] + [dict(t, private=False)] + case['tasks'][i + 1:])
    if case['backend'] != 'json':
        yield dict(case, backend='json')
    if case.get('ckfalsy'):
        yield dict(case, ckfalsy=None)
    if case.get('mtimes'):
        yield dict(case, mtimes=None)
    if case['checker'] != 'md5':
        yield dict(case, checker='md5')


def failure_key(r):
    if r['viol']:
        return ('viol', r['viol'][0]['clause'])
    if r['div']:
        return ('div', r['div'][0]['what'].split(':')[0].split(' after op')[0])
    return None


def shrink(case, workdir, budget=60):
    r0 = evaluate([case], workdir)[0]
    key = failure_key(r0)
    if key is None:
        return case, r0
    cur, cur_r = case, r0
    steps = 0
    progress = True
    while progress and steps < budget:
        progress = False
        for cand in shrink_candidates(cur):
            if not cand['ops'] or not valid_case(cand):
                continue
            steps += 1
            if steps >= budget:
                break
            try:
                rr = evaluate([cand], workdir)[0]
            except Exception:  # noqa
                continue
            if failure_key(rr) == key:
                cur, cur_r = cand, rr
                progress = True
                break
    return cur, cur_r


def make_witness(case, r):
    w = {'case': case, 'rendered': render(case)}
    if r['viol']:
        w['failed'] = r['viol'][0]
        w['all_failed'] = r['viol'][:5]
    if r['div']:
        w['divergence'] = r['div'][0]
    w['trace'] = trace_of(case, r['obs'])
    return w


def trace_of(case, obs):
    names = names_of(case)
    out = []
    for i, (op, o) in enumerate(zip(case['ops'], obs)):
        if op[0] == 'run':
            out.append('op %d run -> exit %s: %s' % (i, o['code'], ', '.join('%s %s' % (names[t] if t >= 0 else '?', x)
                                                                              for t, x in o['steps'])))
        elif op[0] in ('forget', 'ignore'):
            out.append('op %d %s -> exit %s, acted on %s%s' % (i, op[0], o['code'], [names[t] for t in o['printed']],
                                                              ' (all)' if o.get('all_msg') else ''))
        elif op[0] == 'reset':
            out.append('op %d reset-dep -> exit %s: %s' % (i, o['code'], [(names[t], x) for t, x in o['reset']]))
    return out


# ----------------------------------------------------------------------------------------------
# generation

UTD_POOL_W4 = [['tuple', True], ['tuple', False], ['taskonly', True], ['truthy', 'x'], ['truthy', 0], ['truthy', ''],
               ['cfgdict', 0], ['cfgdict', 1], ['cfgdict', 2], ['timeout'], ['tsunchanged'], ['ucalc']]
UTD_POOL = [['const', True], ['const', True], ['const', False], ['runOnce'], ['cfg', 1], ['cfg', 2],
            ['custom', True], ['custom', None], ['none']]


def gen_tasks(rng):
    nsrc = rng.choice([1, 1, 2])
    n_creators = rng.choice([2, 3, 3, 4, 4, 5])
    tasks = []
    with_group = rng.random() < 0.45
    group_at = rng.randrange(n_creators) if with_group else -1
    for c in range(n_creators):
        if c == group_at:
            g = len(tasks)
            nsub = rng.choice([1, 2, 2])
            tasks.append({'deps': [], 'targets': [], 'uptodate': [], 'task_dep': list(range(g + 1, g + 1 + nsub)),
                          'setup': [], 'sub_of': None, 'group': True, 'private': rng.random() < 0.2})
            for _ in range(nsub):
                tasks.append(gen_task(rng, tasks, nsrc, len(tasks), sub_of=g))
        else:
            tasks.append(gen_task(rng, tasks, nsrc, len(tasks), sub_of=None))
            tasks[-1]['private'] = rng.random() < 0.15
    if rng.random() < 0.22:
        # one creator is delayed: @create_after(executed=<an earlier plain task>), a third of them with `creates`
        plain = [j for j, t in enumerate(tasks) if not t.get('group') and t.get('sub_of') is None]
        cands = [j for j, t in enumerate(tasks) if t.get('sub_of') is None and any(e < j for e in plain)]
        if cands:
            j = rng.choice(cands)
            e = rng.choice([e for e in plain if e < j])
            subs = set(k for k, t in enumerate(tasks) if t.get('sub_of') == j)
            # a declared edge to a sub-task that does not exist yet when `run` loads the tasks is an invalid dodo (C18)
            referenced = any(subs & set(t['task_dep'] + t['setup'] + (t.get('calc_dep') or []))
                             for k, t in enumerate(tasks) if k != j and k not in subs)
            # ... and a target of a task that does not exist yet gives no implicit task_dep (needs target_regex: C15)
            own = subs | {j}
            tg = set(p for k in own for p in tasks[k]['targets'])
            referenced = referenced or any(tg & set(t['deps']) for k, t in enumerate(tasks) if k not in own)
            if not referenced:
                tasks[j]['delayed'] = {'after': e, 'creates': rng.random() < 0.33}
    return nsrc, tasks


def gen_task(rng, tasks, nsrc, i, sub_of):
    earlier = [j for j in range(i) if j != sub_of]
    deps = [p for p in range(nsrc) if rng.random() < 0.55]
    for j in earlier:
        if tasks[j]['targets'] and rng.random() < 0.3:
            deps.append(tasks[j]['targets'][0])
    targets = [nsrc + i] if rng.random() < 0.45 else []
    utd = []
    if rng.random() < 0.45:
        utd = [list(rng.choice(UTD_POOL_W4 if rng.random() < 0.4 else UTD_POOL)) for _ in range(rng.choice([1, 1, 2]))]
    task_dep = [j for j in earlier if rng.random() < 0.3][:2]
    setup = [j for j in earlier if j not in task_dep and rng.random() < 0.25][:2]
    # calc_dep: providers are earlier plain tasks, preferably with saved state of their own (a file_dep)
    calc_dep = [j for j in earlier if not tasks[j].get('group')
                and rng.random() < (0.18 if tasks[j]['deps'] else 0.06)][:2]
    return {'deps': deps, 'targets': targets, 'uptodate': utd, 'task_dep': task_dep, 'setup': setup, 'calc_dep': calc_dep,
            'sub_of': sub_of, 'group': False}


def gen_plan(rng, tasks, fail_p=0.12):
    plan = {}
    cid = rng.randrange(1, 150)
    for i, t in enumerate(tasks):
        if t.get('group'):
            continue
        pl = {'ok': True, 'writes': [], 'res': None}
        if t['targets'] and rng.random() < 0.8:
            pl['writes'] = [[t['targets'][0], (cid + i) % 190]]
        if rng.random() < fail_p:
            pl['ok'] = False
        if pl['writes'] or not pl['ok']:
            plan[str(i)] = pl
    return plan


def gen_names(rng, n, lo=1, hi=2, unknown_p=0.06):
    k = rng.randint(lo, hi)
    out = [rng.randrange(n) for _ in range(k)]
    if rng.random() < unknown_p:
        out.insert(rng.randrange(len(out) + 1), UNKNOWN)
    return out


def gen_forget(rng, n):
    form = rng.choice(['names', 'names', 'names', 'names-sub', 'names-sub', 'none', 'none', 'none-sub', 'all',
                       'dd', 'names-dd', 'all-names'])
    a = {'names': [], 'sub': False, 'all': False, 'dd': False}
    if form.startswith('names'):
        a['names'] = gen_names(rng, n)
    if form.endswith('sub'):
        a['sub'] = True
    if form in ('all', 'all-names'):
        a['all'] = True
        if form == 'all-names':
            a['names'] = gen_names(rng, n, unknown_p=0.3)
    if form.endswith('dd'):
        a['dd'] = True
    a['long'] = rng.random() < 0.5          # --follow-sub / --all  vs  -s / -a
    a['ed'] = (not a['dd']) and rng.random() < 0.15      # --enable-default spelled out
    return a


def gen_run(rng, tasks, fail_p=0.12):
    n = len(tasks)
    plan = gen_plan(rng, tasks, fail_p)
    fails = any(not pl['ok'] for pl in plan.values())
    sel = None
    if rng.random() < 0.35:
        sel = sorted(set(rng.randrange(n) for _ in range(rng.randint(1, 2))))
    return ['run', {'sel': sel, 'always': rng.random() < 0.08, 'cont': fails or rng.random() < 0.3, 'plan': plan}]


def sanitize_delayed_selection(case):
    """A sub-task of a delayed creator named directly in a run selection (or in default_tasks) is looked up through
    the creator's loader and waits for -- and inherits ignore / failure from -- the `executed` task as long as the
    creator has not run in that run (control._process_filter: C15's subject, order dependent).  The C13 model gives
    that edge to the creator's own task only, so such selections name the group instead."""
    tasks = case['tasks']
    sub_of_delayed = {k: t['sub_of'] for k, t in enumerate(tasks)
                      if t.get('sub_of') is not None and tasks[t['sub_of']].get('delayed')}
    if not sub_of_delayed:
        return case

    def fix(sel):
        out = []
        for x in sel:
            x = sub_of_delayed.get(x, x)
            if x not in out:
                out.append(x)
        return out
    if case.get('default') is not None:
        case['default'] = fix(case['default'])
    for op in case['ops']:
        if op[0] == 'run' and op[1].get('sel') is not None:
            op[1]['sel'] = fix(op[1]['sel'])
    return case


def gen_case(rng):
    nsrc, tasks = gen_tasks(rng)
    n = len(tasks)
    default = None
    if rng.random() < 0.4:
        default = sorted(set(rng.randrange(n) for _ in range(rng.randint(1, 2))))
    case = {'backend': rng.choice(statuslib.BACKENDS), 'checker': rng.choice(['md5', 'md5', 'timestamp']),
            'nsrc': nsrc, 'tasks': tasks, 'default': default, 'ops': []}
    x = rng.random()
    case['db_loc'] = ('plain' if x < 0.55 else 'subdir' if x < 0.68 else 'abs' if x < 0.81 else 'cli' if x < 0.97
                      else 'missing-dir')
    ops = case['ops']
    cid = rng.randrange(1, 100)
    for p in range(nsrc):
        if rng.random() < 0.92:
            ops.append(['edit', p, cid + p])
    # a DB pre-state reachable by runs (8%: the first command meets a DB that does not exist yet)
    if rng.random() < 0.92:
        ops.append(['run', {'sel': None if default is None or rng.random() < 0.5 else list(range(n)),
                            'always': False, 'cont': True, 'plan': gen_plan(rng, tasks, 0.05)}])
    paths = list(range(nsrc)) + [t['targets'][0] for t in tasks if t['targets']]
    for _ in range(rng.randint(3, 8)):
        x = rng.random()
        if x < 0.28:
            ops.append(gen_run(rng, tasks))
        elif x < 0.50:
            ops.append(['forget', gen_forget(rng, n)])
            if rng.random() < 0.6:
                ops.append(gen_run(rng, tasks, 0.05))
        elif x < 0.68:
            ops.append(['ignore', gen_names(rng, n) if rng.random() < 0.95 else []])
            if rng.random() < 0.6:
                ops.append(gen_run(rng, tasks, 0.2))
        elif x < 0.84:
            ops.append(['reset', gen_names(rng, n) if rng.random() < 0.7 else []])
            if rng.random() < 0.6:
                ops.append(gen_run(rng, tasks, 0.05))
        else:
            p = rng.choice(paths)
            y = rng.random()
            if y < 0.5:
                cid += 7
                ops.append(['edit', p, cid % 190])
            elif y < 0.7:
                ops.append(['touch', p])
            else:
                ops.append(['delete', p])
    if case['checker'] == 'md5' and rng.random() < 0.12:
        # the documented use of reset-dep, gone wrong half-way: the configured checker changes while a file
        # dependency of a task with saved state (and perhaps an ignore mark) is missing; reset-dep must record nothing
        # for that task -- and must not lose what is recorded; then the file comes back and a run follows
        with_dep = [i for i, t in enumerate(tasks) if any(p < nsrc for p in t['deps'])]
        if with_dep:
            t = rng.choice(with_dep)
            p = rng.choice([q for q in tasks[t]['deps'] if q < nsrc])
            if rng.random() < 0.5:
                ops.append(['ignore', [t]])
            ops.append(['checker', 'timestamp'])
            ops.append(['delete', p])
            ops.append(['reset', [] if rng.random() < 0.5 else [t]])
            if rng.random() < 0.7:
                cid += 7
                ops.append(['edit', p, cid % 190])
            if rng.random() < 0.5:
                ops.append(['touch', p])
            ops.append(gen_run(rng, tasks, 0.05))
    elif case['checker'] == 'md5' and rng.random() < 0.10:
        # the configured checker changes once (md5 -> timestamp: the direction in which no checker meets a state it
        # cannot read, findings/pending/C03-md5-on-timestamp-state.md)
        first_run = next((k for k, o in enumerate(ops) if o[0] == 'run'), len(ops) - 1)
        ops.insert(rng.randint(first_run + 1, len(ops)), ['checker', 'timestamp'])
    gen_file_state_knobs(rng, case)
    return sanitize_delayed_selection(case)


def gen_file_state_knobs(rng, case, p_mt=0.2, p_ck=0.3):
    """boundary mtimes / a user-written checker with a falsy state (see MT_BASES): which write of the history gets the
    special value is random -- mostly one of the initial source writes or a target written by the first run, so that
    the file is a file_dep of some task when run / reset-dep record its state"""
    ops = case['ops']
    early = sum(1 for op in ops[:case['nsrc']] if op[0] == 'edit')
    first = next((op for op in ops if op[0] == 'run'), None)
    early += len((first[1].get('plan') or {})) if first else 0
    x = rng.random()
    if x < p_mt * 0.6:
        case['mtimes'] = {'zero_at': rng.randint(1, max(1, early)) if rng.random() < 0.85 else rng.randint(1, early + 6)}
        if case['checker'] == 'md5' and not any(op[0] == 'checker' for op in ops) and rng.random() < 0.6:
            case['checker'] = 'timestamp'
    elif x < p_mt:
        case['mtimes'] = {'base': rng.choice(sorted(MT_BASES))}
    uses_ts = case['checker'] == 'timestamp' or any(op[0] == 'checker' for op in ops)
    if uses_ts and rng.random() < p_ck:
        case['ckfalsy'] = {'v': rng.randrange(len(FALSY_STATES)),
                           'at': rng.randint(1, max(1, early)) if rng.random() < 0.85 else rng.randint(1, early + 6)}
    return case


def mutate_case(rng, case):
    c = json.loads(json.dumps(case))
    c['backend'] = rng.choice(statuslib.BACKENDS)
    if rng.random() < 0.5:
        c['checker'] = rng.choice(statuslib.CHECKERS)
    n = len(c['tasks'])
    for _ in range(rng.randint(0, 2)):
        x = rng.random()
        pos = rng.randrange(len(c['ops']) + 1)
        if x < 0.3:
            c['ops'].insert(pos, gen_run(rng, c['tasks']))
        elif x < 0.5:
            c['ops'].insert(pos, ['forget', gen_forget(rng, n)])
        elif x < 0.65:
            c['ops'].insert(pos, ['ignore', gen_names(rng, n)])
        elif x < 0.8:
            c['ops'].insert(pos, ['reset', gen_names(rng, n)])
        elif len(c['ops']) > 2:
            del c['ops'][rng.randrange(len(c['ops']))]
    if not c.get('mtimes') and not c.get('ckfalsy'):
        gen_file_state_knobs(rng, c, p_mt=0.15, p_ck=0.2)
    return sanitize_delayed_selection(c)


# ----------------------------------------------------------------------------------------------
# small-scope exhaustive tier: fixed task sets x every short command history

def _t(deps=(), targets=(), task_dep=(), setup=(), utd=(), sub_of=None, group=False, calc_dep=()):
    return {'deps': list(deps), 'targets': list(targets), 'uptodate': [list(u) for u in utd],
            'task_dep': list(task_dep), 'setup': list(setup), 'sub_of': sub_of, 'group': group,
            'calc_dep': list(calc_dep)}


# nsrc = 1: f0 is the source, target of task i is f(1+i)
SMALL_SETS = [
    # chain through a setup edge and a task_dep edge
    [_t(deps=[0], targets=[1]), _t(deps=[0], setup=[0], targets=[2]), _t(deps=[0], task_dep=[1])],
    # group with two sub-tasks, a dependent of the group, a dependent of one sub-task
    [_t(group=True, task_dep=[1, 2]), _t(deps=[0], sub_of=0), _t(deps=[0], sub_of=0, setup=[1]),
     _t(deps=[0], task_dep=[0]), _t(deps=[0], task_dep=[2])],
    # implicit dependency (target -> file_dep) and an up-to-date intermediate
    [_t(deps=[0], targets=[1]), _t(deps=[1], targets=[2]), _t(deps=[2], utd=[['const', True]])],
    # diamond with setup + task_dep to the same task
    [_t(deps=[0]), _t(deps=[0], task_dep=[0]), _t(deps=[0], setup=[0]), _t(deps=[0], task_dep=[1], setup=[2])],
    # calc_dep: 1 gets calculated dependencies from 0 (which has its own dependency 3 over task_dep); 2 depends on 1
    [_t(deps=[0], task_dep=[3]), _t(deps=[0], calc_dep=[0]), _t(deps=[0], task_dep=[1]), _t(deps=[0])],
    # wave 4: a private group whose creator is delayed (@create_after(executed=t0)), value-saving uptodate helpers
    [_t(deps=[0]), dict(_t(group=True, task_dep=[2, 3]), private=True, delayed={'after': 0, 'creates': False}),
     _t(deps=[0], sub_of=1, utd=[['timeout']]), _t(deps=[0], sub_of=1, setup=[2], utd=[['cfgdict', 0]]),
     dict(_t(utd=[['ucalc']], task_dep=[1]), private=True)],
]

SMALL_CMDS = [
    ['forget', {'names': [], 'sub': False, 'all': False, 'dd': False}],
    ['forget', {'names': [], 'sub': True, 'all': False, 'dd': False}],
    ['forget', {'names': [1], 'sub': False, 'all': False, 'dd': False}],
    ['forget', {'names': [2], 'sub': True, 'all': False, 'dd': False}],
    ['forget', {'names': [1], 'sub': True, 'all': False, 'dd': False}],
    ['forget', {'names': [0], 'sub': False, 'all': False, 'dd': False}],
    ['forget', {'names': [], 'sub': False, 'all': True, 'dd': False}],
    ['ignore', [0]],
    ['ignore', [1]],
    ['reset', []],
    ['reset', [1]],
    ['delete', 0],
    ['edit', 0, 77],
    ['runfail', None],
    ['checker', 'timestamp'],
]


def exhaustive_cases(maxlen, rng, sample=None):
    cases = []
    k = 0
    for si, tasks in enumerate(SMALL_SETS):
        n = len(tasks)
        words = [[]]
        allw = []
        for _ in range(maxlen):
            words = [w + [c] for w in words for c in range(len(SMALL_CMDS))]
            allw += words
        if sample is not None and len(allw) > sample:
            allw = rng.sample(allw, sample)
        for w in allw:
            for default in ([None] if k % 3 else [None, [n - 1]]):
                ops = [['edit', 0, 5], ['run', {'sel': list(range(n)), 'always': False, 'cont': True, 'plan': {}}]]
                for c in w:
                    cmd = SMALL_CMDS[c]
                    if cmd[0] == 'runfail':
                        first = min(j for j in range(n) if not tasks[j].get('group'))
                        ops.append(['run', {'sel': list(range(n)), 'always': False, 'cont': True,
                                            'plan': {str(first): {'ok': False, 'writes': [], 'res': None}}}])
                    else:
                        ops.append(json.loads(json.dumps(cmd)))
                    if cmd[0] not in ('delete', 'edit', 'runfail', 'checker'):
                        ops.append(['run', {'sel': list(range(n)), 'always': False, 'cont': True, 'plan': {}}])
                ops.append(['run', {'sel': None, 'always': False, 'cont': True, 'plan': {}}])
                cases.append({'backend': statuslib.BACKENDS[k % 3], 'checker': statuslib.CHECKERS[(k // 3) % 2],
                              'db_loc': ['plain', 'subdir', 'abs', 'cli'][(k // 6) % 4], 'nsrc': 1, 'tasks': json.loads(json.dumps(tasks)), 'default': default, 'ops': ops,
                              'origin': 'exhaustive'})
                if k % 5 == 3:
                    cases[-1]['mtimes'] = {'zero_at': 1 + (k // 5) % 2}     # f0 (the source) / the first target written
                elif k % 5 == 1:
                    cases[-1]['mtimes'] = {'base': sorted(MT_BASES)[(k // 5) % len(MT_BASES)]}
                if cases[-1]['checker'] == 'timestamp' and (k // 6) % 3 == 1:
                    cases[-1]['ckfalsy'] = {'v': (k // 18) % len(FALSY_STATES), 'at': 1}
                sanitize_delayed_selection(cases[-1])
                k += 1
    return cases


# ----------------------------------------------------------------------------------------------
# workers

def nontrivial(r):
    """a history is non-trivial when a command changed the DB and a later run both skipped/ignored and executed"""
    changed = any(o['kind'] in ('forget', 'ignore', 'reset') and o['pre'] != o['db'] for o in r['obs'])
    outs = set(x for o in r['obs'] if o['kind'] == 'run' for _, x in o['steps'])
    return changed and bool(outs & set(EXECUTED)) and bool(outs & {'up-to-date', 'ignored'})


def strip(case):
    return {k: v for k, v in case.items() if k != 'origin'}


def process_batch(arg):
    import time
    deadline, shrink_budget, batch = arg
    st = WorkerStats()
    work = common.scratch_dir('c13')
    shrunk = 0
    found_shrunk, found_raw = [], []
    results = []
    for k in range(0, len(batch), 8):
        if time.time() > deadline:
            st.count('left-out-for-time', len(batch) - k)
            break
        results += evaluate([strip(c) for c in batch[k:k + 8]], work)
    for r in results:
        case = r['case']
        st.case({'case': render(case)}, nontrivial(r))
        st.traces += sum(1 for op in case['ops'] if op[0] in ('run', 'forget', 'ignore', 'reset'))
        st.count('backend:' + case['backend'])
        st.count('checker:' + case['checker'])
        st.count('tasks:%d' % len(case['tasks']))
        st.count('default_tasks:' + ('none' if case.get('default') is None else 'set'))
        st.count('graph-wf:%s' % r['wf'])
        if any(t.get('group') for t in case['tasks']):
            st.count('has-group')
        if any(t.get('calc_dep') for t in case['tasks']):
            st.count('has-calc-dep')
        for t in case['tasks']:
            for u in t['uptodate']:
                st.count('utd:' + u[0])
        for t in case['tasks']:
            if t.get('delayed'):
                st.count('delayed-creator:%s%s' % ('group' if t.get('group') else 'plain', ' creates=' if t['delayed'].get('creates') else ''))
        if any(t.get('private') for t in case['tasks']):
            st.count('has-private-task')
        st.count('db-loc:%s' % (case.get('db_loc') or 'plain'))
        mt = case.get('mtimes')
        if mt:
            st.count('real-mtimes:%s' % ('a write gets mtime 0' if mt.get('zero_at') is not None else 'start at ' + mt['base']))
        if case.get('ckfalsy'):
            st.count('checker-class:user-written, falsy state %r' % (FALSY_STATES[case['ckfalsy']['v']],))
        for op, o in zip(case['ops'], r['obs']):
            if o.get('falsy') and op[0] in ('run', 'reset', 'forget', 'ignore'):
                st.count('falsy-file-state-in-db-after:%s (%s)' % (op[0], 'user-written checker' if case.get('ckfalsy')
                                                                   else 'mtime 0'))
        if not any(o[0] == 'run' for o in case['ops'][:case['nsrc'] + 1]):
            st.count('first-command-on-missing-db')
        for op in case['ops']:
            if op[0] == 'forget':
                a = op[1]
                st.count('op:forget%s%s%s%s' % (' names' if a['names'] else ' no-names', ' -s' if a['sub'] else '',
                                                ' --all' if a['all'] else '', ' --disable-default' if a['dd'] else ''))
                for w_ in forget_argv(names_of(case), a)[1:]:
                    if w_.startswith('-'):
                        st.count('forget-option:' + w_)
            elif op[0] in ('ignore', 'reset'):
                st.count('op:%s%s' % (op[0], ' names' if op[1] else ' no-names'))
            else:
                st.count('op:' + op[0])
        for k, v in r['stats'].items():
            st.count(k, v)
        if r['viol'] or r['div']:
            did = False
            if shrunk < 1 and time.time() < deadline + 20:
                shrunk += 1
                did = True
                try:
                    known = any(sig(make_witness(case, r)) for sig in SIGNATURES.values()) if r['viol'] else False
                    small, r2 = shrink(case, work, budget=12 if known else shrink_budget)
                except Exception:  # noqa
                    small, r2 = case, r
            else:
                small, r2 = case, r
            if failure_key(r2) is None:
                small, r2 = case, r
            w = make_witness(small, r2)
            if r2['viol']:
                (found_shrunk if did else found_raw).append(
                    ('v', w, 'monitor:' + r2['viol'][0]['clause'],
                     'C13 statement false on the implementation: ' + r2['viol'][0]['detail']))
            else:
                (found_shrunk if did else found_raw).append(
                    ('d', w, None, 'correspondence M2+M8: ' + r2['div'][0]['what']))
    for kind, w, f, n in found_shrunk + found_raw:
        if kind == 'v':
            st.violation(w, f, n)
        else:
            st.divergence(w, n)
    shutil.rmtree(work, ignore_errors=True)
    return st


def run(ctx):
    rng = ctx.rng
    quick = ctx.tier == 'quick'
    cases = []
    corpus = []
    for name, c in common.load_corpus('C13'):
        base = c['case'] if 'case' in c else c
        if c.get('matrix'):
            for b in statuslib.BACKENDS:
                for ck in statuslib.CHECKERS:
                    corpus.append(dict(base, backend=b, checker=ck))
        else:
            corpus.append(base)
        ctx.count('corpus')
    cases += corpus
    n_random = (500 if quick else 9000) * ctx.boost
    for i in range(n_random):
        r = random.Random(rng.getrandbits(64))
        if corpus and r.random() < 0.12:
            cases.append(mutate_case(r, r.choice(corpus)))
            ctx.count('origin:corpus-mutation')
        else:
            cases.append(gen_case(r))
            ctx.count('origin:random')
    if quick:
        ex = exhaustive_cases(1, rng) + exhaustive_cases(2, rng, sample=40 * ctx.boost)
        ctx.extra['exhaustive_small_scope'] = {'task_sets': len(SMALL_SETS), 'alphabet': len(SMALL_CMDS),
                                               'max_len': 1, 'cases': len(ex), 'note': 'length 2 sampled in the quick tier'}
    else:
        ex = exhaustive_cases(2, rng) + exhaustive_cases(3, rng, sample=600)
        ctx.extra['exhaustive_small_scope'] = {'task_sets': len(SMALL_SETS), 'alphabet': len(SMALL_CMDS),
                                               'max_len': 2, 'cases': len(ex), 'note': 'length 3 sampled'}
    cases += ex
    import time
    size = max(8, len(cases) // (common.NCPU * 4))
    deadline = time.time() + max(10, ctx.time_left())
    # corpus first: batches are taken in order
    batches = [(deadline, 60 if quick else 150, cases[i:i + size]) for i in range(0, len(cases), size)]
    procs = min(common.NCPU, 8)
    for st in common.pmap(process_batch, batches, procs=procs):
        st.merge_into(ctx)


def search(ctx):
    ctx.rng.seed(ctx.seed * 1000003 + 7919)
    run(ctx)


def replay(ctx, data):
    w = data.get('witness') or {}
    case = w.get('case')
    if case is None:
        print('nothing to replay (no failing input was found): %s' % data.get('note'))
        return False
    case = strip(case)
    r = evaluate([case])[0]
    print('\n'.join(render(case)))
    for line in trace_of(case, r['obs']):
        print('  ' + line)
    for v in r['viol']:
        print('property fails at op %d [%s]: %s' % (v['op'], v['clause'], v['detail']))
    for d in r['div']:
        print('divergence at op %d: %s\n   implementation: %s\n   model         : %s' % (d['op'], d['what'], d['impl'], d['model']))
    return not r['viol'] and not (w.get('divergence') is not None and r['div'])
