"""C12 -- task selection yields exactly the requested closure   (model M8 + a little of M4/M1, DESIGN §5 C12)

(T) lean/DoitModel/Props/C12.lean  (model: Model/Sel.lean, lemmas: Proofs/Sel*.lean).
(K) generated task sets x argv x default_tasks x --single, driven two ways through the real code:
      api: loader.load_tasks -> TaskControl(tasks) -> process(argv or default_tasks): task_dep of every task after
           __init__ (wild-card expansion, implicit deps), selected list / InvalidCommand(not_found) / CmdParseError,
           pos_arg_val;
      cli: DoitMain(ModuleTaskLoader(ns)).run(['run', ['--single'], *argv]) on a fresh directory and DB with a recording
           reporter and recording actions (about a third of the runs with one of doit's own reporters -r json / zero /
           executed-only / console / error-only instead: then only the recording actions are observed): exit code,
           error class, set of tasks processed, tasks whose action ran,
           start order;
    each compared with the Lean model of the code as it is (`head`).
      dodo: the same case written as a real dodo file found through -f / --file= / --dir / -k / DOIT_FILE / DOIT_SEEK_FILE,
           `python -m doit` started as a subprocess from another directory (proj/sub, the root, work/): same observables
           plus the working directory the actions saw;
      run_tasks: doit.api.run_tasks(loader, {name: {}, ...}) (no command line: names are not filtered, errors are raised);
    the command line of the cli/dodo tiers loses its name=value words before selection (Sel.stripVars / planCli);
(P) the Lean predicate `DoitModel.Sel.monitor` (the statement: exit 3 and nothing processed when the selection does not
    resolve; else exit 0, processed set == closure of the *specified* selection -- with --single after dropping the task
    dependencies of the named tasks --, order clause) evaluated by the driver on the observations of the cli run; on the
    api run: selected list == specified selection.
"""
import shutil
import itertools
import json
import random

import common
import sellib
from common import WorkerStats, canon

META = {
    'property': 'C12',
    'lean_props': ['DoitModel.Props.C12'],
    'level': 'proof',
    'budget': {'quick': 40, 'thorough': 480},
    'anchors': ['doit/control.py::TaskControl.__init__', 'doit/control.py::TaskControl.set_implicit_deps',
                'doit/control.py::TaskControl.add_implicit_task_dep', 'doit/control.py::TaskControl._get_wild_tasks',
                'doit/control.py::TaskControl._process_filter', 'doit/control.py::TaskControl._filter_tasks',
                'doit/control.py::TaskControl.process', 'doit/cmd_run.py::Run._execute',
                'doit/cmd_base.py::DoitCmdBase.execute', 'doit/task.py::Task.init_options',
                'doit/task.py::Task._expand_task_dep', 'doit/loader.py::_generate_task_from_yield'],
    'technique': 'Lean 4 proofs about an executable model of selection (function = declarative relation, the whole of '
                 'fnmatch proved equal to an inductive matching relation, fuel '
                 'sufficiency, --single invariant, closure = least closed set, order clause by a phase invariant of the '
                 'serial dispatcher in the run model M1) + differential correspondence through '
                 'TaskControl.process and the run command + Lean monitor on observed runs',
    'design_ref': '§5 C12, §4 M8',
    'level_text': 'Machine-checked: the model of TaskControl._process_filter/_filter_tasks selects exactly what the '
                  'declarative relation Resolves prescribes (names, targets -> producer, `*` patterns -> all matching '
                  'names in definition order (the matcher is all of fnmatch: glob_spec_full), options after a task name consumed by its parser, sub-task of a delayed '
                  'task; a task named again is selected again and parses nothing), and errs iff the '
                  'arguments do not resolve; --single empties the task_dep of every named task (of the sub-tasks for a '
                  'group) and keeps all named tasks; no argument => default_tasks else all tasks in definition order; '
                  'the processed set is the least set closed under task_dep/calc_dep/setup-of-running-tasks; the serial '
                  'dispatcher (run model M1) starts a later-selected task before an earlier-selected one only if it is in '
                  'the closure of the tasks selected up to the earlier one. The model '
                  'is tied to doit on every run by driving TaskControl.process and the run command on generated and '
                  'exhaustively enumerated small cases; the Lean monitor evaluates the full statement on the observed '
                  'runs (exit code, processed set, start order).',
    'level_note': 'filter_spec is at full strength since /repo dcfe778 (F-C12b); the behaviour before that fix and '
                  'before 07d690a is kept as reinit_counterexample / pinned_single_counterexample. The order clause is a theorem about the dispatcher itself (order_full / order_run_model, on the run model M1): in every reachable state of every serial run whose edges are edges of the static graph (Represents), a selected task overtakes an earlier selected task a only if it is reachable - transitively, over task_dep, calc_dep, calc results and setup-tasks of tasks that run - from a task selected no later than a; order (for start orders satisfying the chunk abstraction chunkedB) is kept, but chunkedB itself is not an invariant of the run model (chunk_not_invariant: a failing dependency under --continue) and is only compared on the observed runs. Closure '
                  'completeness is unconditional (closure_closed: ts.length expansion rounds reach the fixed point); the '
                  'certificate closedB is still evaluated by the driver on every case. fnmatch is modelled completely (`*`, `?`, bracket classes as CPython 3.12 fnmatch.translate reads them; glob_spec_full) and compared directly with fnmatch.fnmatchcase and TaskControl._get_wild_tasks; getopt for short clusters and '
                  'exact long names; delayed tasks only at the TaskControl tier; regex targets not modelled.',
    'rule': 'task sets of 1-5 creators (plain tasks, groups with 1-3 sub-tasks, targets some of which are spelled like '
            'task names, names sharing prefixes, literal names made of glob metacharacters `[` `]` `?` (also in task_dep), '
            'params/pos_arg, uptodate tasks, wild-card/setup/calc/implicit deps, '
            'acyclic) x argv of names, group names, sub-task names, targets, patterns matching 0..n names, unknown '
            'names, name=value words and the empty word, file names written ./x, absolute or as pathlib.Path (targets, '
            'file_dep, command line) (also ones made of format metacharacters `{}` `{0}` `%s` `%(x)s`), option tokens x default_tasks x '
            '--single; plus all argv of length <= 3 over a 9-token alphabet on '
            'fixed 3-4 task sets; non-trivial = the selection has >= 2 entries, or uses a pattern/target/option, or '
            'is rejected; distinct = distinct canonical case',
    'assumptions': ['file names are compared as written (a, ./a, absolute are different names for selection by target, '
                    'implicit task_dep and duplicate targets); a pathlib.Path entry stands for str(path) (pathlib\'s '
                    'normal form, computed by the harness with PurePosixPath)',
                    'name=value words (not starting with `-`) on the command line are command-line variables and are '
                    'taken out before selection, also where meant as a detached option value (documented feature; '
                    'modelled as the code does: Sel.stripVars)',
                    'patterns use only `*`, `?` and literal characters', 'task option tokens: short clusters, exact long '
                    'names (no unique-prefix abbreviations, no inverse options)',
                    'all actions succeed on a fresh DB; calc_dep tasks return no values (static graph)',
                    '--single on a group whose own task_dep lists more than its sub-tasks: every entry is treated like a '
                    'sub-task (kept, its task_dep dropped) as the code does; the property text does not decide this case',
                    'no target_regex / --auto-delayed-regex'],
    'trusted': ['getopt abbreviations: not exercised; fnmatch: POSIX only (os.path.normcase is the identity), the interpreter\'s fnmatch.translate is the one of CPython 3.12',
                'the translation of a generated task set into model tasks (sellib.model_tasks) is checked against the '
                'real loader only through the compared observables'],
    'models': ['M8', 'M4', 'M1'],
}


def sig_repeated(w):
    """F-C12b (fixed in /repo by dcfe778; no longer a known finding, only a label in replays): on an argv that names a
    task again the implementation selected what the *pinned* model selects."""
    return bool(w.get('reinit')) and bool(w.get('impl_matches_pinned'))


def sig_empty_word(w):
    """F-C12-empty-word-crash (fixed in /repo by 0ab6253; only a label in replays): the command line contains an empty
    word and IndexError escaped DoitMain.run, as the pinned model (Sel.pinnedCliArgs) says"""
    return bool(w.get('empty_word_crash'))


SIGNATURES = {}


# ----------------------------------------------------------------------------------------------

def cli_eligible(case):
    if any(t.get('delayed') for t in case['tasks']):
        return False
    # the first word that reaches the `run` command must not look like one of its own options
    if case.get('entry') == 'run_tasks':
        return True
    rest = [a for a in case['argv'] if not (a and a[0] != '-' and '=' in a)]
    if rest and rest[0].startswith('-'):
        return False
    return True


def norm_deps_impl(deps, model_deps):
    """task_dep after __init__: explicit + wild-card part in order, implicit part (from a set) sorted"""
    out = []
    exp = {d[0]: len(d[1]) for d in model_deps}
    for name, lst in deps:
        k = exp.get(name, len(lst))
        out.append([name, lst[:k], sorted(lst[k:])])
    return out


def norm_deps_model(model_deps):
    return [[n, fin[:len(exp)], sorted(fin[len(exp):])] for n, exp, fin in model_deps]


def evaluate(cases, workdir, want_cli=True):
    """run api (+cli) on every case, ask the driver once, return one dict per case"""
    impl = []
    for case in cases:
        api = sellib.impl_control(case)
        if not (want_cli and cli_eligible(case)):
            cli = None
        elif case.get('layout'):
            cli = sellib.impl_dodo(case, workdir)     # a real dodo file, `python -m doit` started somewhere else
        else:
            cli = sellib.impl_cli(case, workdir)
        impl.append((api, cli))
    reqs = [sellib.request(c, sellib.obs_for_monitor(cli) if cli else None) for c, (api, cli) in zip(cases, impl)]
    answers = common.drv_batch(reqs)
    res = []
    for case, (api, cli), m in zip(cases, impl, answers):
        r = {'case': case, 'api': api, 'cli': cli, 'model': m, 'div': [], 'viol': []}
        res.append(r)
        if 'error' in m:
            r['div'].append('driver: %s' % m['error'])
            continue
        head, spec = m['head'], m['spec']
        reinit = bool(m.get('reinit'))
        # ---- (K) api
        if 'deps' in api:
            if norm_deps_impl(api['deps'], m['deps']) != norm_deps_model(m['deps']):
                r['div'].append('api: task_dep after TaskControl.__init__ differ')
        api_head_ok = api.get('sel') == head['sel']
        if not api_head_ok:
            r['div'].append('api: process() gave %s, model of the code %s' % (api.get('sel'), head['sel']))
        if api.get('sel', [''])[0] == 'ok' and sorted(api.get('pos', [])) != sorted(m['pos']):
            r['div'].append('api: pos_arg_val %s, model %s' % (api.get('pos'), m['pos']))
        # ---- (P) api: the selected list is the specified one; rejected iff it does not resolve
        a, s = api.get('sel', ['?']), spec['sel']
        if (a[0] == 'ok') != (s[0] == 'ok') or (a[0] == 'ok' and a[1] != s[1]):
            r['viol'].append({'tier': 'api', 'failed': ['selected-list'], 'impl': a, 'expected': s,
                              'reinit': reinit, 'impl_matches_head': api_head_ok,
                              'impl_matches_pinned': a == (m.get('pinned') or {}).get('sel')})
        # ---- cli
        if cli is not None:
            # the command line loses its name=value words before selection (Sel.planCli)
            head = m['cli']
            exp_exit = 0 if head['sel'][0] == 'ok' else 3
            cli_ok = True
            if cli['exit'] != exp_exit:
                cli_ok = False
                r['div'].append('cli: exit %s, model %s (%s)' % (cli['exit'], exp_exit, cli['error']))
            elif exp_exit == 0:
                want = list(head['closure'])
                if cli.get('actions_only'):
                    # one of doit's own reporters: only tasks whose action runs are observed
                    silent = set(t['name'] for t in sellib.model_tasks(case) if t['has_subtask'] or t['utd'])
                    want = [n for n in want if n not in silent]
                if sorted(cli['processed']) != sorted(want):
                    cli_ok = False
                    r['div'].append('cli: processed %s, model closure %s' % (sorted(cli['processed']), sorted(want)))
            else:
                kind = head['sel'][:2] if head['sel'][0] == 'notFound' else head['sel'][:1]
                if cli['error'] != kind:
                    cli_ok = False
                    r['div'].append('cli: error %s, model %s' % (cli['error'], kind))
                if cli['processed'] or cli['ran']:
                    cli_ok = False
            if cli['exit'] == 0 and exp_exit == 0:
                # options / positional values seen by the actions of tasks named on the command line
                for name, vals in m['cli_pos']:
                    if name in cli['kwargs'] and [sellib.unsub(v) for v in (cli['kwargs'][name].get('pos') or [])] != vals:
                        r['div'].append('cli: %s received pos=%s, model %s' % (name, cli['kwargs'][name].get('pos'), vals))
            if cli.get('cwds') is not None and [c for c in cli['cwds'] if c != cli['expected_cwd']]:
                r['div'].append('dodo: actions ran in %s, expected %s (layout %s)'
                                % (cli['cwds'], cli['expected_cwd'], case.get('layout')))
            if cli_ok and exp_exit == 0 and m.get('chunked') is False:
                r['div'].append('cli: the serial start order %s does not work the selection %s off one task after the '
                                'other (abstraction chunkedB of the dispatcher)' % (cli['started'], head['sel'][1]))
            mon = m.get('monitor', [])
            if mon:
                r['viol'].append({'tier': 'cli', 'failed': mon, 'impl': {k: cli[k] for k in ('exit', 'error', 'processed', 'started', 'ran')},
                                  'expected': head, 'reinit': reinit, 'impl_matches_head': cli_ok and api_head_ok,
                                  'empty_word_crash': bool(m.get('pinned_cli_crash')) and cli['exit'] == ['exc', 'IndexError'],
                                  'impl_matches_pinned': api.get('sel') == (m.get('pinned') or {}).get('sel')})
    return res


def nontrivial(case, m):
    sel = (m.get('spec') or {}).get('sel') or ['?']
    if sel[0] != 'ok':
        return True
    if len(sel[1]) >= 2:
        return True
    toks = list(case['argv']) or list(case.get('default') or [])
    targets = [tg for t in sellib.flat_defs(case) for tg in sellib.mtargets(t[1])]
    return any(('*' in a) or a.startswith('-') or a in targets for a in toks)


def classify(case, m, st):
    toks = list(case['argv']) or list(case.get('default') or [])
    names = sellib.all_names(case)
    groups = [t['name'] for t in case['tasks'] if t.get('subs') is not None]
    targets = [tg for t in sellib.flat_defs(case) for tg in sellib.mtargets(t[1])]
    st.count('ntasks:%d' % min(8, len(names)))
    st.count('argv_len:%d' % min(6, len(case['argv'])))
    st.count('source:%s' % ('argv' if case['argv'] else 'default_tasks' if case.get('default') is not None else 'all'))
    if case.get('single'):
        st.count('single')
    st.count('reporter:%s' % (case.get('reporter') or 'recording') +
             ('' if case.get('reporter') is None else '(%s)' % case.get('reporter_via')))
    if any(ch in n for n in names for ch in '[]?'):
        st.count('names-with-glob-metachars')
    if any(ch in dep for t in sellib.flat_defs(case) for dep in (t[1].get('task_dep') or []) for ch in '[]?' if '*' not in dep):
        st.count('task_dep-on-name-with-glob-metachars')
    for a in toks:
        if '*' in a:
            import fnmatch
            k = len([n for n in names if fnmatch.fnmatchcase(n, a)])
            st.count('arg:pattern-matching-%s' % (k if k < 3 else '3+'))
            if '[' in a:
                st.count('arg:bracket-pattern-matching-%s' % (k if k < 3 else '3+'))
        elif '[' in a and a not in names and a not in targets:
            st.count('arg:bracket-word-without-star(literal, not a pattern)')
        elif a in groups:
            st.count('arg:group')
        elif a in names:
            st.count('arg:subtask' if ':' in a else 'arg:name')
        elif a in targets:
            st.count('arg:target')
        elif a == '':
            st.count('arg:empty-word')
        elif a.startswith('-'):
            st.count('arg:option-token')
        elif '=' in a and case['argv']:
            st.count('arg:name=value-word')
        else:
            st.count('arg:other(unknown/value)')
            if any(ch in a for ch in '{}%'):
                st.count('arg:unknown-with-format-metachars')
    for full, d, grp, is_group in sellib.flat_defs(case):
        for key in ('task_dep', 'setup', 'calc_dep', 'file_dep', 'targets', 'params'):
            if d.get(key):
                st.count('attr:' + key)
        for key in ('pos_arg', 'utd', 'delayed'):
            if d.get(key):
                st.count('attr:' + key)
        if any('*' in x for x in d.get('task_dep', [])):
            st.count('attr:wild_dep')
        for x in d.get('task_dep', []):
            if '*' in x and '[' in x:
                import fnmatch
                k = len([n for n in names if fnmatch.fnmatchcase(n, x)])
                st.count('attr:wild_dep-with-bracket-matching-%s' % (k if k < 3 else '3+'))
    def form(e):
        if isinstance(e, dict):
            return 'Path'
        return 'abs' if e.startswith(sellib.ABS) else 'dot-slash' if e.startswith('./') else 'plain'

    def fileid(e):
        b = sellib.mstr(e)
        b = b[len(sellib.ABS) + 1:] if b.startswith(sellib.ABS + '/') else b
        while b.startswith('./') or b.startswith('/'):
            b = b[1:] if b.startswith('/') else b[2:]
        return b
    decl = {}
    for full, d, grp, is_group in sellib.flat_defs(case):
        for e in (d.get('targets') or []) if not is_group else []:
            if form(e) != 'plain':
                st.count('target-form:' + form(e))
            decl[fileid(e)] = sellib.mstr(e)
    for full, d, grp, is_group in sellib.flat_defs(case):
        for e in (d.get('file_dep') or []) if not is_group else []:
            if form(e) == 'Path':
                st.count('file_dep-form:Path')
            if fileid(e) in decl and decl[fileid(e)] != sellib.mstr(e):
                st.count('file_dep-spelled-differently-from-the-target')
    for a in toks:
        if a not in targets and fileid(a) in decl and a not in names:
            st.count('arg:target-file-under-another-spelling')
    if 'spec' in m:
        st.count('spec:%s' % m['spec']['sel'][0])
        st.count('head:%s' % m['head']['sel'][0])
        if m.get('reinit'):
            st.count('argv names a task again after its options were initialised')
        for k in ('head', 'spec'):
            if 'closed' in m[k]:
                st.count('closure-certificate closedB:%s' % m[k]['closed'])
        if m['spec']['sel'][0] == 'ok':
            st.count('closure_size:%d' % min(8, len(m['spec']['closure'])))
            if set(m['spec']['closure']) - set(m['spec']['sel'][1]):
                st.count('closure-adds-dependencies')


# ----------------------------------------------------------------------------------------------
# shrinking

def _strip_refs(tasks, gone):
    for full, d, grp, is_group in sellib.flat_defs({'tasks': tasks}):
        for key in ('task_dep', 'setup', 'calc_dep'):
            if d.get(key):
                d[key] = [x for x in d[key] if x not in gone]


def shrink_candidates(case):
    c = json.loads(json.dumps(case))
    for i in range(len(c['argv'])):
        yield dict(c, argv=c['argv'][:i] + c['argv'][i + 1:])
    if c.get('default') is not None:
        for i in range(len(c['default'])):
            yield dict(c, default=c['default'][:i] + c['default'][i + 1:])
        yield dict(c, default=None)
    if c.get('single'):
        yield dict(c, single=False)
    if c.get('entry'):
        c_no = dict(c)
        c_no.pop('entry')
        yield c_no
    if c.get('reporter') is not None:
        yield dict(c, reporter=None)
    if c.get('layout') not in (None, 'plain'):
        yield dict(c, layout='plain')
    if c.get('lopts_after'):
        yield dict(c, lopts_after=False)
    for i, t in enumerate(c['tasks']):
        c2 = json.loads(json.dumps(c))
        t2 = c2['tasks'].pop(i)
        gone = [t2['name']] + ['%s:%s' % (t2['name'], s['name']) for s in (t2.get('subs') or [])]
        _strip_refs(c2['tasks'], gone)
        yield c2
        for j in range(len(t.get('subs') or [])):
            c2 = json.loads(json.dumps(c))
            s2 = c2['tasks'][i]['subs'].pop(j)
            _strip_refs(c2['tasks'], ['%s:%s' % (t['name'], s2['name'])])
            if c2['tasks'][i]['subs']:
                yield c2
    defs = sellib.flat_defs(c)
    for k in range(len(defs)):
        for key in ('task_dep', 'setup', 'calc_dep', 'file_dep', 'targets', 'params'):
            if defs[k][1].get(key):
                for idx in range(len(defs[k][1][key])):
                    c2 = json.loads(json.dumps(c))
                    d2 = sellib.flat_defs(c2)[k][1]
                    d2[key] = d2[key][:idx] + d2[key][idx + 1:]
                    yield c2
        for key in ('pos_arg', 'utd'):
            if defs[k][1].get(key):
                c2 = json.loads(json.dumps(c))
                sellib.flat_defs(c2)[k][1][key] = False
                yield c2


def violation_kind(r):
    """(is known finding, tier, first failed clause) of the first violation of an evaluated case, or None"""
    if not r['viol']:
        return None
    v = r['viol'][-1] if any(x['tier'] == 'cli' for x in r['viol']) else r['viol'][0]
    return (False, v['tier'], tuple(v['failed']))


def shrink(case, workdir, budget=60):
    r0 = evaluate([case], workdir)[0]
    kind = violation_kind(r0)
    if kind is None:
        return case, r0
    cur, cur_r = case, r0
    steps = 0
    progress = True
    while progress and steps < budget:
        progress = False
        for cand in shrink_candidates(cur):
            if not cand['tasks'] or not sellib.valid_case(cand):      # keep a dodo with at least one task
                continue
            steps += 1
            if steps >= budget:
                break
            r = evaluate([cand], workdir, want_cli=(kind[1] == 'cli'))[0]
            if violation_kind(r) == kind:
                cur, cur_r = cand, r
                progress = True
                break
    if kind[1] != 'cli' and cur_r.get('cli') is None:
        cur_r = evaluate([cur], workdir)[0]
    return cur, cur_r


def make_witness(case, r):
    vs = r['viol']
    v = [x for x in vs if x['tier'] == 'cli'][:1] or vs[:1]
    v = v[0]
    w = {'case': case, 'rendered': sellib.render(case), 'tier': v['tier'], 'failed': v['failed'], 'impl': v['impl'],
         'expected': v['expected'], 'reinit': v['reinit'], 'impl_matches_head': v['impl_matches_head'],
         'impl_matches_pinned': v.get('impl_matches_pinned'), 'empty_word_crash': v.get('empty_word_crash', False),
         'model_of_code': r['model'].get('head')}
    return w


# ----------------------------------------------------------------------------------------------

def process_batch(batch):
    st = WorkerStats()
    work = common.scratch_dir('c12')
    shrunk = shrunk_known = 0
    found_shrunk, found_raw = [], []
    for r in evaluate(batch, work):
        case, m = r['case'], r['model']
        st.case({'case': sellib.render(case)}, nontrivial(case, m))
        classify(case, m, st)
        st.traces += 1 + (1 if r['cli'] is not None else 0)
        st.count('tier:api')
        if r['cli'] is not None and case.get('layout'):
            st.count('tier:dodo-file')
            st.count('dodo-layout:%s%s' % (case['layout'], '(options after run)' if case.get('lopts_after') else ''))
            st.count('cli-exit:%s' % r['cli']['exit'])
        elif r['cli'] is not None and case.get('entry') == 'run_tasks':
            st.count('tier:api-run_tasks')
        elif r['cli'] is not None:
            st.count('tier:cli')
            st.count('cli-exit:%s' % r['cli']['exit'])
        if r['viol']:
            known = violation_kind(r)[0]
            # shrink the first few of each kind a worker meets; the rest are reported as found
            did = False
            if (known and shrunk_known < 1) or (not known and shrunk < 2):
                if known:
                    shrunk_known += 1
                else:
                    shrunk += 1
                did = True
                small, r2 = shrink(case, work, budget=40)
            else:
                small, r2 = case, r
            w = make_witness(small, r2) if r2['viol'] else make_witness(case, r)
            (found_shrunk if did else found_raw).append(
                (w, 'monitor', 'C12 statement false on the implementation (%s tier): %s' % (w['tier'], w['failed'])))
        else:
            for d in r['div']:
                st.divergence({'case': case, 'rendered': sellib.render(case), 'api': r['api'],
                               'cli': r['cli'] and {k: r['cli'][k] for k in ('exit', 'error', 'processed', 'ran')},
                               'model_of_code': m.get('head')}, 'correspondence M8: ' + d)
    for w, f, n in found_shrunk + found_raw:       # shrunk witnesses first: they become the replay files
        st.violation(w, f, n)
    # this runs in a forked pmap worker: common.cleanup_scratch() of the parent never sees the directory
    shutil.rmtree(work, ignore_errors=True)
    return st


# fixed task sets of the exhaustive small-scope tier (<= 4 creators)
def _t(name, **kw):
    d = {'name': name, 'task_dep': [], 'setup': [], 'calc_dep': [], 'file_dep': [], 'targets': [], 'params': [],
         'pos_arg': False, 'utd': False, 'delayed': False, 'subs': None}
    d.update(kw)
    return d


SMALL_SETS = [
    # names sharing a prefix, a target spelled like a task name, a dependency
    ([_t('a', targets=['b']), _t('ab', task_dep=['a']), _t('b', params=['flag'])],
     ['a', 'ab', 'b', 'a*', '*b', 'zz*', 'nosuch', '-f', 'a?']),
    # group with sub-tasks, setup, pattern over sub-tasks
    ([_t('g', subs=[_t('s1'), _t('s2', task_dep=['x'])]), _t('x'), _t('y', setup=['x'], task_dep=['g:s1'])],
     ['g', 'g:s1', 'g:s2', 'g:*', 'x', 'y', '*', 'g:s3', '?']),
    # options and positional arguments
    ([_t('p', params=['val', 'flag']), _t('q', pos_arg=True, task_dep=['p']), _t('r', targets=['out.o'], file_dep=[])],
     ['p', 'q', 'r', '-v', '-f', 'out.o', '--', 'p*', 'nosuch']),
    # implicit dependency through a target, uptodate task with setup, calc_dep
    ([_t('mk', targets=['o1.out']), _t('use', file_dep=['o1.out']), _t('u', utd=True, setup=['mk'], task_dep=['use']),
      _t('c', calc_dep=['mk'], task_dep=['u*'])],
     ['mk', 'use', 'u', 'c', 'o1.out', 'u*', '*', 'mk?', 'mk{}']),
    # literal names made of glob metacharacters, used in task_dep: only `*` makes a pattern
    ([_t('c[1]'), _t('c1'), _t('c?'), _t('u', task_dep=['c[1]']), _t('v', task_dep=['c?'], setup=['c1'])],
     ['u', 'v', 'c[1]', 'c?', 'c1', 'c*', 'c??*', '*', 'c[2]']),
    # bracket classes: `c[ab]*` is a pattern (ca, cb - not the task literally named c[ab]); `c[ab]` without `*` is that task
    ([_t('c[ab]'), _t('ca'), _t('cb', params=['flag']), _t('u', task_dep=['c[ab]*']), _t('v', task_dep=['c[ab]'], setup=['u']),
      _t('w]', task_dep=['c[!a]*'])],
     ['u', 'c[ab]', 'c[ab]*', 'c[!a-b]*', '*[]]', 'c[b-a!]*', '[*', '[u-w]*', 'c[a-]']),
]


def exhaustive_cases(maxlen, rng, sample=None):
    out = []
    for tasks, alphabet in SMALL_SETS:
        for n in range(0, maxlen + 1):
            for argv in itertools.product(alphabet, repeat=n):
                for single in (False, True):
                    out.append({'tasks': tasks, 'argv': list(argv), 'default': None, 'single': single})
        for dflt in ([], alphabet[:1], alphabet[1:3], [alphabet[3], alphabet[0]], ['nosuch']):
            for argv in ([], alphabet[2:3]):
                out.append({'tasks': tasks, 'argv': argv, 'default': dflt, 'single': False})
                out.append({'tasks': tasks, 'argv': argv, 'default': dflt, 'single': False, 'reporter': 'json',
                            'reporter_via': 'config'})
        # the order clause under doit's own reporters (start order from the recording actions)
        for n in range(0, min(maxlen, 2) + 1):
            for argv in itertools.product(alphabet, repeat=n):
                for rep, via in (('json', 'short'), ('zero', 'config')):
                    out.append({'tasks': tasks, 'argv': list(argv), 'default': None, 'single': False, 'reporter': rep,
                                'reporter_via': via})
    if sample is not None and len(out) > sample:
        out = rng.sample(out, sample)
    return out


# ----------------------------------------------------------------------------------------------
# the matcher alone: Sel.glob  ==  fnmatch.fnmatchcase  ==  TaskControl._get_wild_tasks  (wave 5)

FN_SMALL = 'ab-][!*?'
FN_WIDE = 'abcz19-][!*?\\^ &~|.:_'


def fn_feature(pat):
    """which part of fnmatch.translate a pattern reaches (label for the evidence distribution)"""
    i = pat.find('[')
    if i < 0:
        return 'no-bracket'
    j = i + 1
    if pat[j:j + 1] == '!':
        j += 1
    if pat[j:j + 1] == ']':
        j += 1
    j = pat.find(']', j)
    if j < 0:
        return 'unterminated-bracket(literal)'
    body = pat[i + 1:j]
    lab = 'class'
    if body.startswith('!'):
        lab += '-negated'
    if body.lstrip('!').startswith(']'):
        lab += '-]first'
    if '-' in body:
        lab += '-hyphen'
    if '\\' in body:
        lab += '-backslash'
    return lab


def fn_instance(rng, pat):
    """a name shaped like the pattern (often matches, often just misses): `*` -> a short string, `?` -> a character,
    `[` -> a character of the text up to the next `]` or any character, anything else mostly itself"""
    out = []
    i = 0
    while i < len(pat):
        c = pat[i]
        i += 1
        if c == '*':
            out.append(''.join(rng.choice(FN_WIDE) for _ in range(rng.choice([0, 0, 1, 2]))))
        elif c == '?':
            out.append(rng.choice(FN_WIDE))
        elif c == '[' and rng.random() < 0.8:
            j = pat.find(']', i + 1)
            if j < 0:
                out.append('[')
            else:
                body = pat[i:j]
                r = rng.random()
                if r < 0.5 and body:
                    out.append(rng.choice(body))
                elif r < 0.7 and body:
                    out.append(chr(min(126, max(32, ord(rng.choice(body)) + rng.choice([-1, 1])))))
                else:
                    out.append(rng.choice(FN_WIDE))
                i = j + 1
        else:
            out.append(c if rng.random() < 0.93 else rng.choice(FN_WIDE))
    return ''.join(out)


def fn_pairs(tier, rng, boost):
    """[(pattern, [names])]: exhaustive over the small alphabet, random over a wider one"""
    plen, nlen = (4, 3) if tier == 'thorough' else (3, 2)
    names = [''.join(t) for n in range(0, nlen + 1) for t in itertools.product(FN_SMALL, repeat=n)]
    out = [(''.join(t), names) for n in range(0, plen + 1) for t in itertools.product(FN_SMALL, repeat=n)]
    exhaustive = len(out)
    for _ in range((1500 if tier == 'quick' else 60000) * boost):
        n = rng.choice([2, 3, 4, 5, 5, 6, 7, 8])
        pat = ''.join(rng.choice(FN_WIDE if rng.random() < 0.6 else 'ab-]![') for _ in range(n))
        if rng.random() < 0.7:
            # force a closed class somewhere
            k = rng.randrange(len(pat) + 1)
            body = ''.join(rng.choice('abz19-]!\\^-') for _ in range(rng.choice([1, 2, 3, 3, 4, 5])))
            if rng.random() < 0.3:
                body = '!' + body
            pat = pat[:k] + '[' + body + ']' + pat[k:]
        ns = [''.join(rng.choice(FN_WIDE) for _ in range(rng.choice([0, 1, 1, 2, 2, 3]))) for _ in range(10)]
        ns += [fn_instance(rng, pat) for _ in range(14)]
        out.append((pat, ns))
    return out, exhaustive


def fn_batch(batch):
    """one worker: the model's glob against fnmatchcase and against doit's own TaskControl._get_wild_tasks"""
    import fnmatch
    import warnings
    common.use_repo()
    from doit.control import TaskControl
    from doit.task import Task
    st = WorkerStats()
    ans = common.drv_batch([{'model': 'sel', 'op': 'glob', 'pattern': p, 'names': ns} for p, ns in batch])
    tcs = {}
    with warnings.catch_warnings():
        warnings.simplefilter('ignore')
        for (pat, ns), a in zip(batch, ans):
            model = a['match']
            py = [fnmatch.fnmatchcase(n, pat) for n in ns]
            st.count('fnmatch-direct:patterns')
            st.count('fnmatch-direct:pairs', len(ns))
            st.count('fnmatch-direct:pairs-matching', sum(1 for x in py if x))
            st.count('fnmatch-direct:%s' % fn_feature(pat))
            if py != model:
                k = [i for i in range(len(ns)) if py[i] != model[i]][0]
                st.divergence({'fnmatch': {'pattern': pat, 'name': ns[k], 'fnmatchcase': py[k], 'model_glob': model[k]}},
                              'correspondence M8: Sel.glob %r %r = %s, fnmatch.fnmatchcase says %s'
                              % (pat, ns[k], model[k], py[k]))
                continue
            # doit's own use of the matcher (names that can be task names: no `=`; the empty name is left out)
            tn = [n for n in dict.fromkeys(ns) if n and '=' not in n]
            key = id(ns)
            if key not in tcs:
                tcs[key] = (ns, TaskControl([Task(n, None) for n in tn]))
            got = tcs[key][1]._get_wild_tasks(pat)
            want = [n for n in tn if model[ns.index(n)]]
            st.count('fnmatch-direct:_get_wild_tasks-calls')
            if got != want:
                st.divergence({'fnmatch': {'pattern': pat, 'names': tn, '_get_wild_tasks': got, 'model_wild': want}},
                              'correspondence M8: TaskControl._get_wild_tasks(%r) over %s = %s, model Sel.wild %s'
                              % (pat, tn, got, want))
    return st


def fnmatch_direct(ctx):
    pairs, exhaustive = fn_pairs(ctx.tier, random.Random(ctx.rng.getrandbits(64)), ctx.boost)
    ctx.extra['fnmatch_direct'] = {'alphabet': FN_SMALL, 'exhaustive_patterns': exhaustive,
                                   'max_pattern_len': 4 if ctx.tier == 'thorough' else 3,
                                   'max_name_len': 3 if ctx.tier == 'thorough' else 2, 'random_patterns': len(pairs) - exhaustive}
    size = max(50, len(pairs) // (common.NCPU * 4))
    for st in common.pmap(fn_batch, [pairs[i:i + size] for i in range(0, len(pairs), size)]):
        st.merge_into(ctx)


def replay_fnmatch(f):
    import fnmatch
    common.use_repo()
    from doit.control import TaskControl
    from doit.task import Task
    pat = f['pattern']
    names = f.get('names') or [f['name']]
    a = common.drv_batch([{'model': 'sel', 'op': 'glob', 'pattern': pat, 'names': names}])[0]['match']
    py = [fnmatch.fnmatchcase(n, pat) for n in names]
    tn = [n for n in names if n and '=' not in n]
    got = TaskControl([Task(n, None) for n in tn])._get_wild_tasks(pat)
    want = [n for n, m in zip(names, a) if m and n in tn]
    print('pattern %r  names %s' % (pat, names))
    print('fnmatch.fnmatchcase          :', py)
    print('model Sel.glob               :', a)
    print('TaskControl._get_wild_tasks  :', got)
    print('model Sel.wild               :', want)
    ok = py == a and got == want
    if not ok:
        print('divergence: the matcher of the implementation and the model differ')
    return ok


def run(ctx):
    rng = ctx.rng
    cases = []
    for name, c in common.load_corpus('C12'):
        cases.append(c['case'] if 'case' in c else c)
        ctx.count('corpus')
    n_random = (600 if ctx.tier == 'quick' else 24000) * ctx.boost
    for i in range(n_random):
        cases.append(sellib.gen_case(random.Random(rng.getrandbits(64))))
    n_dodo = (48 if ctx.tier == 'quick' else 300) * ctx.boost
    for i in range(n_dodo):
        cases.append(sellib.gen_dodo_case(random.Random(rng.getrandbits(64))))
    if ctx.tier == 'thorough':
        ex = exhaustive_cases(3, rng)
        ctx.extra['exhaustive_small_scope'] = {'task_sets': len(SMALL_SETS), 'alphabet': 9, 'max_argv_len': 3, 'reporters': ['recording', 'json', 'zero'],
                                               'cases': len(ex)}
    else:
        ex = exhaustive_cases(2, rng) + exhaustive_cases(3, rng, sample=500 * ctx.boost)
        ctx.extra['exhaustive_small_scope'] = {'task_sets': len(SMALL_SETS), 'alphabet': 9, 'max_argv_len': 2,
                                               'cases': len(ex), 'note': 'length 3 sampled in the quick tier'}
    cases += ex
    # wave 5: bracket classes in selection words and task_dep wild-cards (own random stream: the cases above are unchanged)
    brng = random.Random(rng.getrandbits(64))
    for i in range((260 if ctx.tier == 'quick' else 8000) * ctx.boost):
        r2 = random.Random(brng.getrandbits(64))
        cases.append(sellib.bracketize(r2, sellib.gen_case(r2, delayed_ok=False, entry_ok=(i % 8 == 0))))
    fnmatch_direct(ctx)
    size = max(10, len(cases) // (common.NCPU * 6))
    batches = [cases[i:i + size] for i in range(0, len(cases), size)]
    for st in common.pmap(process_batch, batches):
        st.merge_into(ctx)


def replay(ctx, data):
    w = data.get('witness') or {}
    if w.get('fnmatch'):
        return replay_fnmatch(w['fnmatch'])
    case = w.get('case')
    if case is None:
        print('nothing to replay (no failing input was found): %s' % data.get('note'))
        return False
    work = common.scratch_dir('c12r')
    r = evaluate([case], work)[0]
    print(sellib.render(case))
    print('api  :', r['api'])
    if r['cli'] is not None:
        print('cli  :', {k: r['cli'][k] for k in ('exit', 'error', 'processed', 'started', 'ran')})
    print('model of the code :', r['model'].get('head'))
    print('specification     :', r['model'].get('spec'))
    print('names a task again:', bool(r['model'].get('reinit')))
    for v in r['viol']:
        print('property fails (%s tier): %s%s' % (v['tier'], v['failed'],
                                                    '  [behaves like the code before dcfe778 (F-C12b)]' if sig_repeated(v)
                                                    else '  [behaves like the code before 0ab6253 (empty word)]'
                                                    if sig_empty_word(v) else ''))
    for d in r['div']:
        print('divergence:', d)
    return not r['viol']
