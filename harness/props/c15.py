"""C15 -- delayed task creation happens once, after its trigger   (model M1+, DESIGN §5 C15)

(T) lean/DoitModel/Props/C15.lean: C15_once / C15_once_count (no creator is evaluated twice, all schedules, NO hypothesis
    on the input: the repaired dispatcher keeps `evaluated_creators`); C15_once_pinned + once_needs_covers and
    pinned_filter_matches_subtask_placeholder keep the two pinned behaviours (findings F-C15b, F-C15a, fixed), C15_after_trigger (every creator evaluation is preceded by the terminal report of the
    creator's `executed` task), C15_loader_after_deps, C15_created_at_most_once / C15_report_means_finished (once-only
    half of created_obey), C15_created_obey / C15_created_start_after_deps (ordering half: obeyOK over the table of
    the Task objects the nodes hold), C15_created_obey_tasks (over TaskControl.tasks; hypothesis noRedefB, needed:
    created_obey_needs_noRedef), C15_node_holds_table, C15_created_obey_table (bridge), C15_created_utd (up-to-date rule), C15_target / C15_target_producer_first (structural core of the
    target rule; hypothesis rxB), C15_nodes_in_closure / C15_started_in_closure ("exactly": nothing outside the
    closure of the selection gets a node / is started).  Liveness of the target rule stays with the monitor targetOK.
(K) generated dodo namespaces: static tasks + `create_after` creators (executed / creates=[..] / target_regex,
    sub-task yielding creators, explicit-basename creators, creators triggered by another creator's task), selections
    by task, sub-task and target (also --auto-delayed-regex), serial / MThreadRunner under the deterministic scheduler
    of runlib / real multiprocessing.  The real doit runs in-process; creators log their evaluations, actions log
    start/end, a recording reporter logs the reports.  The Lean driver (`model: delayed`) runs `process`
    (_filter_tasks' delayed branches) and then decides whether the observed trace is a trace of the run model under
    SOME schedule (DFS over completion order / send(None) / waiting_me order); exit code and error class must agree.
    Cases in which a created task has `setup` / `calc_dep` / `getargs` / a wildcard task_dep (request field `x`) are
    decided by the same search over the extended system `Model/DelayedX.lean` (`Driver/DelayedX.lean`); the answer
    carries `x_features` (which new transitions the accepting run took) for the evidence counters `X:…`.
(P) Lean predicates on the implementation's trace: onceOK, afterOK, obeyOK (ordering + once-only over the dynamic
    dependency table), utdOK, targetOK (nothing outside the closure of the selection is executed; producer of a
    selected target processed; not-found error iff a target has no producer).

Request to the driver (all names -- tasks, files, command-line words -- are indices into case-local `names`):
  {"model":"delayed","op":"check","tasks":[[n,{deps,loader|null,fileDep,targets}]..],"targets":[[file,task]..],
   "loaders":[{creator,exec|null,regex:bool}..],"make":[[c,T,[{name,deps,fileDep,targets}..]]..],
   "matches":[[l,word]..],"auto":bool,"rxName":[[word,task,id]..],"sel":[{w,base}..]|null,"serial":bool,"cont":bool,
   "utd":[..],"fails":[..],"noAct":[..],"obs":{"events":[[kind,n]..],"err":str,"exit":int}}
"""
import copy
import json
import os
import random
import re
import fnmatch
import sys
import time

import common
import runlib

PROP = 'C15'

META = {
    'property': PROP,
    'lean_props': ['DoitModel.Props.C15'],
    'level': 'proof',
    'budget': {'quick': 35, 'thorough': 420},
    'anchors': ['doit/control.py::TaskDispatcher._add_task', 'doit/control.py::TaskControl._filter_tasks',
                'doit/control.py::TaskDispatcher._gen_node', 'doit/control.py::TaskDispatcher._node_add_wait_run',
                'doit/control.py::TaskDispatcher._update_waiting', 'doit/control.py::TaskDispatcher._get_next_node',
                'doit/control.py::TaskDispatcher._dispatcher_generator', 'doit/control.py::ExecNode',
                'doit/control.py::RegexGroup', 'doit/control.py::TaskControl.set_implicit_deps',
                'doit/control.py::TaskControl.add_implicit_task_dep',
                'doit/loader.py::load_tasks', 'doit/loader.py::create_after', 'doit/loader.py::generate_tasks',
                'doit/loader.py::_generate_task_from_yield', 'doit/task.py::DelayedLoader',
                'doit/runner.py::MRunner.get_next_job', 'doit/runner.py::Runner.run_tasks',
                'doit/runner.py::Runner.select_task'],
    'technique': ('Lean 4 invariant proofs over a small-step transition system of TaskDispatcher with the loader '
                  'section (dynamic task table, DelayedLoader objects incl. the per-name copies of creates=[..], '
                  'regex groups, "reset generator") and a runner that is the serial Runner or an over-approximation '
                  'of MRunner/MThreadRunner; trace-acceptance correspondence against the real doit (serial, real '
                  'MThreadRunner under a deterministic scheduler, real multiprocessing); Lean monitors on every '
                  'implementation trace'),
    'design_ref': '§5 C15, §4 M1+, §6.3, §6.4',
    'level_text': ('Machine-checked: C15_once / C15_once_count (no task-creator is evaluated twice in any reachable '
                   'state, every schedule and runner, every creator oracle -- full strength), C15_after_trigger (a '
                   'creator is evaluated only after the terminal report of its `executed` task), '
                   'C15_loader_after_deps, C15_created_at_most_once and C15_report_means_finished (every task, static '
                   'or created, is handed to execution at most once and reported at most once).  Counterexample '
                   'theorems about the pinned code: once_needs_covers, pinned_filter_matches_subtask_placeholder.  '
                   'C15_created_obey / C15_created_start_after_deps (ordering half of created_obey: in every reachable '
                   'state every `start t` is preceded by a success/up-to-date report of every task_dep -- static or '
                   'created, implicit deps through targets included -- of the Task object the node of t holds; at most '
                   'one start and one terminal report; this is the monitor obeyOK as a theorem) and '
                   'C15_created_obey_table (the same over TaskControl.tasks in every state where no started task was '
                   're-defined by a creator).  C15_target / C15_target_producer_first (hypothesis rxB, evaluated on '
                   'every case): the not-found error is raised only while nobody registered the word as a target and '
                   'its regex group is exhausted; a loaded regex placeholder has the producer of its word among its '
                   'task_deps (so it starts after the producer\'s good report) unless other loaders of the group are '
                   'still to be tried.  C15_created_utd (utdOK as a theorem; get_status is an oracle of the model).  '
                   'C15_nodes_in_closure / C15_started_in_closure: every task that gets a node / is started is '
                   'reachable from the selection through task_dep edges of the node-held Task objects or of the '
                   'initial table.  "The producer is eventually processed" (liveness half of targetOK) is a monitor '
                   'on every implementation trace.  '
                   'Wave 5, extended system M1+X (created tasks with setup / calc_dep / getargs / wildcard edges): '
                   'C15X_created_start_after_all_partial (a step that writes `start n` is a select_task on a node not '
                   'marked bad, and for a task with setup-tasks it is the SECOND selection) and '
                   'C15X_dispatcher_writes_only_creator are proved; the full ordering statement '
                   'C15X_created_start_after_all_full is stated, not proved: it is evaluated by the driver on the '
                   'accepting model run of every such case and by the monitor obeyOK on every implementation trace.  '
                   'Both systems mirror TaskDispatcher.inherited_status (repair of finding C05 delayed-group-subtasks-run: '
                   'the node of a created task inherits the bad_deps of the placeholder node through which its creator '
                   'was evaluated; Sys.inherited, mkNodeI; theorem inherited_unmet_not_started) and the monitor obeyOK '
                   'requires a good report of the creator\'s `executed` task before the start of any created task: '
                   'the check REQUIRES that repair in doit.  '
                   'The model is tied to doit on every run by trace acceptance.'),
    'level_note': ('created_obey is proved without extra hypotheses for the node-held Task objects and under noRedefB '
                   '(evaluated on every case: hyp:noredef) for TaskControl.tasks; self.tasks[nt.name] = nt has no '
                   'guard, so re-definition of an executed task is possible in doit.  Target: liveness is '
                   'monitor-only.  '
                   'Regex matching and the creators are '
                   'oracles (computed by the harness with Python re / from the generated yields).  Parallel runners '
                   'are over-approximated (no worker accounting; that is C02).  Both findings made by this check '
                   '(F-C15a subtask-then-regex-target, F-C15b creates-not-yielded) are repaired in /repo; '
                   'seeded/revert-F-C15a, revert-F-C15b are the regression seeds.'),
    'rule': ('random namespaces: 1-5 static tasks (deps, up-to-date, failing), 1-3 create_after creators (executed '
             'static or another creator\'s task | none; creates=[1-3 names] | none; target_regex | none; 0-3 yields as '
             'sub-tasks or explicit basenames with deps/targets/up-to-date/failing, file_dep on a target of the same creator / of a '
             'static task / of an earlier creator), late static tasks depending on '
             'several placeholders, selection none | tasks | sub-tasks | targets | unknown words (+ '
             '--auto-delayed-regex), --continue, runner serial | thread k=1..3 x policy | process k=2; 22% of the serial/thread '
             'cases run the SAME namespace object 2-3 times in one process (same / other selection), monitors and '
             'model per run; '
             'creator variants (wave 4): the creator yields dicts | RETURNS one dict | a Task object | None | raises; '
             'bound-method creator; @task_params (default / value on the command line); executed = plain task | static '
             'group | sub-task | delayed task | unknown task; created tasks with uptodate callables (modelled); '
             'wave 5: created tasks with setup / calc_dep / getargs from a sub-task of the delayed group run K through '
             'the extended model M1+X (Model/DelayedX.lean; counters `K:extended-model(M1+X):…`, `X:…`); only a '
             'creator that raises stays monitors-only (`monitors-only(outside M1+):creator-raises`); '
             'wave 6: two INSTANCES of one class exporting the same @create_after method (`twin_of`), created tasks '
             'with a wildcard task_dep (expanded at creation time, repair 71e546b; M1+X); '
             'non-trivial = a creator was evaluated; distinct = distinct rendered case + schedule'),
    'assumptions': ['up-to-date status is produced by uptodate=[True] on a fresh DB with existing targets',
                    'process-mode runs are sampled'],
    'trusted': ['deterministic thread scheduler / token controller of harness/runlib.py',
                'naming of created tasks (make_tasks below) mirrors generate_tasks string formatting',
                'Python re.match as the regex oracle'],
    'models': ['M1+'],
}


# ======================================================================================================
# 1. cases
# ======================================================================================================
# case = {'static': [{'name','task_dep','targets','utd','fails','late'}], 'creators': [{'fname','executed','creates',
#         'regex','yields':[{'kind':'sub'|'base'|'basesub','basename','sub','task_dep','targets','file_dep','utd','fails'}]}],
#         'order': [names of creators / '@static' / '@late' in namespace order], 'sel': [words]|None, 'auto': bool,
#         'cont': bool, 'runner': 'serial'|'thread'|'process', 'nproc': int, 'policy': {...}, 'schedule': [...]}

def yield_name(y, T):
    if y['kind'] == 'sub':
        return '%s:%s' % (T, y['sub'])
    if y['kind'] == 'base':
        return y['basename']
    return '%s:%s' % (y['basename'], y['sub'])


def oracle_utd(y):
    """is the created task up-to-date on a fresh DB: `uptodate=[True]` / an uptodate callable returning True, and no
    file_dep (whose state was never saved)"""
    if y.get('utd_fn') is not None:
        # getargs adds a result_dep on its source (never up-to-date on a fresh DB) -- unless the source is also listed
        # in `setup` (Task._init_getargs: `if parts[0] not in self.setup_tasks`)
        forced = any(src not in (y.get('setup') or []) for src in (y.get('getargs') or {}).values())
        return bool(y['utd_fn']) and not y.get('file_dep') and not forced
    return bool(y['utd'])


def ref_name(cr, T, r):
    """a reference inside a yield: a static task name (str) or {'ref': j} = the j-th yield of the same creator"""
    return yield_name(cr['yields'][r['ref']], T) if isinstance(r, dict) else r


def extra_deps(cr, T, y):
    """dependencies a yield has through attributes the Lean run model M1+ does not cover (setup, calc_dep and what the
    calc task delivers, the source of a getargs): used by the monitors' dependency table only"""
    out = [ref_name(cr, T, r) for r in (y.get('setup') or [])]
    for cd in y.get('calc_dep') or []:
        out.append(cd['task'])
        out += list(cd['delivers'])
    for arg, src in sorted((y.get('getargs') or {}).items()):
        out.append(ref_name(cr, T, src))
    return out


def x_edges(cr, T, y):
    """the edges of a yield the extended Lean model M1+X (Model/DelayedX.lean) reads: (`setup_tasks` as
    Task.__init__ leaves them: `setup`, then -- `_init_getargs` / `result_dep(setup_dep=True)` -- the sources of getargs
    that are not listed in `setup`; `calc_dep`)"""
    setup = [ref_name(cr, T, r) for r in (y.get('setup') or [])]
    for arg, src in sorted((y.get('getargs') or {}).items()):
        if ref_name(cr, T, src) not in setup:
            setup.append(ref_name(cr, T, src))
    return setup, [cd['task'] for cd in y.get('calc_dep') or []]


def make_tasks(cr, T):
    """what generate_tasks(T, creator()) returns: list of dicts name/deps/fileDep/targets/group (OrderedDict order).
    `ret`: the creator is a generator of dicts ('gen'), returns ONE dict ('dict': named by its basename, else by T),
    returns a Task object ('task'), returns None ('none': nothing is created) or raises ('raises')."""
    ret = cr.get('ret', 'gen')
    if ret in ('none', 'raises'):
        return []
    if ret in ('dict', 'task') and cr['yields']:
        y = cr['yields'][0]
        name = y['basename'] if y.get('basename') else T
        return [{'name': name, 'deps': list(y['task_dep']), 'fileDep': list(y.get('file_dep', [])),
                 'targets': list(y['targets']), 'group': False, 'utd': oracle_utd(y), 'fails': y['fails'],
                 'extra': extra_deps(cr, T, y), 'setup': x_edges(cr, T, y)[0], 'calcDep': x_edges(cr, T, y)[1],
                 'wild': list(y.get('wild') or [])}]
    out = {}
    order = []
    for y in cr['yields']:
        name = yield_name(y, T)
        if y['kind'] in ('sub', 'basesub'):
            g = T if y['kind'] == 'sub' else y['basename']
            if g not in out:
                out[g] = {'name': g, 'deps': [], 'fileDep': [], 'targets': [], 'group': True, 'extra': []}
                order.append(g)
            out[g]['deps'].append(name)
        if name not in out:
            order.append(name)
        out[name] = {'name': name, 'deps': list(y['task_dep']), 'fileDep': list(y.get('file_dep', [])),
                     'targets': list(y['targets']), 'group': False, 'utd': oracle_utd(y), 'fails': y['fails'],
                     'extra': extra_deps(cr, T, y), 'setup': x_edges(cr, T, y)[0], 'calcDep': x_edges(cr, T, y)[1],
                     'wild': list(y.get('wild') or [])}
    if not order:
        return [{'name': T, 'deps': [], 'fileDep': [], 'targets': [], 'group': True, 'extra': []}]
    return [out[n] for n in order]


def unmodelled(case):
    """shapes outside the Lean models: the case runs monitors-only, and is counted.  Wave 5: created tasks with
    setup / calc_dep / getargs are inside the extended model M1+X (`extended(case)`); what is left is a creator that
    raises (the exception aborts the run; no model of the traceback path)."""
    why = set()
    for cr in case['creators']:
        if cr.get('ret') == 'raises':
            why.add('creator-raises')
    return sorted(why)


def extended(case):
    """the edge kinds of created tasks that need the extended model M1+X (Model/DelayedX.lean); [] = plain M1+"""
    why = set()
    for cr in case['creators']:
        for y in cr['yields']:
            for k in ('setup', 'calc_dep', 'getargs', 'wild'):
                if y.get(k):
                    why.add('wildcard-task_dep' if k == 'wild' else k)
    return sorted(why)


def placeholders(cr):
    return list(cr['creates']) if cr['creates'] else [cr['fname']]


def analyse(case):
    """names universe + everything the driver request needs"""
    names = []
    idx = {}

    def nid(s):
        if s not in idx:
            idx[s] = len(names)
            names.append(s)
        return idx[s]
    for t in case['static']:
        nid(t['name'])
    loaders = []           # (placeholder name, creator index)
    for cr in case['creators']:
        if cr['executed']:
            nid(cr['executed'])
    for c, cr in enumerate(case['creators']):
        for p in placeholders(cr):
            nid(p)
            loaders.append((p, c))
    lbearing = [p for p, _ in loaders]
    words = list(case['sel'] or [])
    for w in words:
        nid(w)
        nid(w.split(':', 1)[0])
    static_names = set(t['name'] for t in case['static'])
    static_groups = set(t['name'] for t in case['static'] if t.get('kind') == 'group')
    static_targets = {}
    for t in case['static']:
        for f in t['targets']:
            static_targets[f] = t['name']
            nid(f)
    subwords = [w for w in words if w not in static_names and w not in lbearing and w not in static_targets
                and w.split(':', 1)[0] in lbearing]
    cand = []
    for x in lbearing + subwords:
        if x not in cand:
            cand.append(x)
    make = []
    has_action = set(static_names) - static_groups
    groups = set()
    utd, fails = set(), set()
    absent = set(case.get('absent') or [])      # files not pre-created: a task that builds one is not up-to-date
    for t in case['static']:
        if t['utd'] and not (absent & set(t['targets'])):
            utd.add(t['name'])
        if t['fails']:
            fails.add(t['name'])
    table0 = [n_ for n_, _, _, _, _ in load_order(case)]
    for c, cr in enumerate(case['creators']):
        for T in cand:
            if T not in placeholders(cr):
                continue        # `to_load` of a loader object of creator c is one of its placeholders (since 46c8565 always)
            lst = make_tasks(cr, T)
            for d in lst:
                # a wildcard task_dep: the monitors' dependency table takes what is certainly in the task table when
                # the batch is registered -- the loaded tasks / placeholders and the tasks of the same batch
                for pat in d.get('wild', []):
                    d['extra'] = d.get('extra', []) + [n_ for n_ in table0 + [x['name'] for x in lst if x['name'] not in table0]
                                                       if fnmatch.fnmatch(n_, pat)]
            for d in lst:
                nid(d['name'])
                for x in d['deps'] + d['fileDep'] + d['targets'] + d.get('extra', []):
                    nid(x)
                if not d['group']:
                    if d.get('utd') and not (absent & set(d['targets'])):
                        utd.add(d['name'])
                    if d.get('fails'):
                        fails.add(d['name'])
                if T not in placeholders(cr):
                    continue    # abnormal `to_load` (open finding): names only, not part of the declared output
                if d['group']:
                    groups.add(d['name'])
                else:
                    has_action.add(d['name'])
            make.append((c, T, lst))
    rx = []
    for w in words:
        for t in cand:
            rx.append((w, t, '_regex_target_%s:%s' % (w, t)))
    for _, _, s in rx:
        nid(s)
    matches = []
    for l, (p, c) in enumerate(loaders):
        rg = case['creators'][c]['regex']
        if rg:
            for w in words:
                try:
                    if re.match(rg, w):
                        matches.append((l, w))
                except re.error:
                    pass
    no_act = [n for n in names if n not in has_action]
    return {'names': names, 'idx': idx, 'loaders': loaders, 'make': make, 'rx': rx, 'matches': matches,
            'utd': sorted(utd), 'fails': sorted(fails), 'noAct': no_act, 'static_targets': static_targets,
            'cand': cand, 'subwords': subwords}


def twin_base(case, cr):
    """the creator `cr` is a second INSTANCE of the class of (wave 6): the creator it shares the decorated method
    (and so the @create_after arguments and the source line) with, or None"""
    t = cr.get('twin_of')
    if not t:
        return None
    for a in case['creators']:
        if a['fname'] == t and a is not cr and not a.get('creates') and not cr.get('creates') \
                and not a.get('params') and not cr.get('params'):
            return a
    return None


def eff_order(case):
    """case['order'] as load_tasks sees it: creators are ordered by source line (stable), and the creator of a second
    instance has the line of the shared method -- it comes right after the first instance"""
    order = list(case['order'])
    for cr in case['creators']:
        a = twin_base(case, cr)
        if a is not None and cr['fname'] in order and a['fname'] in order:
            order.remove(cr['fname'])
            order.insert(order.index(a['fname']) + 1, cr['fname'])
    return order


def twin_view(case, cr):
    """the @create_after arguments in force for `cr`: those of the shared method for a second instance"""
    a = twin_base(case, cr)
    return cr if a is None else dict(cr, executed=a['executed'], regex=a['regex'])


def load_order(case):
    """task table after load_tasks / TaskControl.__init__: (name, deps, loader index|None, targets)"""
    an_loaders = []
    for c, cr in enumerate(case['creators']):
        for p in placeholders(cr):
            an_loaders.append((p, c))
    out = []
    for item in eff_order(case):
        if item in ('@static', '@late'):
            for t in case['static']:
                if bool(t.get('late')) == (item == '@late'):
                    out.append((t['name'], list(t['task_dep']), None, list(t['targets']), t.get('kind') != 'group'))
        else:
            c = [i for i, cr in enumerate(case['creators']) if cr['fname'] == item][0]
            cr = case['creators'][c]
            for p in placeholders(cr):
                l = an_loaders.index((p, c))
                out.append((p, [cr['executed']] if cr['executed'] else [], l, [], False))
    return out


def to_request(case, obs, an=None, op='check'):
    an = an or analyse(case)
    ix = an['idx']
    tasks = [[ix[n], {'deps': [ix[d] for d in deps], 'loader': l, 'fileDep': [], 'targets': [ix[f] for f in tg],
                      'act': act}]
             for n, deps, l, tg, act in load_order(case)]
    pats = sorted(set(p_ for _, _, lst in an['make'] for d in lst for p_ in d.get('wild', [])))
    req = {'model': 'delayed', 'op': op, 'tasks': tasks,
           'wmatch': [[i, [ix[n_] for n_ in an['names'] if fnmatch.fnmatch(n_, p_)]] for i, p_ in enumerate(pats)],
           'targets': [[ix[f], ix[t]] for f, t in an['static_targets'].items()],
           'loaders': [{'creator': c, 'exec': (ix[case['creators'][c]['executed']]
                                               if case['creators'][c]['executed'] else None),
                        'regex': bool(case['creators'][c]['regex'])} for p, c in an['loaders']],
           'x': bool(extended(case)),
           'delivers': [[ix[t['name']], [ix[d] for d in t['delivers']['task_dep']]] for t in case['static']
                        if t.get('kind') == 'calc' and not t['fails']],
           'make': [[c, ix[T], [{'name': ix[d['name']], 'deps': [ix[x] for x in d['deps'] + d.get('extra', [])],
                                 'tdeps': [ix[x] for x in d['deps']], 'setup': [ix[x] for x in d.get('setup', [])],
                                 'calcDep': [ix[x] for x in d.get('calcDep', [])],
                                 'wild': [pats.index(p_) for p_ in d.get('wild', [])],
                                 'fileDep': [ix[x] for x in d['fileDep']],
                                 'targets': [ix[x] for x in d['targets']], 'act': not d['group']}
                                for d in lst]] for c, T, lst in an['make']],
           'matches': [[l, ix[w]] for l, w in an['matches']], 'auto': bool(case.get('auto')),
           'rxName': [[ix[w], ix[t], ix[s]] for w, t, s in an['rx']],
           'sel': ([{'w': ix[w], 'base': ix[w.split(':', 1)[0]]} for w in case['sel']]
                   if case['sel'] is not None else None),
           'serial': case['runner'] == 'serial', 'cont': bool(case.get('cont')),
           'utd': [ix[n] for n in an['utd']], 'fails': [ix[n] for n in an['fails']],
           'noAct': [ix[n] for n in an['noAct']], 'budget': 150000,
           'dangling': [cr['executed'] for cr in case['creators']
                        if cr['executed'] and cr['executed'] not in [n for n, _, _, _, _ in load_order(case)]] != []}
    if obs is not None:
        req['obs'] = {'events': obs['events'], 'err': obs['err'], 'exit': obs['exit'] if obs['exit'] is not None else 99}
    return req


# ======================================================================================================
# 2. running the real doit
# ======================================================================================================

_SRC_COUNTER = 0


class Act(object):
    """python-action of a generated task (a picklable object: delayed-created tasks are pickled whole by MRunner)"""

    def __init__(self, n, targets, fails):
        self.n, self.targets, self.fails = n, targets, fails
        self.__name__ = 'act_%s' % n

    def __call__(self):
        rec = runlib._REC
        w = rec.who()
        rec.ev(['start', self.n, w])
        rec.checkpoint(self.n)
        for f in self.targets:
            with open(f, 'w') as fh:
                fh.write('made by %s\n' % self.n)
        rec.ev(['end', self.n, w])
        return not self.fails


def _task_dict(rec, an, name, task_dep, targets, file_dep, utd, fails):
    d = {'actions': [Act(an['idx'][name], list(targets), fails)]}
    if task_dep:
        d['task_dep'] = list(task_dep)
    if targets:
        d['targets'] = list(targets)
    if file_dep:
        d['file_dep'] = list(file_dep)
    if utd:
        d['uptodate'] = [True]
    return d


def build_namespace(case, rec):
    from doit.loader import create_after
    shared = case.get('_shared')
    if shared is not None and 'ns' in shared:
        return shared['ns']         # the SAME namespace object (same creator functions) as in the previous run
    ns = {}

    def static_gen(late):
        def gen():
            for t in case['static']:
                if bool(t.get('late')) == late and t.get('kind') != 'group':
                    d = {'actions': [NamedAct(list(t['targets']), t['fails'], ret=t.get('delivers'))]}
                    if t.get('kind') == 'sub':          # sub-task of a static group (the group task is made by doit)
                        d['basename'], d['name'] = t['name'].split(':', 1)
                    else:
                        d['basename'] = t['name']
                    if t['task_dep']:
                        d['task_dep'] = list(t['task_dep'])
                    if t['targets']:
                        d['targets'] = list(t['targets'])
                    if t['utd']:
                        d['uptodate'] = [True]
                    yield d
        return gen

    def delayed(c, cr):
        ret = cr.get('ret', 'gen')

        def item(y):
            # the task's id is only known once its name is: the action looks it up by the name doit gave it
            d = {'actions': [NamedAct(list(y['targets']), y['fails'], want_args=bool(y.get('getargs')))]}
            if y['task_dep'] or y.get('wild'):
                d['task_dep'] = list(y['task_dep']) + list(y.get('wild') or [])
            if y['targets']:
                d['targets'] = list(y['targets'])
            if y.get('file_dep'):
                d['file_dep'] = list(y['file_dep'])
            if y.get('utd_fn') is not None:
                d['uptodate'] = [UtdFn(y['utd_fn'])]       # an uptodate callable instead of the constant
            elif y['utd']:
                d['uptodate'] = [True]
            if y.get('setup'):
                d['setup'] = [ref_name(cr, cr['fname'], r) for r in y['setup']]
            if y.get('calc_dep'):
                d['calc_dep'] = [cd['task'] for cd in y['calc_dep']]
            if y.get('getargs'):
                d['getargs'] = {a: (ref_name(cr, cr['fname'], src), 'v') for a, src in y['getargs'].items()}
            return d

        def creator(**kw):
            rec_ = runlib._REC                   # the recorder of the run in progress (a namespace may be run again)
            rec_.ev(['creator', c])
            if cr.get('params'):
                rec_.ev(['creator_kw', c, sorted(kw.items())])
            if ret == 'raises':
                raise RuntimeError('creator %s raises' % cr['fname'])
            if ret == 'none':
                return None
            if ret in ('dict', 'task') and cr['yields']:
                y = cr['yields'][0]
                d = item(y)
                if y.get('basename'):
                    d['basename'] = y['basename']
                if ret == 'dict':
                    return d
                from doit.task import Task
                name = d.pop('basename', None) or cr['fname']
                return Task(name, d.pop('actions'), **d)

            def items():
                for y in cr['yields']:
                    d = item(y)
                    if y['kind'] in ('sub', 'basesub'):
                        d['name'] = y['sub']
                    if y['kind'] in ('base', 'basesub'):
                        d['basename'] = y['basename']
                    yield d
            return items()
        kw = {}
        if cr['executed']:
            kw['executed'] = cr['executed']
        if cr['creates']:
            kw['creates'] = list(cr['creates'])
        if cr['regex']:
            kw['target_regex'] = cr['regex']
        return creator, kw

    bodies = {}
    meta = {}
    for item_ in eff_order(case):
        if item_ == '@static':
            bodies['task_static0'] = (static_gen(False), None)
        elif item_ == '@late':
            bodies['task_static1'] = (static_gen(True), None)
        else:
            c = [i for i, cr in enumerate(case['creators']) if cr['fname'] == item_][0]
            bodies['task_' + item_] = delayed(c, case['creators'][c])
            meta['task_' + item_] = case['creators'][c]
    # load_tasks orders the creators by source line: give every function its own line in a synthetic source file
    import linecache
    from doit.loader import task_params
    global _SRC_COUNTER
    _SRC_COUNTER += 1
    fname = '/c15gen/case%d_%d.py' % (os.getpid(), _SRC_COUNTER)
    src = ''
    env = {}
    for i, (key, (body, kw)) in enumerate(bodies.items()):
        env['_body_%d' % i] = body
        if kw is None:
            src += 'def %s():\n    return _body_%d()\n\n' % (key, i)
        elif twin_base(case, meta[key]) is not None:
            pass    # a second instance of the class of its twin: no source of its own
        elif meta[key].get('bound') or any(twin_base(case, o) is meta[key] for o in case['creators']):
            # the creator is a bound method of an object living in the namespace
            src += ('class K_%s(object):\n    def __init__(self, body):\n        self._body = body\n'
                    '    def %s(self, **kw):\n        return self._body(**kw)\n' % (key, key))
        else:
            src += 'def %s(**kw):\n    return _body_%d(**kw)\n\n' % (key, i)
    linecache.cache[fname] = (len(src), None, src.splitlines(True), fname)
    exec(compile(src, fname, 'exec'), env)
    for i, (key, (body, kw)) in enumerate(bodies.items()):
        if kw is None:
            ns[key] = env[key]
            continue
        cr = meta[key]
        tb = twin_base(case, cr)
        if tb is not None:
            # two instances of one class export the same @create_after method as task-creators
            ns[key] = getattr(env['K_task_' + tb['fname']](body), 'task_' + tb['fname'])
            continue
        is_bound = cr.get('bound') or any(twin_base(case, o) is cr for o in case['creators'])
        f = env['K_' + key].__dict__[key] if is_bound else env[key]
        if cr.get('params'):
            f = task_params([{'name': 'p', 'long': 'p', 'default': cr['params']['default']}])(f)
        f = create_after(**kw)(f)
        ns[key] = getattr(env['K_' + key](body), key) if is_bound else f
    ns['DOIT_CONFIG'] = {'dep_file': 'db.json', 'backend': 'json', 'verbosity': 0, 'reporter': runlib.RecReporter}
    if shared is not None:
        shared['ns'] = ns
    return ns


class NamedAct(object):
    """action of a generated task: reports under the name doit gave the task (`task` keyword argument); picklable
    (delayed-created tasks are pickled whole by MRunner).  A successful action returns a dict: `{'v': <task name>}`
    (what getargs consumers read) plus `ret` (a calc_dep task delivers its dependencies this way)."""

    def __init__(self, targets, fails, ret=None, want_args=False):
        self.targets, self.fails, self.ret, self.want_args = targets, fails, ret, want_args
        self.__name__ = 'named_act'

    def __call__(self, task, **kw):
        rec = runlib._REC
        n = rec.tid(task.name)
        w = rec.who()
        rec.ev(['start', n, w])
        if self.want_args:
            rec.ev(['getarg', n, sorted(kw.items())])
        rec.checkpoint(n)
        for f in self.targets:
            with open(f, 'w') as fh:
                fh.write('made\n')
        rec.ev(['end', n, w])
        if self.fails:
            return False
        val = {'v': task.name}
        val.update(self.ret or {})
        return val


class UtdFn(object):
    """an `uptodate` callable (picklable)"""

    def __init__(self, val):
        self.val = val

    def __call__(self, task, values):
        return self.val


def _prepare_fs(case):
    an = case['_an']
    files = set(an['static_targets'])
    for cr in case['creators']:
        for y in cr['yields']:
            files.update(y['targets'])      # also of items a creator does not deliver (returns None / one dict / raises)
    for f in files:
        if f in (case.get('absent') or []):
            continue        # a selected target that does not exist yet (fresh tree / after `doit clean`)
        with open(f, 'w') as fh:
            fh.write('initial\n')


def argv_of(case):
    argv = ['run']
    if case.get('cont'):
        argv.append('--continue')
    if case.get('auto'):
        argv.append('--auto-delayed-regex')
    if case['runner'] != 'serial':
        argv += ['-n', str(case['nproc']), '-P', case['runner']]
    if case.get('sel') is not None:
        cmdp = {cr['fname']: cr['params']['cmd'] for cr in case['creators']
                if cr.get('params') and cr['params'].get('cmd') is not None and not cr['creates']}
        for w in case['sel']:
            argv.append(w)
            if w in cmdp and case['sel'].count(w) == 1:
                argv += ['--p', cmdp[w]]        # option of the task-creator (@task_params), given after its task name
    return argv


ERRMAP = {None: 'none', 'not-found': 'notfound', 'cyclic': 'cyclic', 'invalid': 'duptarget', 'deadlock': 'deadlock'}


def run_impl(case, shared=None):
    """run the real doit; OBS = {'events': [[kind, id]..] in recorder order, 'err', 'exit', 'unknown': [...]}.
    `shared`: dict kept by the caller over several runs of ONE namespace object in this process (multi-run cases)"""
    an = analyse(case)
    c2 = dict(case)
    c2['_an'] = an
    c2['_shared'] = shared
    c2['tasks'] = [{'name': s, 'targets': [], 'ignored': False} for s in an['names']]
    saved = (runlib.build_namespace, runlib._prepare_fs, runlib.argv_of)
    runlib.build_namespace, runlib._prepare_fs, runlib.argv_of = build_namespace, _prepare_fs, argv_of
    real_out, real_err = sys.stdout, sys.stderr
    try:
        o = runlib.run_impl(c2, watchdog=10.0)
    finally:
        runlib.build_namespace, runlib._prepare_fs, runlib.argv_of = saved
        # a run that raised while actions were in flight (thread runner) leaves worker threads inside the python-action's
        # stdout swap; when the scheduler abandons them they "restore" the stream they saved.  Put the real ones back.
        sys.stdout, sys.stderr = real_out, real_err
    ev, unknown = [], []
    for e in o.get('raw', []):
        k = e[0]
        kind = None
        if k == 'creator':
            ev.append(['creator', e[1]])
            continue
        if k == 'start':
            kind = 'start'
        elif k == 'success':
            kind = 'success'
        elif k == 'failure':
            kind = 'unmet' if e[2] == 'unmet' else 'failure'
        elif k == 'skip_uptodate':
            kind = 'skip'
        if kind is None:
            continue
        if not isinstance(e[1], int):
            unknown.append([kind, e[1]])
            continue
        ev.append([kind, e[1]])
    err = o['err']
    if err is not None and err.startswith('crash'):
        errc = 'crash'
    else:
        errc = ERRMAP.get(err, 'crash')
    se = o.get('stderr', '')
    rt = [str(e[1]) for e in o.get('raw', []) if e[0] == 'runtime_error' and len(e) > 1]
    if 'Must be a task, or a target' in se or 'not_found' in se:
        errc = 'notfound'
    elif "can't have a common target" in se or any('common target' in m for m in rt):
        errc = 'duptarget'      # InvalidTask caught by Runner.run_all (reporter.runtime_error, exit 2)
    elif errc == 'duptarget' or rt:
        errc = 'invalid'
    if errc == 'none' and o['exit'] == 3:
        # an ERROR exit whose message could not be seen: the main thread printed it while a python-action running in a
        # worker thread had sys.stderr swapped (open finding C17 stdout-overlap-threads).  Error class unknown.
        errc = 'exit3'
    obs = {'events': ev, 'err': errc, 'exit': o['exit'], 'unknown': unknown, 'stderr': o.get('stderr', '')[-300:],
           'raw_err': err,
           'getarg': [[e[1], e[2]] for e in o.get('raw', []) if e[0] == 'getarg'],
           'creator_kw': [[e[1], e[2]] for e in o.get('raw', []) if e[0] == 'creator_kw']}
    if 'schedule' in o:
        obs['schedule'] = o['schedule']
    return obs, an


# ======================================================================================================
# 3. generator
# ======================================================================================================

def gen_sel(rng, static, creators, k):
    """(selection | None, --auto-delayed-regex)"""
    allph = [p for cr in creators for p in placeholders(cr)]
    sel = None
    auto = False
    if rng.random() < k.get('p_sel', 0.75):
        tasknames = [s['name'] for s in static] + allph
        targets = []
        subs = []
        for c, cr in enumerate(creators):
            for p in placeholders(cr):
                for d in make_tasks(cr, p):
                    if cr['regex'] or rng.random() < 0.08:
                        targets += d['targets']
                    if ':' in d['name']:
                        subs.append(d['name'])
            if not cr['creates']:
                subs.append('%s:%s' % (cr['fname'], rng.choice(['x', 'y', 'q'])))
        n = rng.choice([1, 1, 2, 2, 3])
        sel = []
        for _ in range(n):
            r = rng.random()
            if r < 0.3 or not (targets or subs):
                sel.append(rng.choice(tasknames))
            elif r < 0.55 and subs:
                sel.append(rng.choice(subs))
            elif r < 0.94 and targets:
                sel.append(rng.choice(targets))
            elif r < 0.97 and any(s_['targets'] for s_ in static):
                sel.append(rng.choice([t for s_ in static for t in s_['targets']]))
            else:
                sel.append(rng.choice(['o0_zz', 'o1_zz', 'nobody', 'o0_a']))
        auto = rng.random() < 0.15
    return sel, auto


def gen_case(rng, runner=None, knobs=None):
    k = knobs or {}
    n_static = rng.randint(1, 4)
    static = []
    for i in range(n_static):
        deps = [s['name'] for s in static if rng.random() < 0.3]
        # some static tasks build a file (`t_<name>`): a created task may consume it (implicit task_dep through the
        # GLOBAL target map); the reverse -- a static task consuming a created task's target -- is documented as not
        # supported and is not generated
        static.append({'name': 's%d' % i, 'task_dep': deps,
                       'targets': ['t_s%d' % i] if rng.random() < k.get('p_static_target', 0.4) else [],
                       'utd': rng.random() < 0.3,
                       'fails': rng.random() < k.get('p_fail', 0.08), 'late': False})
    plain_static = [t['name'] for t in static]
    if rng.random() < k.get('p_static_group', 0.3):
        # a statically defined group with two sub-tasks: `executed=` may name the group or one sub-task
        static.append({'name': 'grp', 'kind': 'group', 'task_dep': ['grp:a', 'grp:b'], 'targets': [], 'utd': False,
                       'fails': False, 'late': False})
        for sub in ('a', 'b'):
            static.append({'name': 'grp:' + sub, 'kind': 'sub', 'task_dep': [], 'targets': [],
                           'utd': rng.random() < 0.2, 'fails': rng.random() < 0.04, 'late': False})
    if rng.random() < k.get('p_calc', 0.15):
        # a task whose result delivers dependencies (calc_dep of a created task)
        static.append({'name': 'calc0', 'kind': 'calc', 'task_dep': [], 'targets': [], 'utd': False, 'fails': False,
                       'late': False, 'delivers': {'task_dep': [rng.choice(plain_static)]}})
    n_cre = rng.choice([1, 1, 2, 2, 3])
    creators = []
    created_so_far = []     # names a later creator may use as `executed`
    for c in range(n_cre):
        fname = 'g%d' % c
        style = rng.choice(['subs', 'subs', 'creates', 'creates', 'single'])
        executed = None
        r = rng.random()
        if r < 0.65:
            executed = rng.choice(static)['name']       # a plain task, a group (`grp`) or a sub-task (`grp:a`)
        elif r < 0.8 and created_so_far:
            executed = rng.choice(created_so_far)
        elif 0.8 <= r < 0.83:
            executed = 'nosuch'                         # a task that does not exist: InvalidTask when the command is set up
        regex = None
        if rng.random() < k.get('p_regex', 0.5):
            regex = rng.choice(['o%d_.*' % c, 'o%d_.*' % c, 'o.*', 'o%d_a' % c])
        yields = []
        creates = None
        if style == 'subs':
            for s in rng.sample(['x', 'y', 'z'], rng.randint(0, 3)):
                yields.append({'kind': 'sub', 'sub': s})
        elif style == 'creates':
            creates = ['c%d%s' % (c, ch) for ch in 'abc'[:rng.randint(1, 3)]]
            for b in creates:
                if rng.random() < k.get('p_cover', 0.93):
                    if rng.random() < 0.3:
                        for s in rng.sample(['1', '2'], rng.randint(1, 2)):
                            yields.append({'kind': 'basesub', 'basename': b, 'sub': s})
                    else:
                        yields.append({'kind': 'base', 'basename': b})
            if rng.random() < 0.2:
                yields.append({'kind': 'base', 'basename': 'extra%d' % c})
        else:
            if rng.random() < 0.8:
                yields.append({'kind': 'base', 'basename': fname})
        tchars = ['a', 'b', 'c', 'd', 'e', 'f', 'g', 'h']
        if rng.random() < 0.04:
            tchars = ['a', 'b', 'a', 'b', 'a', 'b', 'a', 'b']     # two created tasks with a common target: InvalidTask
        for j, y in enumerate(yields):
            prev = [yield_name(p, fname) for p in yields[:j] if p['kind'] != 'sub'] + \
                   ['%s:%s' % (fname, p['sub']) for p in yields[:j] if p['kind'] == 'sub' and not creates]
            deps = [d for d in prev if rng.random() < 0.25]
            deps += [s['name'] for s in static if rng.random() < 0.12]
            y['task_dep'] = deps
            y['targets'] = ['o%d_%s' % (c, tchars[j % 8])] if rng.random() < 0.6 else []
            y['file_dep'] = []
            y['utd'] = rng.random() < 0.2
            prev_t = [t for p in yields[:j] for t in p.get('targets', [])]
            static_t = [t for st_ in static for t in st_['targets']]
            other_t = [t for ocr in creators for p in ocr['yields'] for t in p.get('targets', [])]
            if rng.random() < k.get('p_file_dep', 0.3):
                # a created task consuming a file built by a task of the same batch / by a static task / by a task of a
                # creator defined earlier: implicit task_dep (set_implicit_deps looks the file up in the global map)
                pools = [p for p in (prev_t, static_t, static_t, other_t) if p]
                if pools:
                    fd = [rng.choice(rng.choice(pools))]
                    if rng.random() < 0.25:
                        extra = rng.choice(rng.choice(pools))
                        if extra not in fd:
                            fd.append(extra)
                    y['file_dep'] = fd
                    y['utd'] = False
            y['fails'] = rng.random() < k.get('p_fail', 0.08)
        # attributes of created tasks: uptodate callable (modelled through the up-to-date oracle); setup, calc_dep,
        # getargs (wave 5: inside the extended model M1+X, see `extended`)
        for j, y in enumerate(yields):
            if rng.random() < k.get('p_utd_fn', 0.15):
                y['utd_fn'] = rng.random() < 0.6
                y['utd'] = bool(y['utd_fn']) and not y['file_dep']
            if rng.random() < k.get('p_setup', 0.07):
                y['setup'] = [rng.choice([{'ref': i} for i in range(j)] + plain_static)]
            if rng.random() < k.get('p_calc_dep', 0.3) and any(t.get('kind') == 'calc' for t in static):
                t = [t for t in static if t.get('kind') == 'calc'][0]
                y['calc_dep'] = [{'task': t['name'], 'delivers': list(t['delivers']['task_dep'])}]
            if rng.random() < k.get('p_wild', 0.1):
                # a wildcard task_dep (repair 71e546b: expanded against the task table when the batch is registered)
                import fnmatch as _fn
                pats = ['s*', 'grp:*'] + [yield_name(yy, fname)[:-1] + '*' for yy in yields[:j]]
                pats = [p_ for p_ in pats if not _fn.fnmatch(yield_name(y, fname), p_)
                        and not any(_fn.fnmatch(p2, p_) for p2 in (creates or [fname]))]
                if pats:
                    y['wild'] = [rng.choice(pats)]
            if j and rng.random() < k.get('p_getargs', 0.1):
                # a value computed by an earlier task of the same creator -- a sub-task of the delayed group
                src = rng.randrange(j)
                y['getargs'] = {'val': {'ref': src}}
                y['utd'] = False
                yields[src]['utd'] = False
                yields[src].pop('utd_fn', None)
        cr = {'fname': fname, 'executed': executed, 'creates': creates, 'regex': regex, 'yields': yields}
        r = rng.random()
        if yields and r < k.get('p_ret', 0.22):
            cr['ret'] = rng.choice(['dict', 'task'])    # the creator RETURNS one dict / one Task object (its first item)
            for key in ('setup', 'getargs'):
                yields[0].pop(key, None)
        elif not creates and r < k.get('p_ret', 0.22) + 0.05:
            cr['ret'] = 'none'                          # the creator returns None: nothing is created
        elif r < k.get('p_ret', 0.22) + 0.09:
            cr['ret'] = 'raises'                        # the creator raises
        if rng.random() < k.get('p_bound', 0.15):
            cr['bound'] = True                          # the creator is a bound method
        if rng.random() < k.get('p_params', 0.15):
            cr['params'] = {'default': 'd%d' % c, 'cmd': rng.choice([None, 'v%d' % c])}     # @task_params
        creators.append(cr)
        created_so_far += placeholders(cr)
    if len(creators) >= 2 and rng.random() < k.get('p_shared_regex', 0.2):
        # every creator claims every `o…` target: a selected target is matched by several creators, the producer may be
        # the second or third of them (the earlier ones are evaluated and do not produce it)
        for cr in creators:
            cr['regex'] = 'o.*'
    # late static tasks: depend on several placeholders (nodes for two placeholders exist before the creator runs)
    allph = [p for cr in creators for p in placeholders(cr)]
    if rng.random() < k.get('p_late', 0.5):
        for i in range(rng.randint(1, 2)):
            deps = rng.sample(allph, min(len(allph), rng.randint(1, 3)))
            deps += [s['name'] for s in static if not s['late'] and rng.random() < 0.2]
            rng.shuffle(deps)
            static.append({'name': 'late%d' % i, 'task_dep': deps, 'targets': [], 'utd': False,
                           'fails': False, 'late': True})
    order = ['@static'] + [cr['fname'] for cr in creators]
    if any(s['late'] for s in static):
        order.append('@late')
    if rng.random() < 0.3:
        # creators defined before the static tasks
        head = order[:1]
        rest = order[1:]
        rng.shuffle(rest)
        order = rest[:1] + head + rest[1:] if rng.random() < 0.5 else head + rest
    twins = [i for i in range(1, len(creators)) if not creators[i]['creates'] and not creators[i - 1]['creates']]
    if twins and rng.random() < k.get('p_twin', 0.2):
        # two INSTANCES of one class export the same @create_after method (`task_x = K(..).make; task_y = K(..).make`):
        # one decorated function, hence the same executed / target_regex; the bound methods are different creators
        i = rng.choice(twins)
        a, b = creators[i - 1], creators[i]
        b['executed'], b['regex'] = a['executed'], a['regex']
        for x in (a, b):
            x['bound'] = True
            x.pop('params', None)
        b['twin_of'] = a['fname']
        order.remove(b['fname'])
        order.insert(order.index(a['fname']) + 1, b['fname'])
    sel, auto = gen_sel(rng, static, creators, k)
    runner = runner or rng.choice(['serial', 'serial', 'thread', 'thread', 'thread'])
    case = {'static': static, 'creators': creators, 'order': order, 'sel': sel, 'auto': auto,
            'cont': rng.random() < 0.4, 'runner': runner, 'nproc': 0}
    if runner == 'thread':
        case['nproc'] = rng.randint(1, 3)
        case['policy'] = runlib.gen_policy(rng, case['nproc'])
    elif runner == 'process':
        case['nproc'] = 2
        case['policy'] = {'kind': 'seeded', 'seed': rng.randrange(1 << 30)}
    # selected targets that do not exist yet (fresh tree): only files no created task has as file_dep (a consumer
    # without an implicit dependency on the builder would fail on the missing file -- that is C03/C10's subject)
    consumed = set(f for cr in creators for y in cr['yields'] for f in (y.get('file_dep') or []))
    built = set(t for cr in creators for y in cr['yields'] for t in y['targets'])
    words = set(sel or [])
    if rng.random() < k.get('p_absent', 0.55):
        ab = sorted(w for w in words if w in built and w not in consumed)
        if ab:
            case['absent'] = ab
    if runner != 'process' and rng.random() < k.get('p_multi', 0.22):
        # the SAME namespace object is run again in this process (DoitMain.run twice / doit.api.run_tasks twice): same or
        # another selection; nothing a run did to the loaders may survive it
        runs = []
        for _ in range(rng.choice([1, 1, 2])):
            if rng.random() < 0.4:
                runs.append({'sel': list(sel) if sel is not None else None, 'auto': auto})
            else:
                s2, a2 = gen_sel(rng, static, creators, k)
                runs.append({'sel': s2, 'auto': a2})
        case['runs'] = runs
    return case


def render(case):
    lines = []
    for item in case['order']:
        if item in ('@static', '@late'):
            for t in case['static']:
                if bool(t.get('late')) == (item == '@late'):
                    lines.append('task %s%s: task_dep=%s%s%s%s' % (t['name'],
                                                                    ' (%s%s)' % (t['kind'], ' delivers %s' % t['delivers'] if t.get('delivers') else '')
                                                                    if t.get('kind') else '', t['task_dep'],
                                                                  ' targets=%s' % t['targets'] if t['targets'] else '',
                                                                  ' utd' if t['utd'] else '',
                                                                  ' FAILS' if t['fails'] else ''))
        else:
            cr = [c for c in case['creators'] if c['fname'] == item][0]
            lines.append('@create_after(executed=%r, creates=%r, target_regex=%r)%s%s def task_%s: %s %s' % (
                cr['executed'], cr['creates'], cr['regex'],
                ' @task_params(p: default=%r, command line=%r)' % (cr['params']['default'], cr['params'].get('cmd'))
                if cr.get('params') else '', (' bound-method' if cr.get('bound') else '') + (' SECOND-INSTANCE-of-the-class-of-task_%s' % cr['twin_of'] if cr.get('twin_of') else ''), cr['fname'],
                {'gen': 'yields', 'dict': 'RETURNS the dict of its first item:', 'task': 'RETURNS a Task object of its first item:',
                 'none': 'RETURNS None; (would yield)', 'raises': 'RAISES; (would yield)'}[cr.get('ret', 'gen')],
                ['%s%s deps=%s targets=%s%s%s%s' % (y.get('basename') or '', (':' + y['sub']) if y.get('sub') else '',
                                                     y['task_dep'], y['targets'],
                                                     (' file_dep=%s' % y['file_dep'] if y.get('file_dep') else '') +
                                                     ''.join(' %s=%s' % (kk, y[kk]) for kk in ('setup', 'calc_dep', 'getargs', 'wild', 'utd_fn')
                                                             if y.get(kk) is not None and y.get(kk) != []),
                                                     ' utd' if y['utd'] else '',
                                                     ' FAILS' if y['fails'] else '') for y in cr['yields']]))
    if case.get('absent'):
        lines.append('files that do not exist before the run: %s' % case['absent'])
    lines.append('doit %s' % ' '.join(argv_of(case)))
    for r in case.get('runs') or []:
        lines.append('then, same process and namespace: doit %s' % ' '.join(argv_of(dict(case, sel=r['sel'], auto=r.get('auto')))))
    return lines


# ======================================================================================================
# 4. judging
# ======================================================================================================

def sig_subtask_then_regex(witness):
    """input shape of finding F-C15a (fixed; still generated and counted): the command line names a sub-task of a delayed creator (a word
    `base:sub` that is not a task yet) and, LATER, a word that is matched as regex target by the same creator's loader
    (or any target with --auto-delayed-regex): _filter_tasks picks the sub-task placeholder up as a regex candidate and
    overwrites loader.basename with the sub-task's name."""
    case = witness.get('case') or {}
    sel = case.get('sel') or []
    static = set(t['name'] for t in case.get('static', []))
    ph = {}
    for cr in case.get('creators', []):
        for p in placeholders(cr):
            ph[p] = cr
    seen_sub = []      # creators whose sub-task placeholder was created by an earlier word
    for w in sel:
        if w in static or w in ph:
            continue
        base = w.split(':', 1)[0]
        if ':' in w and base in ph:
            seen_sub.append(ph[base])
            continue
        for cr in seen_sub:
            if cr['regex']:
                try:
                    if re.match(cr['regex'], w):
                        return True
                except re.error:
                    pass
            elif case.get('auto'):
                return True
    return False


def uncovered_creates(case):
    """names a creator declares in `creates` but does not yield (finding F-C15b, fixed: input shape still generated)"""
    out = []
    for cr in case.get('creators', []):
        for b in (cr.get('creates') or []):
            if not any(y.get('basename') == b for y in cr['yields']):
                out.append(b)
    return out


SIGNATURES = {}     # F-C15a (subtask-then-regex-target) and F-C15b (creates-not-yielded) were fixed upstream (46c8565, 994517d)


def judge_one(case, obs, ans):
    """-> (failed monitors, divergence text|None); for a multi-run case obs/ans belong to run obs['run']"""
    if case.get('runs'):
        case = run_case(case, obs.get('run', 0))
    failed = []
    if 'error' in ans:
        return failed, 'driver error: %s' % ans['error']
    for k in ('once', 'after', 'obey', 'utd', 'target', 'evaluated'):
        if not ans['prop'].get(k, True):
            failed.append(k + ((': ' + ans['prop'].get('target_why', '')) if k == 'target' else '') +
                          ((': ' + ans['prop'].get('evaluated_why', '')) if k == 'evaluated' else ''))
    if obs['unknown']:
        failed.append('target: a task outside every creator\'s declared output was reported: %s' % obs['unknown'][:4])
    evaluated = set(e[1] for e in obs['events'] if e[0] == 'creator')
    raised = [c for c, cr in enumerate(case['creators']) if cr.get('ret') == 'raises' and c in evaluated]
    if raised:
        # a creator that raises: the exception must end the run as an error (exit 3), not be swallowed
        if obs['exit'] != 3 or obs['err'] not in ('crash', 'exit3'):
            failed.append('raises: creator %s raised but the run ended with exit=%s err=%s' % (raised, obs['exit'], obs['err']))
    elif obs['err'] in ('crash', 'deadlock'):
        failed.append('crash: doit ended with %s' % obs.get('raw_err'))
    # values handed to actions through getargs (item 21: source = a sub-task of the delayed group) and to creators
    # through @task_params
    an = None
    for n, kw in obs.get('getarg') or []:
        an = an or analyse(case)
        want = None
        for c, cr in enumerate(case['creators']):
            for T in placeholders(cr):
                for y in cr['yields']:
                    if y.get('getargs') and isinstance(n, int) and an['names'][n] == (
                            (y.get('basename') or T) if cr.get('ret') in ('dict', 'task') else yield_name(y, T)):
                        want = sorted((a, ref_name(cr, T, src)) for a, src in y['getargs'].items())
        if want is not None and [list(x) for x in kw] != [list(x) for x in want]:
            failed.append('getargs: action of %s received %s, expected %s' % (an['names'][n], kw, want))
    for c, kw in obs.get('creator_kw') or []:
        cr = case['creators'][c]
        if cr.get('params'):
            cmd = cr['params'].get('cmd')
            on_cmd = cmd is not None and not cr['creates'] and (case.get('sel') or []).count(cr['fname']) == 1
            want = [['p', cmd if on_cmd else cr['params']['default']]]
            if [list(x) for x in kw] != want:
                failed.append('params: creator %s was called with %s, expected %s' % (cr['fname'], kw, want))
    div = None
    if unmodelled(case) and (raised or any(w != 'creator-raises' for w in unmodelled(case))):
        return failed, None         # outside M1+: monitors only (counted by count_case)
    if not ans.get('accept'):
        if ans.get('exhausted'):
            div = None     # search budget exhausted: counted, not a divergence
        else:
            div = 'trace not accepted by the model (model eager-serial run: %s)' % json.dumps(ans.get('model'))[:400]
    return failed, div


def run_case(case, j):
    """the single-run case of run j"""
    r = runs_of(case)[j]
    c = dict(case, sel=r['sel'], auto=bool(r.get('auto')))
    c.pop('runs', None)
    # a second instance of a class has the @create_after arguments of the shared method (also after shrinking)
    c['creators'] = [twin_view(case, cr) for cr in case['creators']]
    c['order'] = eff_order(case)
    return c


def runs_of(case):
    """the runs of a case: [{'sel', 'auto'}]; a plain case is one run"""
    return [{'sel': case['sel'], 'auto': bool(case.get('auto'))}] + [dict(r) for r in (case.get('runs') or [])]


def run_all(case):
    """[(case of that run, obs, an)]: a multi-run case runs ONE namespace object several times in this process (fresh
    scratch dir and DB each time: every run is a first run as far as doit's documented state goes)"""
    runs = runs_of(case)
    if len(runs) == 1:
        obs, an = run_impl(case)
        return [(case, obs, an)]
    shared = {}
    out = []
    for r in runs:
        cr = dict(case, sel=r['sel'], auto=bool(r.get('auto')))
        cr.pop('runs', None)
        cr.pop('schedule', None)
        obs, an = run_impl(cr, shared=shared)
        out.append((cr, obs, an))
    return out


def eval_runs(cases):
    """per case: [(case of the run, obs, ans)] for every run; the model is asked about each run separately (it has no
    state that survives a run -- neither has doit, by its documentation)"""
    per_case, reqs = [], []
    for case in cases:
        runs = []
        for cr, obs, an in run_all(case):
            if obs.get('schedule') is not None and cr['runner'] != 'serial' and not case.get('runs'):
                cr = dict(cr, schedule=obs['schedule'])
            reqs.append(to_request(cr, obs, an))
            runs.append([cr, obs])
        per_case.append(runs)
    answers = common.drv_batch(reqs) if reqs else []
    out, i = [], 0
    for runs in per_case:
        out.append([(cr, obs, answers[i + j]) for j, (cr, obs) in enumerate(runs)])
        i += len(runs)
    return out


def eval_cases(cases):
    """[(case, obs, ans)]: for a multi-run case obs/ans are those of the first run on which a monitor fails or the model
    disagrees (else of the last run); obs['run'] says which"""
    out = []
    for case, runs in zip(cases, eval_runs(cases)):
        pick = len(runs) - 1
        for j, (cr, obs, ans) in enumerate(runs):
            failed, div = judge_one(cr, obs, ans)
            if failed or div:
                pick = j
                break
        cr, obs, ans = runs[pick]
        if len(runs) > 1:
            obs = dict(obs, run=pick, n_runs=len(runs),
                       creators_per_run=[sum(1 for e in o['events'] if e[0] == 'creator') for _, o, _ in runs])
            out.append((case, obs, ans))
        else:
            out.append((cr, obs, ans))
    return out


def still_fails(case, want):
    try:
        (c, obs, ans), = eval_cases([case])
    except Exception:  # noqa
        return False
    failed, _ = judge_one(c, obs, ans)
    heads = set(f.split(':')[0] for f in failed)
    return bool(heads & want)


def _variants(case):
    """smaller cases"""
    for i in range(len(case['static'])):
        nm = case['static'][i]['name']
        c = copy.deepcopy(case)
        del c['static'][i]
        for t in c['static']:
            t['task_dep'] = [d for d in t['task_dep'] if d != nm]
        for cr in c['creators']:
            if cr['executed'] == nm:
                cr['executed'] = None
            for y in cr['yields']:
                y['task_dep'] = [d for d in y['task_dep'] if d != nm]
        if c['sel'] is not None:
            c['sel'] = [w for w in c['sel'] if w != nm]
        for r in c.get('runs') or []:
            if r['sel'] is not None:
                r['sel'] = [w for w in r['sel'] if w != nm] or None
        if not any(t.get('late') for t in c['static']):
            c['order'] = [o for o in c['order'] if o != '@late']
        if c['static'] and (c['sel'] is None or c['sel']):
            yield c
    for i in range(len(case['creators'])):
        if len(case['creators']) > 1:
            c = copy.deepcopy(case)
            cr = c['creators'].pop(i)
            gone = set(placeholders(cr))
            c['order'] = [o for o in c['order'] if o != cr['fname']]
            for t in c['static']:
                t['task_dep'] = [d for d in t['task_dep'] if d not in gone]
            for o in c['creators']:
                if o['executed'] in gone:
                    o['executed'] = None
            if c['sel'] is not None:
                c['sel'] = [w for w in c['sel'] if w.split(':')[0] not in gone]
                if not c['sel']:
                    continue
            for r in c.get('runs') or []:
                if r['sel'] is not None:
                    r['sel'] = [w for w in r['sel'] if w.split(':')[0] not in gone] or None
            yield c
        for j in range(len(case['creators'][i]['yields'])):
            c = copy.deepcopy(case)
            y = c['creators'][i]['yields'].pop(j)
            for y2 in c['creators'][i]['yields']:
                if y2.get('setup'):
                    y2['setup'] = [({'ref': r['ref'] - 1} if r['ref'] > j else r) if isinstance(r, dict) else r
                                   for r in y2['setup'] if not (isinstance(r, dict) and r['ref'] == j)]
                if y2.get('getargs'):
                    y2['getargs'] = {a: ({'ref': r['ref'] - 1} if r['ref'] > j else r) for a, r in y2['getargs'].items()
                                     if r['ref'] != j}
            yield c
        for j, y in enumerate(case['creators'][i]['yields']):
            for key in ('setup', 'calc_dep', 'getargs', 'wild', 'utd_fn'):
                if y.get(key) is not None and y.get(key) != []:
                    c = copy.deepcopy(case)
                    del c['creators'][i]['yields'][j][key]
                    yield c
            for key in ('task_dep', 'targets', 'file_dep'):
                if y.get(key):
                    c = copy.deepcopy(case)
                    c['creators'][i]['yields'][j][key] = []
                    yield c
            for key in ('utd', 'fails'):
                if y[key]:
                    c = copy.deepcopy(case)
                    c['creators'][i]['yields'][j][key] = False
                    yield c
        if case['creators'][i]['regex']:
            c = copy.deepcopy(case)
            c['creators'][i]['regex'] = None
            yield c
        for key in ('ret', 'bound', 'params'):
            if case['creators'][i].get(key):
                c = copy.deepcopy(case)
                del c['creators'][i][key]
                yield c
    for i, t in enumerate(case['static']):
        for d in t['task_dep']:
            c = copy.deepcopy(case)
            c['static'][i]['task_dep'] = [x for x in t['task_dep'] if x != d]
            yield c
        for key in ('utd', 'fails'):
            if t[key]:
                c = copy.deepcopy(case)
                c['static'][i][key] = False
                yield c
        if t['targets'] and not any(f in t['targets'] for cr in case['creators'] for y in cr['yields']
                                    for f in (y.get('file_dep') or [])):
            c = copy.deepcopy(case)
            c['static'][i]['targets'] = []
            yield c
    if case['sel'] is not None and len(case['sel']) > 1:
        for i in range(len(case['sel'])):
            c = copy.deepcopy(case)
            del c['sel'][i]
            yield c
    for i in range(len(case.get('runs') or [])):
        c = copy.deepcopy(case)
        del c['runs'][i]
        if not c['runs']:
            del c['runs']
        yield c
        c = copy.deepcopy(case)         # the i-th re-run takes the place of the first run
        r = c['runs'].pop(i)
        c['sel'], c['auto'] = r['sel'], bool(r.get('auto'))
        if not c['runs']:
            del c['runs']
        yield c
        if r['sel'] is not None and len(r['sel']) > 1:
            for j in range(len(r['sel'])):
                c = copy.deepcopy(case)
                del c['runs'][i]['sel'][j]
                yield c
    if case.get('absent'):
        c = copy.deepcopy(case)
        del c['absent']
        yield c
    for key in ('cont', 'auto'):
        if case.get(key):
            c = copy.deepcopy(case)
            c[key] = False
            yield c
    if case['runner'] != 'serial':
        c = copy.deepcopy(case)
        c['runner'], c['nproc'] = 'serial', 0
        c.pop('policy', None)
        c.pop('schedule', None)
        yield c


def _sanitize(case):
    """after a shrinking edit: a file_dep must still be the target of some task (the harness only creates target files)"""
    built = set(t for s_ in case['static'] for t in s_['targets'])
    built.update(t for cr in case['creators'] for y in cr['yields'] for t in y['targets'])
    for cr in case['creators']:
        for y in cr['yields']:
            if y.get('file_dep'):
                y['file_dep'] = [f for f in y['file_dep'] if f in built]
    return case


def shrink(case, want, max_tests=120, max_seconds=15.0):
    t0 = time.time()
    tests = 0
    cur = case
    progress = True
    while progress and tests < max_tests and time.time() - t0 < max_seconds:
        progress = False
        for v in _variants(cur):
            if tests >= max_tests or time.time() - t0 > max_seconds:
                break
            tests += 1
            v.pop('schedule', None)
            _sanitize(v)
            if still_fails(v, want):
                cur = v
                progress = True
                break
    return cur


def case_key(case):
    c = dict(case)
    c.pop('corpus', None)
    return c


def count_case(st, case, obs, ans):
    st.count('runner:%s' % case['runner'] + ('/%d' % case['nproc'] if case['nproc'] else ''))
    st.count('creators:%d' % len(case['creators']))
    for cr in case['creators']:
        st.count('creator:%s%s%s' % ('executed' if cr['executed'] else 'no-trigger',
                                       '+creates%d' % len(cr['creates']) if cr['creates'] else '',
                                       '+regex' if cr['regex'] else ''))
        st.count('yields:%d' % len(cr['yields']))
    if case['sel'] is None:
        st.count('sel:all')
    else:
        an = analyse(case)
        for w in case['sel']:
            if w in an['subwords']:
                st.count('sel:sub-task')
            elif w in an['idx'] and (w in [t['name'] for t in case['static']] or w in [p for p, _ in an['loaders']]):
                st.count('sel:task')
            elif any(w == x for _, x in an['matches']) or case.get('auto'):
                st.count('sel:regex-target')
            else:
                st.count('sel:unknown-word')
    st_t = set(t for s_ in case['static'] for t in s_['targets'])
    for ci, cr in enumerate(case['creators']):
        own = set(t for y in cr['yields'] for t in y['targets'])
        for y in cr['yields']:
            for f in y.get('file_dep') or []:
                st.count('created-file_dep:%s' % ('static-target' if f in st_t else 'same-creator' if f in own
                                                 else 'other-creator'))
    for cr in case['creators']:
        st.count('creator-returns:%s' % cr.get('ret', 'gen'))
        if cr.get('bound'):
            st.count('creator:bound-method')
        if twin_base(case, cr) is not None:
            st.count('creator:second-instance-of-one-class(shared @create_after method)')
        if cr.get('params'):
            st.count('creator:task_params%s' % ('+command-line-value' if cr['params'].get('cmd') else ''))
        ex = cr['executed']
        kinds = {t['name']: t.get('kind', 'plain') for t in case['static']}
        st.count('executed=%s' % ('none' if not ex else 'unknown-task' if ex == 'nosuch' else
                                  'static-' + kinds[ex] if ex in kinds else 'delayed-task'))
        for y in cr['yields']:
            for kk in ('setup', 'calc_dep', 'getargs', 'wild'):
                if y.get(kk):
                    st.count('created-task:%s' % kk)
            if y.get('utd_fn') is not None:
                st.count('created-task:uptodate-callable=%s' % y['utd_fn'])
    for why in unmodelled(case):
        st.count('monitors-only(outside M1+):%s' % why)
    if extended(case) and ans.get('x'):
        # K through the extended model M1+X (Model/DelayedX.lean): which of its new transitions the accepted run took
        st.count('K:extended-model(M1+X)')
        for why in extended(case):
            st.count('K:extended-model(M1+X):created-task-with-%s' % why)
        xf = ans.get('x_features') or {}
        for key, label in (('setup_two_selects', 'X:selectStep:setup-task-selected-twice-then-started'),
                           ('setup_not_scheduled', 'X:selectStep:setup-owner-utd-or-unmet(setup-tasks-not-scheduled)'),
                           ('calc_processed', 'X:addWaitCalc/wakeOne:calc_dep-list-processed'),
                           ('calc_delivered', 'X:calcNode:task_dep-delivered-by-calc_dep')):
            if xf.get(key):
                st.count(label, xf[key])
        if ans.get('accept') and xf.get('start_after_all') is False:
            st.count('X:startAfterOK-false-on-accepted-model-run')
    if obs.get('getarg'):
        st.count('getargs-values-checked', len(obs['getarg']))
    if obs.get('creator_kw'):
        st.count('creator-kwargs-checked', len(obs['creator_kw']))
    if case.get('absent'):
        st.count('selected-target-file-absent')
    if case['sel']:
        an0 = analyse(case)
        for w in case['sel']:
            ms = [l for l, x in an0['matches'] if x == w]
            if case.get('auto'):
                ms = sorted(set(ms) | set(l for l, (p_, c_) in enumerate(an0['loaders']) if not case['creators'][c_]['regex']))
            if len(ms) >= 2:
                prod = [i for i, l in enumerate(ms)
                        if any(w in d['targets'] for d in make_tasks(case['creators'][an0['loaders'][l][1]], an0['loaders'][l][0]))]
                st.count('regex-word:matched-by>=2-loaders,%s%s' % (
                    'producer-first' if prod[:1] == [0] else 'producer-later' if prod else 'no-producer',
                    ',file-absent' if w in (case.get('absent') or []) else ''))
    st.count('runs-in-one-process:%d' % len(runs_of(case)))
    if case.get('runs'):
        for r in case['runs']:
            st.count('rerun:same-selection' if r['sel'] == case['sel'] else 'rerun:other-selection')
        st.count('rerun:creators-per-run=%s' % obs.get('creators_per_run'))
    if sig_subtask_then_regex({'case': case}):
        st.count('shape:subtask-word-then-regex-target (F-C15a)')
    if uncovered_creates(case):
        st.count('shape:creates-name-not-yielded (F-C15b)')
    if case.get('auto'):
        st.count('flag:auto-delayed-regex')
    if case.get('cont'):
        st.count('flag:continue')
    n_cre = sum(1 for e in obs['events'] if e[0] == 'creator')
    st.count('evaluated-creators:%d' % min(n_cre, 4))
    st.count('impl-err:%s' % obs['err'])
    st.count('impl-exit:%s' % obs['exit'])
    if 'wf' in ans:
        for k, v in ans['wf'].items():
            st.count('hyp:%s=%s' % (k, 'true' if v else 'false'))
        st.count('filter:%s' % ans.get('filter'))
        if ans.get('exhausted'):
            st.count('accept:search-budget-exhausted')
        v = ans.get('visited', 0)
        st.count('accept-states:%s' % ('<=50' if v <= 50 else '<=500' if v <= 500 else '<=5000' if v <= 5000 else '>5000'))
    if any(e[0] == 'unmet' for e in obs['events']):
        st.count('trace:unmet-dependency')
    if any(e[0] == 'skip' for e in obs['events']):
        st.count('trace:skip-uptodate')


def eval_batch(batch):
    """worker: batch = {'cases': [...]} or {'gen': [(seed, runner, knobs)...]}"""
    st = common.WorkerStats()
    cases = list(batch.get('cases', []))
    for seed, runner, knobs in batch.get('gen', []):
        cases.append(gen_case(random.Random(seed), runner, knobs))
    deadline = batch.get('deadline')
    todo = []
    for c in cases:
        if deadline and time.time() > deadline:
            st.count('not_run_budget_exhausted')
            continue
        todo.append(c)
    shrink_left = batch.get('shrink_s', 10.0)
    # evaluate in chunks so that one driver call serves several cases
    for i in range(0, len(todo), 20):
        for case, obs, ans in eval_cases(todo[i:i + 20]):
            nontriv = any(e[0] == 'creator' for e in obs['events'])
            st.case({'case': render(case_key(case)), 'schedule': case.get('schedule')}, nontriv)
            st.traces += 1
            count_case(st, case, obs, ans)
            failed, div = judge_one(case, obs, ans)
            if failed:
                small = case
                want = set(f.split(':')[0] for f in failed)
                known = False
                if shrink_left > 0 and not known and len(st.violations) < 2:
                    t0 = time.time()
                    small = shrink(case, want, max_seconds=min(shrink_left, 12.0))
                    shrink_left -= time.time() - t0
                (c2, o2, a2), = eval_cases([small])
                f2, _ = judge_one(c2, o2, a2)
                if not f2:
                    c2, o2, a2, f2 = case, obs, ans, failed
                st.violation({'case': case_key(c2), 'rendered': render(c2), 'obs': o2, 'failed': f2,
                              'names': analyse(run_case(c2, o2.get('run', 0)))['names'], 'answer': {k: a2.get(k) for k in ('prop', 'wf', 'accept')}},
                             f2, 'monitor false on the implementation trace: %s' % '; '.join(f2))
            elif div:
                # a divergence must reproduce: a leftover daemon thread of an earlier case in this worker process can still
                # hold sys.stderr (doit's per-action stream swap, finding stdout-overlap-threads), and then the error text of
                # THIS case is lost and the outcome cannot be classified.  Evaluate the case once more before counting it.
                try:
                    (c3, o3, a3), = eval_cases([case])
                    f3, d3 = judge_one(c3, o3, a3)
                except Exception:  # noqa
                    f3, d3 = None, div
                if not d3 and not f3:
                    st.count('divergence_not_reproduced_on_rerun')
                    continue
                st.divergence({'case': case_key(case), 'rendered': render(case), 'obs': obs,
                               'names': analyse(run_case(case, obs.get('run', 0)))['names'], 'answer': ans}, div)
    return st


# ======================================================================================================
# 5. entry points
# ======================================================================================================

def exhaustive_cases():
    """small scope, exhaustively: one trigger, one creator in each style x {executed up-to-date, run, failing} x
    selection shapes x runner serial/thread-2"""
    out = []
    for style in ('subs', 'creates2', 'single'):
        for trig in ('run', 'utd', 'fails', None):
            for selkind in ('all', 'placeholder', 'created', 'target', 'two-targets', 'late'):
                for runner in ('serial', 'thread'):
                    # `lib` builds a file the second created task consumes (implicit task_dep through the global
                    # target map); nothing selects `lib` by name
                    static = [{'name': 's0', 'task_dep': [], 'targets': [], 'utd': trig == 'utd',
                               'fails': trig == 'fails', 'late': False},
                              {'name': 'lib', 'task_dep': [], 'targets': ['t_lib'], 'utd': False, 'fails': False,
                               'late': False}]
                    mk = lambda **kw: dict({'task_dep': [], 'targets': [], 'file_dep': [], 'utd': False, 'fails': False}, **kw)
                    if style == 'subs':
                        cr = {'fname': 'g', 'creates': None, 'yields': [mk(kind='sub', sub='x', targets=['o_x']),
                                                                         mk(kind='sub', sub='y', targets=['o_y'], file_dep=['t_lib'])]}
                        ph, created = ['g'], 'g:y'
                    elif style == 'creates2':
                        cr = {'fname': 'g', 'creates': ['ca', 'cb'],
                              'yields': [mk(kind='base', basename='ca', targets=['o_x']),
                                         mk(kind='base', basename='cb', targets=['o_y'], task_dep=['ca'], file_dep=['t_lib'])]}
                        ph, created = ['ca', 'cb'], 'cb'
                    else:
                        cr = {'fname': 'g', 'creates': None, 'yields': [mk(kind='base', basename='g', targets=['o_x', 'o_y'],
                                                                         file_dep=['t_lib'])]}
                        ph, created = ['g'], 'g'
                    cr['executed'] = 's0' if trig else None
                    cr['regex'] = 'o_.*'
                    order = ['@static', 'g']
                    sel = {'all': None, 'placeholder': ph[:], 'created': [created], 'target': ['o_y'],
                           'two-targets': ['o_x', 'o_y'], 'late': ['late0']}[selkind]
                    if selkind == 'late':
                        static.append({'name': 'late0', 'task_dep': list(reversed(ph)) + ['s0'], 'targets': [],
                                       'utd': False, 'fails': False, 'late': True})
                        order.append('@late')
                    case = {'static': static, 'creators': [cr], 'order': order, 'sel': sel, 'auto': False,
                            'cont': trig == 'fails', 'runner': runner, 'nproc': 2 if runner == 'thread' else 0}
                    if runner == 'thread':
                        # the same namespace under differently biased schedules of the deterministic scheduler
                        for pol in ({'kind': 'seeded', 'seed': len(out)}, {'kind': 'fifo', 'seed': 1},
                                    {'kind': 'lifo', 'seed': 2}, {'kind': 'main_last', 'seed': 3},
                                    {'kind': 'main_first', 'seed': 4}):
                            out.append(dict(copy.deepcopy(case), policy=pol))
                    else:
                        out.append(case)
                        # the same namespace object three times in one process: same selection again, then `all`
                        # (resp. the created task when the first selection was `all`)
                        out.append(dict(copy.deepcopy(case),
                                        runs=[{'sel': copy.deepcopy(sel), 'auto': False},
                                              {'sel': None if sel is not None else [created], 'auto': False}]))
    return out


def run(ctx, scale=1.0):
    quick = ctx.tier == 'quick'
    corpus = []
    for name, c in common.load_corpus(PROP):
        c['corpus'] = name
        corpus.append(c)
    ctx.count('corpus', len(corpus))
    plain = [c for c in corpus if c['runner'] != 'process']
    procs = [c for c in corpus if c['runner'] == 'process']
    ex = exhaustive_cases()
    ctx.extra['exhaustive_small_scope'] = {'cases': len(ex), 'what': '3 creator styles x 4 trigger states x 6 selection '
                                           'shapes x {serial, serial run 3 times in one process, thread-2 under 5 schedule policies}'}
    rng = ctx.rng
    n_rand = int((3000 if quick else 60000) * ctx.boost * scale)
    n_proc = int((6 if quick else 150) * min(ctx.boost, 2) * scale)
    gen = [(rng.randrange(1 << 60), None, None) for _ in range(n_rand)]
    size = 25 if quick else 60
    batches = [{'cases': plain, 'shrink_s': 12.0}] if plain else []
    batches += [{'cases': ex[i:i + 24], 'shrink_s': 8.0} for i in range(0, len(ex), 24)]
    batches += [{'gen': gen[i:i + size], 'shrink_s': 8.0} for i in range(0, len(gen), size)]
    pgen = [(rng.randrange(1 << 60), 'process', None) for _ in range(n_proc)]
    pbatches = ([{'cases': procs, 'shrink_s': 5.0}] if procs else []) + \
               [{'gen': pgen[i:i + 3], 'shrink_s': 5.0} for i in range(0, len(pgen), 3)]
    deadline = time.time() + max(10.0, 0.8 * ctx.time_left())
    for b in batches + pbatches:
        b['deadline'] = deadline
    for st in common.pmap(eval_batch, batches):
        st.merge_into(ctx)
    if ctx.violations:
        ctx.count('process_batches_skipped_after_violation')
    else:
        for st in runlib.fork_map(eval_batch, pbatches, procs=3):
            st.merge_into(ctx)
    ctx.extra['hypotheses'] = {k: v for k, v in ctx.dist.items() if k.startswith('hyp:')}


def search(ctx):
    ctx.rng.seed(ctx.seed * 1000003 + 7919)
    run(ctx, scale=2.0 if ctx.time_left() > 0.5 * (ctx.budget_s or 30) else 0.7)


def replay(ctx, data):
    w = data.get('witness') or {}
    case = w.get('case')
    if not case:
        print('nothing to replay (no failing input was found): %s' % data.get('note'))
        return False
    case = copy.deepcopy(case)
    runs, = eval_runs([case])
    print('\n'.join(render(case)))
    ok = True
    for j, (c, obs, ans) in enumerate(runs):
        names = analyse(c)['names']
        if len(runs) > 1:
            print('--- run %d of %d in this process: doit %s' % (j + 1, len(runs), ' '.join(argv_of(c))))
        print('implementation trace:')
        for e in obs['events']:
            print('   %-8s %s' % (e[0], ('creator #%d (task_%s)' % (e[1], c['creators'][e[1]]['fname'])) if e[0] == 'creator'
                                  else names[e[1]]))
        if obs['unknown']:
            print('   reported tasks no creator declares:', obs['unknown'])
        print('exit=%s err=%s' % (obs['exit'], obs['err']))
        failed, div = judge_one(c, obs, ans)
        print('monitors:', json.dumps(ans.get('prop')))
        print('model accepts the trace:', ans.get('accept'), '| hypotheses:', json.dumps(ans.get('wf')))
        if failed:
            print('FAILED:', '; '.join(failed))
        if div:
            print('DIVERGENCE:', div)
        ok = ok and not failed and not div
    return ok
