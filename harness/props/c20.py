"""C20 -- introspection commands are read-only and agree with run   (models M2 "status" + Model/Intro.lean; DESIGN §5 C20)

(T) lean/DoitModel/Props/C20.lean: C20_frame (+ _history, _identity, C20_only_documented_removal, C20_no_db_access,
    C20_clean_dry_run), C20_getlog_agrees_full (+ _history, _on_upToDate), C20_list_status_agrees,
    C20_decision_is_what_run_does, C20_list_lines_agree / _threaded, C20_info_status_agrees_full,
    C20_info_agrees_with_list, C20_info_ignored_agrees, C20_info_upToDate_iff, C20_reasons_true, C20_reasons_complete,
    C20_reasons_changed_is_true; the trees before the three fix: commits: C20_pinned_getlog_agrees_iff,
    C20_pinned_getlog_{error_overwritten,error_hidden,}_counterexample, C20_pinned_info_{ignored_,}counterexample.
(K) statuslib histories are executed by the real doit (statuslib's own correspondence of the history is evaluated: a
    history that diverges from Model/Status.lean in one of its own ops is counted and its later probes are skipped --
    that correspondence is reported by C03/C04/C13, which own it); at
    probe points the scratch directory (files + DB) is copied and every read-only command is run through the CLI
    in-process on a copy: `list` in all option combinations that matter, `info t` / `info --no-status t`, `help`,
    `help task`, `help <task>`, `help <cmd>`, `dumpdb`, `tabcompletion` (bash, zsh, --hardcode-tasks), `clean -n`
    with -c / -a / --forget / task names.  Compared with the Lean model (driver "c20", `Model/Intro.lean`):
    status letters of `list -s` line by line, status word and every reason of `info`, the DB write operations
    (set / remove / remove_all calls seen by wrapping the backend classes) and the logical DB afterwards.
(P) on the implementation's behaviour alone: frame of the logical DB (Lean predicate `Intro.frameHolds` through the
    driver), of the scratch tree (names, digests, mtimes), no task / clean / teardown action executed (event log written
    by the generated actions), every `list -s` letter and every `info` status word against the decision an immediately
    following `doit run -c` takes on another copy (Lean predicate `Intro.agreeHolds`; only tasks whose dependencies
    were all up-to-date in that run), every printed reason against the world (Python predicate: a simple trace
    predicate on files, definitions and the DB dump).
Shared machinery: harness/statuslib.py (wrapped, not edited).
"""
import contextlib
import functools
import gc
import hashlib
import json
import os
import random
import re
import shutil

import common
import statuslib
from statuslib import tname, fname

META = {
    'property': 'C20',
    'lean_props': ['DoitModel.Props.C20'],
    'level': 'proof',
    'budget': {'quick': 40, 'thorough': 420},
    'anchors': ['doit/cmd_list.py::List._execute', 'doit/cmd_list.py::List._print_task',
                'doit/cmd_list.py::List._list_filtered', 'doit/cmd_list.py::List._list_all',
                'doit/cmd_info.py::Info._execute', 'doit/cmd_info.py::Info.get_reasons',
                'doit/cmd_help.py::Help.execute', 'doit/cmd_help.py::Help._execute',
                'doit/cmd_dumpdb.py::DumpDB.execute', 'doit/cmd_completion.py::TabCompletion.execute',
                'doit/cmd_clean.py::Clean.clean_tasks', 'doit/cmd_clean.py::Clean._execute',
                'doit/task.py::Task.clean', 'doit/task.py::clean_targets',
                'doit/dependency.py::Dependency.get_status', 'doit/dependency.py::DependencyStatus',
                'doit/dependency.py::Dependency.status_is_ignore', 'doit/cmd_base.py::DoitCmdBase.execute',
                'doit/runner.py::Runner.select_task'],
    'technique': 'Lean 4 proofs over the status model extended with the introspection commands as DB programs (frame '
                 'relation closed under composition; exact characterisation of get_log=True vs get_log=False by '
                 'boolean case analysis; reasons by list lemmas) + differential correspondence of every read-only '
                 'command against real doit on copies of real scratch trees + frame / agreement monitors',
    'design_ref': '§5 C20, §4 M2/M8',
    'level_text': 'Machine-checked: in every state of the status model (so in every state reachable by a history) a '
                  'read-only command (list with/without --status over any print list, info with/without --no-status, '
                  'clean --dry-run with any flags, help, dumpdb, tabcompletion) leaves files, definitions and every '
                  'DB record unchanged except that a record naming another checker than the configured one may be '
                  'removed as a whole; the write trace consists of such removals only, and is empty for help / dumpdb '
                  '/ tabcompletion / list without -s / info --no-status / clean -n.  `list -s` shows for each task '
                  'the decision of select_task in the state the line is printed in, which is what runTask then does; '
                  'get_status(get_log=True) gives the status of get_status(get_log=False), and `info` shows the '
                  'decision of run (ignore / up-to-date / run / error), in every state without a saved state of the '
                  'wrong shape (unconditionally after every history without a checker switch, and always on '
                  'up-to-date); the reasons info prints are each true (changed_file_dep exactly w.r.t. what the last '
                  'recorded execution saw) and are '
                  'empty exactly when it says up-to-date.  The model is tied to doit on every run by executing '
                  'every read-only command on copies of scratch trees reached by generated and small-scope '
                  'exhaustive histories (3 backends x 2 checkers) and diffing letters, words, reasons, DB write '
                  'calls and DB content; the monitors evaluate the property statement on the implementation alone '
                  '(snapshots around the command, event log, and a real `doit run` as the oracle of the decision).',
    'level_note': 'All theorems are at full strength; the three design-time items of F-C20 (info never showed ignore; '
                  'a later changed_file_dep overwrote error; an early run hid a later error) are repaired in /repo and '
                  'kept as C20_pinned_*_counterexample theorems over infoShownPinned / logStatusPinned and as '
                  'seeded/revert-F-C20-info-ignore, seeded/revert-F-C20-info-status.  Hypothesis of the two _full '
                  'theorems: no saved state of the wrong shape (the unhandled TypeError of MD5Checker on a '
                  'TimestampChecker state, findings/pending/C03-md5-on-timestamp-state.md).  Which backend persists the documented removal (only dbm: write-through remove, '
                  'the commands never close()) is observed, not modelled.  The content of help / tabcompletion / '
                  'dumpdb output is not modelled (trivial frame facts; observation only).  reasons_true is about the '
                  'saved state (signatures in the DB), the link of the saved state to what the last execution saw is '
                  'C03/C04\'s invariant.',
    'rule': 'statuslib histories (4-14 ops over 1-4 tasks, 1-3 source files, target->file_dep and result_dep edges) '
            'with a perturbation suffix (touch / edit / delete of a dependency or target, checker switch, ignore, '
            'redefinition; ignore of a whole group followed by forget / reset-dep of one sub-task) before the last probe; 40% of '
            'the multi-task histories put some tasks under a group task g as sub-tasks g:t<i> (a naming layer: model and '
            'history keep talking about task i); clean attributes vary over 16 kinds (targets, cmd, python callables with '
            '/ without a dryrun parameter: plain, **kwargs, *args, defaults, partials, callable objects), 1-2 probe points per history, each probe = 25-35 read-only command '
            'lines on copies + one oracle run; exhaustive tier: every word of length <= 2 (quick) / 3 (thorough) over a '
            '12-letter perturbation alphabet after a successful run of a task with two dependencies and a target, and over '
            'an 8-letter alphabet on two sub-tasks of one group (ignore group / one, forget one / other, touch, run, checker, '
            'reset-dep); '
            'non-trivial = some task shown not-run and some task shown run/error over the probes of the case, or a '
            'documented removal happened; distinct = distinct rendered history incl. backend, checker, probes',
    'assumptions': ['mtimes are set by the harness from an integer clock; md5 is treated as an injective content id',
                    'only dbm.dumb is available as dbm implementation in this sandbox',
                    'uptodate callables are pure functions returning True/False/None; shell items are `true`/`false`',
                    'the decision oracle is a real `doit run -c` on a copy of the tree taken at the same moment; '
                    'shown statuses are compared only for tasks whose (implicit) task dependencies were all '
                    'up-to-date in that run, as the property says'],
    'trusted': ['task ordering/selection inside one `doit run` is taken from the implementation\'s reporter stream',
                'backends are exercised, not modelled here (C07)',
                'DB write calls are observed by wrapping set/remove/remove_all/dump of the three backend classes in '
                'the harness process (no change in /repo)',
                'importlib.metadata.entry_points (plugin discovery of doit) is memoised per worker process: the '
                'installed distributions do not change during a run'],
    'models': ['M2', 'M8'],
}

CK_NAME = {'md5': 'MD5Checker', 'timestamp': 'TimestampChecker'}
CLEAN_KINDS = ['none', 'targets', 'plain', 'aware+plain', 'plain+aware', 'cmd', 'aware',
               # callables of other shapes that do NOT take `dryrun` (must not run on a dry run) ...
               'kwargs', 'args', 'default', 'partial', 'object', 'aware+kwargs',
               # ... and that do (documented: called with dryrun=True, responsible for doing nothing)
               'partial-aware', 'object-aware', 'aware-default']
GROUP = 'g'          # basename of the group task when a case has sub-tasks
LINKS_TASK = 'zlinks'   # task (outside the model) whose targets are symbolic links / directories, `clean: True`
LINK_TARGETS = ['lnk-file', 'lnk-emptydir', 'lnk-dir', 'lnk-dangling', 'rd-empty', 'rd-full']
DB_SUFFIX = {'json': {''}, 'dbm': {'.dat', '.dir', '.bak'}, 'sqlite3': {'', '-journal', '-wal', '-shm'}}


# ----------------------------------------------------------------------------------------------
# signatures of the open findings

SIGNATURES = {}     # no open finding: the three design-time items of F-C20 are repaired in /repo (fixed: lines)


# ----------------------------------------------------------------------------------------------
# the world with an event log and clean actions

class C20World(statuslib.World):
    case = None          # set by run_case before statuslib.evaluate
    last = None

    queue = []           # cases of the batch being evaluated (one World is created per case, in order)
    made = []

    def __init__(self, *a, **k):
        super(C20World, self).__init__(*a, **k)
        if C20World.queue:
            self.case = C20World.queue.pop(0)
        C20World.made.append(self)
        self.events = []
        self.n_dump = 0
        self.probe_out = {}
        self.in_probe = False
        C20World.last = self
        if (self.case or {}).get('zlinks'):
            make_link_fixtures()

    def namespace(self):
        world = self
        ns = super(C20World, self).namespace()
        kinds = (self.case or {}).get('clean') or {}
        for t in range(self.ntasks):
            inner_creator = ns['task_' + tname(t)]

            def creator(inner_creator=inner_creator, t=t):
                d = inner_creator()
                inner = d['actions'][0]

                def action(v=None, inner=inner, t=t):      # `v`: the getargs value statuslib's action takes
                    world.events.append(('action', t))
                    return inner(v)

                def plain_clean(t=t):
                    world.events.append(('clean', t))
                    with open('cleaned-%d' % t, 'w') as f:
                        f.write('x')

                def aware_clean(dryrun, t=t):
                    world.events.append(('clean-aware', t, bool(dryrun)))
                    if not dryrun:
                        with open('cleaned-%d' % t, 'w') as f:
                            f.write('x')

                def kwargs_clean(**opts):
                    plain_clean()

                def args_clean(*args):
                    plain_clean()

                def default_clean(flag=False, t=t):
                    plain_clean()

                def two_args_clean(tag, t2):
                    plain_clean()

                class ObjClean(object):
                    def __call__(self):
                        plain_clean()

                class ObjAwareClean(object):
                    def __call__(self, dryrun):
                        aware_clean(dryrun)

                def aware3(tag, dryrun):
                    aware_clean(dryrun)

                def aware_default(dryrun=False, t=t):
                    aware_clean(dryrun)

                def teardown(t=t):
                    world.events.append(('teardown', t))

                d['actions'] = [action]
                if world.group():                          # names of other tasks: sub-tasks are `g:t<i>`
                    if d.get('task_dep'):
                        d['task_dep'] = [world.rname(int(x[1:])) for x in d['task_dep']]
                    if d.get('getargs'):
                        d['getargs'] = {k: (world.rname(int(v[0][1:])), v[1]) for k, v in d['getargs'].items()}
                d['teardown'] = [teardown]
                d['doc'] = 'doc of t%d' % t
                kind = kinds.get(str(t), 'none')
                if kind == 'targets':
                    d['clean'] = True
                elif kind == 'plain':
                    d['clean'] = [plain_clean]
                elif kind == 'aware':
                    d['clean'] = [aware_clean]
                elif kind == 'aware+plain':
                    d['clean'] = [aware_clean, plain_clean]
                elif kind == 'plain+aware':
                    d['clean'] = [plain_clean, aware_clean]
                elif kind == 'cmd':
                    d['clean'] = ['echo x > cleaned-%d' % t]
                elif kind == 'kwargs':
                    d['clean'] = [kwargs_clean]
                elif kind == 'args':
                    d['clean'] = [args_clean]
                elif kind == 'default':
                    d['clean'] = [default_clean]
                elif kind == 'partial':
                    d['clean'] = [functools.partial(two_args_clean, 'x', t)]
                elif kind == 'object':
                    d['clean'] = [ObjClean()]
                elif kind == 'aware+kwargs':
                    d['clean'] = [aware_clean, kwargs_clean]
                elif kind == 'partial-aware':
                    d['clean'] = [functools.partial(aware3, 'x')]
                elif kind == 'object-aware':
                    d['clean'] = [ObjAwareClean()]
                elif kind == 'aware-default':
                    d['clean'] = [aware_default]
                return d
            ns['task_' + tname(t)] = creator
        grp = self.group()
        if grp:
            subs = [(t, ns.pop('task_' + tname(t))) for t in sorted(grp)]

            def task_g(subs=subs):
                for t, creator in subs:
                    d = creator()
                    d['name'] = tname(t)
                    yield d
            task_g.__name__ = 'task_' + GROUP
            ns = dict([('task_' + GROUP, task_g)] + list(ns.items())) if (self.case or {}).get('group_first', True) \
                else dict(list(ns.items()) + [('task_' + GROUP, task_g)])
        if (self.case or {}).get('zlinks'):
            # a task outside the model (no action, `clean: True`) whose targets are symbolic links and directories
            def task_zlinks():
                return {'actions': None, 'targets': list(LINK_TARGETS), 'clean': True, 'doc': 'links and directories'}
            ns['task_' + LINKS_TASK] = task_zlinks
        return ns

    # -- sub-tasks: a naming layer.  Task i of a case with 'group': [..i..] is the sub-task `g:t<i>` of the group task
    #    `g` (no action of its own).  Histories, model and driver keep talking about task i.
    def group(self):
        return set((self.case or {}).get('group') or [])

    def rname(self, t):
        return '%s:%s' % (GROUP, tname(t)) if t in self.group() else tname(t)

    def _uptodate(self, item, t=None):
        if item[0] == 'res' and item[1] in self.group():
            from doit.task import result_dep
            return result_dep(self.rname(item[1]))
        return super(C20World, self)._uptodate(item, t)

    def translate(self, argv):
        grp = self.group()
        if list(argv) == ['reset-dep']:
            # all tasks, in index order (statuslib reads the outcomes in that order; the group task has no state)
            argv = ['reset-dep'] + [tname(t) for t in range(self.ntasks)]
        named = [int(a[1:]) for a in argv[1:] if re.match(r'^t\d+$', a)]
        out = []
        # `doit ignore` naming every sub-task is issued as `doit ignore g` (marks the group and all its sub-tasks)
        whole = argv and argv[0] == 'ignore' and grp and grp <= set(named)
        done = False
        for a in argv:
            if re.match(r'^t\d+$', a) and int(a[1:]) in grp:
                if whole:
                    if not done:
                        out.append(GROUP)
                        done = True
                else:
                    out.append(self.rname(int(a[1:])))
            else:
                out.append(a)
        return out

    def doit(self, argv, reporter=None):
        if not self.group() and not (self.case or {}).get('zlinks'):
            return super(C20World, self).doit(argv, reporter)
        inner = statuslib.RecordingReporter() if reporter is not None else None
        code, out, err = super(C20World, self).doit(self.translate(list(argv)), inner)
        if reporter is not None:
            reporter.events = [(k, None if n is None else n.split(':', 1)[-1], i) for k, n, i in inner.events
                               if n not in (GROUP, LINKS_TASK)]
        unname = lambda text: re.sub(r'\b%s:(t\d+)\b' % GROUP, r'\1', text)   # noqa: E731
        return code, unname(out), unname(err)

    def _dump_names(self):
        from doit import dependency as dep
        cls = {'json': dep.JsonDB, 'dbm': dep.DbmDB, 'sqlite3': dep.SqliteDB}[self.backend]
        db = cls(self.db, codec=dep.JSONCodec())
        out = []
        try:
            for t in range(self.ntasks):
                name = self.rname(t)
                rec = {}
                for key in ['_values_:', 'result:', 'checker:', 'deps:', 'ignore:']:
                    rec[key] = db.get(name, key)
                if isinstance(rec['_values_:'], dict):      # `_result:g:t0` (result_dep on a sub-task) -> `_result:t0`
                    rec['_values_:'] = {k.replace('_result:%s:' % GROUP, '_result:'): v
                                        for k, v in rec['_values_:'].items()}
                rec['files'] = {p: db.get(name, fname(p)) for p in range(self.npaths)}
                out.append(rec)
        finally:
            try:
                if self.backend == 'dbm':
                    db._dbm.close()
                elif self.backend == 'sqlite3':
                    db._conn.close()
            except Exception:  # noqa
                pass
        return out

    def dump(self):
        out = self._dump_names() if self.group() else super(C20World, self).dump()
        if self.in_probe:
            return out
        i = self.n_dump
        self.n_dump += 1
        case = self.case or {}
        nops = len(case.get('ops', []))
        for pos, spec in case.get('probes', []):
            p = pos if pos >= 0 else nops + pos
            if p == i:
                self.in_probe = True
                try:
                    self.probe_out[i] = run_probe(self, spec)
                finally:
                    self.in_probe = False
        return out


@contextlib.contextmanager
def record_backend_calls():
    """wrap the write methods of the three backend classes of the tree under test (harness-side, undone on exit)"""
    from doit import dependency as dep
    calls, saved = [], []
    for cls in (dep.JsonDB, dep.DbmDB, dep.SqliteDB):
        for name in ('get', 'in_', 'set', 'remove', 'remove_all', 'dump'):
            orig = cls.__dict__.get(name)
            if orig is None:
                continue

            def make(orig, name):
                def wrapper(self, *a, **k):
                    calls.append((name, a[0] if a else None))
                    return orig(self, *a, **k)
                return wrapper
            setattr(cls, name, make(orig, name))
            saved.append((cls, name, orig))
    try:
        yield calls
    finally:
        for cls, name, orig in saved:
            setattr(cls, name, orig)


def memoize_entry_points():
    """doit scans the metadata of every installed distribution three times per command line
    (`importlib.metadata.entry_points`, ~7 ms each: half of the CPU time of a probe).  The installed distributions do
    not change during a run: the answer is computed once per group and worker process."""
    import importlib.metadata as md
    if getattr(md.entry_points, '_c20_cached', False):
        return
    orig, cache = md.entry_points, {}

    def entry_points(**params):
        key = tuple(sorted(params.items()))
        if key not in cache:
            cache[key] = orig(**params)
        return cache[key]
    entry_points._c20_cached = True
    md.entry_points = entry_points


def release_db(collect=True):
    """doit keeps the last Dependency object in `doit.globals.Globals.dep_manager`; its dbm.dumb handle re-writes its
    index file -- through a *relative* path -- when it is finalised after a removal.  A real command is one process
    in one directory; here many commands run in one process in changing directories, so the handle is released while
    the working directory is still the one the command ran in (what process exit does)."""
    try:
        from doit.globals import Globals
        Globals.dep_manager = None
    except Exception:  # noqa
        pass
    if collect:
        gc.collect()


def raw_keys(world):
    """the task ids present in the DB file, read without doit (a key no task owns is invisible to the per-task dump)"""
    try:
        if world.backend == 'dbm':
            import dbm.dumb
            if not os.path.exists(world.db + '.dir'):
                return []
            d = dbm.dumb.open(world.db, 'r')
            try:
                return sorted(k.decode('utf-8', 'replace') for k in d.keys())
            finally:
                d.close()
        if world.backend == 'json':
            if not os.path.exists(world.db):
                return []
            with open(world.db) as f:
                return sorted(json.load(f).keys())
        import sqlite3
        if not os.path.exists(world.db):
            return []
        conn = sqlite3.connect(world.db)
        try:
            return sorted(r[0] for r in conn.execute('select task_id from doit').fetchall())
        finally:
            conn.close()
    except Exception as ex:  # noqa
        return ['exc:' + type(ex).__name__]


def make_link_fixtures():
    """in the current (scratch) directory: symbolic links to a file, to an empty directory, to a non-empty directory,
    to nothing; a real empty and a real non-empty directory -- the targets of task `zlinks`"""
    os.mkdir('ld-empty')
    os.mkdir('ld-full')
    os.mkdir('rd-empty')
    os.mkdir('rd-full')
    for n in ('ld-full/x', 'rd-full/x', 'lf-file'):
        with open(n, 'w') as f:
            f.write('x')
        os.utime(n, ns=(900 * statuslib.NS, 900 * statuslib.NS))
    os.symlink('lf-file', 'lnk-file')
    os.symlink('ld-empty', 'lnk-emptydir')
    os.symlink('ld-full', 'lnk-dir')
    os.symlink('nowhere', 'lnk-dangling')


def tree_entry(name):
    """a link is its destination string (never followed), a directory its entries (recursively), a file digest+mtime"""
    if os.path.islink(name):
        return ['link', os.readlink(name)]
    if os.path.isdir(name):
        return ['dir', [[n, tree_entry(os.path.join(name, n))] for n in sorted(os.listdir(name))]]
    with open(name, 'rb') as f:
        data = f.read()
    return [hashlib.sha1(data).hexdigest()[:12], os.stat(name).st_mtime_ns]


def raw_fingerprint():
    """bytes of every file of the directory (DB files: content only -- `clean` re-dumps an unchanged json DB; other
    files: content and mtime).  Equal fingerprints imply equal snapshots, so the logical dump can be skipped."""
    out = []
    for name in sorted(os.listdir('.')):
        if name.startswith('deps-') and not os.path.islink(name) and os.path.isfile(name):
            with open(name, 'rb') as f:
                out.append((name, hashlib.sha1(f.read()).hexdigest()))
        else:
            out.append((name, tree_entry(name)))
    return out


def snapshot(world, like=None):
    """logical DB (backend API), non-DB files (digest, mtime), names of the DB files; `stat`: what the checkers see.
    `like` = an earlier snapshot: returned as is when the directory is byte-identical to what it was then."""
    raw = raw_fingerprint()
    if like is not None and like.get('raw') == raw:
        return like
    files, dbfiles, stat = {}, [], {}
    for p in range(world.npaths):
        n = fname(p)
        if os.path.exists(n):
            st = os.stat(n)
            with open(n, 'rb') as f:
                stat[p] = {'mtime': st.st_mtime, 'size': st.st_size, 'md5': hashlib.md5(f.read()).hexdigest()}
    for name in sorted(os.listdir('.')):
        if name.startswith(world.db):
            dbfiles.append(name)
            continue
        files[name] = tree_entry(name)
    try:
        db = world.dump()
    except Exception as ex:  # noqa
        db = ['exc', type(ex).__name__]
    keys = raw_keys(world)
    # reading must not have changed anything either (dbm.dumb / sqlite3 opened read-only by the dump)
    return {'files': files, 'dbfiles': dbfiles, 'db': db, 'stat': stat, 'keys': keys, 'raw': raw_fingerprint()}


def rec_absent(rec):
    return all(rec[k] is None for k in ('_values_:', 'result:', 'checker:', 'deps:', 'ignore:')) and \
        all(v is None for v in rec['files'].values())


def rec_fp(rec):
    if rec_absent(rec):
        return None
    return int(hashlib.sha1(common.canon(rec).encode()).hexdigest()[:12], 16)


def parse_list(out):
    """[(letter|None, task index)] per printed task line"""
    res = []
    for line in out.split('\n'):
        m = re.match(r'^(t\d+):([A-Z])$', line)      # --template '{name}:{status}'
        if m:
            res.append((m.group(2), int(m.group(1)[1:])))
            continue
        m = re.match(r'^(?:([A-Z]) )?(t\d+)\b', line)
        if m:
            res.append((m.group(1), int(m.group(2)[1:])))
    return res


SENT = {'The following targets do not exist:': 'missingTarget',
        'The following file dependencies have changed:': 'changed',
        'The following file dependencies are missing:': 'missingDep',
        'The following file dependencies were removed:': 'removed',
        'The following file dependencies were added:': 'added'}
LETTER = {'I': 'ignore', 'U': 'up-to-date', 'R': 'run', 'E': 'error'}


def utd_kind(item):
    head = item.split(' (args=')[0]
    if head in ('False', 'True', 'None', '0'):
        return 'const'
    if 'run_once' in head:
        return 'runOnce'
    if 'config_changed' in head:
        return 'cfg'
    if 'result_dep' in head:
        return 'res'
    if 'custom' in head:
        return 'custom'
    if head in ('false', 'true'):
        return 'shell'
    return 'other:' + head[:30]


def empty_reasons():
    return {'noDeps': False, 'utdFalse': [], 'checkerChanged': None, 'missingTarget': [], 'changed': [],
            'missingDep': [], 'removed': [], 'added': []}


def parse_info(out):
    status, reasons, cur = None, empty_reasons(), None
    for line in out.split('\n'):
        s = line.strip()
        if status is None and re.match(r'^status\s*:', s):
            status = s.split(':', 1)[1].strip()
            continue
        if line.startswith(' * '):
            body = line[3:].strip()
            cur = None
            if body == 'The task has no dependencies.':
                reasons['noDeps'] = True
            elif body.startswith('The following uptodate objects'):
                cur = 'utdFalse'
            elif body.startswith('The file_dep checker changed from'):
                m = re.match(r'The file_dep checker changed from (\w+) to (\w+)\.', body)
                reasons['checkerChanged'] = [statuslib.CK_CLASS.get(m.group(1), m.group(1)),
                                             statuslib.CK_CLASS.get(m.group(2), m.group(2))] if m else ['?', '?']
            elif body in SENT:
                cur = SENT[body]
            else:
                reasons.setdefault('unknown', []).append(body)
        elif line.startswith('    - ') and cur:
            item = line[6:].strip()
            if cur == 'utdFalse':
                reasons[cur].append(utd_kind(item))
            else:
                reasons[cur].append(int(item[1:]) if re.match(r'^f\d+$', item) else item)
        elif not s:
            cur = None
    for k in ('utdFalse', 'missingTarget', 'changed', 'missingDep', 'removed', 'added'):
        reasons[k] = sorted(reasons[k], key=str)
    return status, reasons


def run_probe(world, spec):
    """run every command of the probe on a copy of the current directory; then the oracle run on another copy"""
    base = os.getcwd()
    parent = os.path.dirname(base)
    saved_plan = world.plan
    world.plan = {}
    release_db()
    snap0 = snapshot(world)
    results = []
    copy = [None]
    n = [0]

    def fresh():
        n[0] += 1
        d = os.path.join(parent, '%s-p%d-%d' % (os.path.basename(base), world.n_dump, n[0]))
        shutil.copytree(base, d, symlinks=True)
        return d

    try:
        for argv in spec['cmds']:
            if copy[0] is None:
                copy[0] = fresh()
            os.chdir(copy[0])
            world.events = []
            argv2 = [a.replace('{db}', world.db) for a in argv]
            with record_backend_calls() as calls:
                code, out, err = world.doit(argv2)
            # the finalisation hazard exists only for a handle that wrote something
            release_db(collect=any(c[0] in ('set', 'remove', 'remove_all') for c in calls))
            snap1 = snapshot(world, like=snap0)
            res = {'argv': argv, 'code': code, 'out': out, 'err': err[-400:], 'events': list(world.events),
                   'calls': [list(c) for c in calls], 'after': snap1}
            results.append(res)
            os.chdir(base)
            if snap1 is not snap0:
                shutil.rmtree(copy[0], ignore_errors=True)
                copy[0] = None
        # the oracle: what does `run` decide at this moment
        d = fresh()
        os.chdir(d)
        world.events = []
        rep = statuslib.RecordingReporter()
        code, out, err = world.doit(['run', '-c'], rep)
        release_db()
        os.chdir(base)
        shutil.rmtree(d, ignore_errors=True)
        crash = None
        if code == 3 and 'Traceback' in err:
            crash = statuslib.classify_traceback(err) or 'Exception'
        elif isinstance(code, list):
            crash = code[1]
        oracle = {'steps': [(t, o) for t, o, _ in statuslib.task_steps(rep.events)], 'code': code, 'crash': crash}
    finally:
        os.chdir(base)
        if copy[0]:
            shutil.rmtree(copy[0], ignore_errors=True)
        world.plan = saved_plan
        world.events = []
    return {'before': snap0, 'results': results, 'oracle': oracle, 'checker': world.checker,
            'defs': json.loads(json.dumps(world.defs)), 'group': sorted(world.group())}


# ----------------------------------------------------------------------------------------------
# the command lines of a probe

def list_order(argv, ntasks, group=()):
    """print order (task indices) of a `list` command line: sub-tasks are shown only when named or with --all; lines
    are sorted by the real task name (`g:t1` < `t0`) unless --sort definition; no private tasks in these worlds"""
    group = set(group or ())
    names = [int(a[1:]) for a in argv[1:] if re.match(r'^t\d+$', a)]
    if names:
        base = names
    elif '--all' in argv:
        # definition order: the group's sub-tasks where the group task is defined (first)
        base = sorted(group) + [t for t in range(ntasks) if t not in group]
    else:
        base = [t for t in range(ntasks) if t not in group]
    if 'definition' in argv:
        return base
    return sorted(base, key=lambda t: ('%s:%s' % (GROUP, tname(t))) if t in group else tname(t))


def cmd_shape(argv):
    """the constructor of `Intro.Cmd` a command line maps to (key of the driver's `opensDb` table)"""
    if argv[0] == 'list':
        return 'list -s' if '-s' in argv else 'list'
    if argv[0] == 'info':
        return 'info --no-status' if '--no-status' in argv else 'info'
    return argv[0]


def probe_cmds(rng, ntasks, full=True):
    ts = list(range(ntasks))
    some = sorted(rng.sample(ts, rng.randint(1, ntasks)))
    shuffled = list(ts)
    rng.shuffle(shuffled)
    cmds = [['list'], ['list', '-s'], ['list', '--all', '--deps', '-s'], ['list', '-s', '-q', '-p'],
            ['list', '-s', '--sort', 'definition'] + [tname(t) for t in shuffled],
            ['list', '-s'] + [tname(t) for t in some],
            ['list', '--template', '{name}:{status}', '-s']]
    for t in ts[:3] if full else [rng.choice(ts)]:
        cmds.append(['info', tname(t)])
    cmds.append(['info', '--no-status', tname(rng.choice(ts))])
    cmds += [['clean', '-n'], ['clean', '-n', '--forget'], ['clean', '--dry-run', '-a', '--forget'],
             ['clean', '-n', '-c', '--forget', tname(rng.choice(ts))], ['clean', '-n', tname(rng.choice(ts))]]
    if full:
        cmds += [['help'], ['help', 'task'], ['help', tname(rng.choice(ts))], ['help', 'list'],
                 ['dumpdb', '--db-file', '{db}'], ['tabcompletion'], ['tabcompletion', '--shell', 'zsh'],
                 ['tabcompletion', '--hardcode-tasks']]
    else:
        cmds += [rng.choice([['help'], ['help', 'task'], ['help', tname(rng.choice(ts))],
                             ['dumpdb', '--db-file', '{db}'], ['tabcompletion'],
                             ['tabcompletion', '--hardcode-tasks']])]
    return cmds


# ----------------------------------------------------------------------------------------------
# evaluation of one case: K + P

def _norm(d):
    """a definition as doit sees it: `getargs` from task x adds the implicit uptodate item result_dep(x)
    (Task._init_getargs), exactly as statuslib.model_def hands it to the model"""
    if d.get('getargs') is None:
        return d
    d = dict(d)
    d['uptodate'] = [list(i) for i in d['uptodate']] + [['res', d['getargs']]]
    return d


def closure_deps(defs, ntasks):
    direct = {}
    for t in range(ntasks):
        d = _norm(defs[t] if t in defs else defs[str(t)])
        dd = set()
        for u in range(ntasks):
            if u == t:
                continue
            du = defs[u] if u in defs else defs[str(u)]
            if set(d['deps']) & set(du['targets']):
                dd.add(u)
        for it in d['uptodate']:
            if it[0] == 'res' and it[1] != t:
                dd.add(it[1])
        direct[t] = dd
    clo = {}
    for t in range(ntasks):
        seen, todo = set(), list(direct[t])
        while todo:
            u = todo.pop()
            if u in seen:
                continue
            seen.add(u)
            todo += list(direct.get(u, ()))
        clo[t] = seen
    return clo


ORACLE_MAP = {'ignored': 'ignore', 'up-to-date': 'up-to-date', 'ok': 'run', 'fail': 'run', 'save-missing': 'run',
              'error': 'error'}


def check_reasons(pr, t, status, reasons):
    """(P) every printed reason is true of the world at the probe; returns list of false clauses"""
    bad = []
    before = pr['before']
    d = _norm(pr['defs'][t] if t in pr['defs'] else pr['defs'][str(t)])
    files = before['files']
    rec = before['db'][t] if isinstance(before['db'], list) and before['db'] and before['db'][0] != 'exc' else None
    if rec is None:
        return bad
    cur_ck = CK_NAME[pr['checker']]
    ck_changed = rec['checker:'] is not None and rec['checker:'] != cur_ck
    for p in reasons['missingTarget']:
        if not (p in d['targets'] and fname(p) not in files):
            bad.append('missing_target %s' % p)
    for p in reasons['missingDep']:
        if not (p in d['deps'] and fname(p) not in files):
            bad.append('missing_file_dep %s' % p)
    prev = None if (ck_changed or rec['deps:'] is None) else set(int(x[1:]) for x in rec['deps:'])
    for p in reasons['changed']:
        ok = p in d['deps'] and fname(p) in files
        if ok:
            st = None if ck_changed else rec['files'].get(p)
            # true when: no saved state, or not a dependency of the last recorded execution (a stale state of an
            # older one may survive in the record), or modified by the checker's rule w.r.t. the saved state
            if st is not None and not (prev is not None and p not in prev):
                stt = before['stat'][p]
                if pr['checker'] == 'md5' and isinstance(st, (list, tuple)):
                    ok = (stt['mtime'] != st[0]) and (stt['size'] != st[1] or stt['md5'] != st[2])
                elif pr['checker'] == 'timestamp' and isinstance(st, (int, float)):
                    ok = stt['mtime'] != st
                else:
                    ok = True      # state of the other shape: judged modified (or crashes)
        if not ok:
            bad.append('changed_file_dep %s' % p)
    if reasons['checkerChanged'] is not None:
        a, b = reasons['checkerChanged']
        if not (ck_changed and statuslib.CK_CLASS.get(rec['checker:']) == a and statuslib.CK_MODEL[pr['checker']] == b):
            bad.append('checker_changed')
    for p in reasons['added']:
        if not (prev is not None and p in d['deps'] and p not in prev):
            bad.append('added_file_dep %s' % p)
    for p in reasons['removed']:
        if not (prev is not None and p in prev and p not in d['deps']):
            bad.append('removed_file_dep %s' % p)
    evaluated = [i for i in d['uptodate'] if not (i[0] == 'none' or (i[0] == 'custom' and i[1] is None))]
    if reasons['noDeps'] and (d['deps'] or evaluated):
        bad.append('has_no_dependencies')
    surely_false = sorted(i[0] for i in d['uptodate'] if i[0] in ('const', 'shell', 'custom') and i[1] is False)
    surely_true = [i[0] for i in d['uptodate'] if i[0] in ('const', 'shell', 'custom') and i[1] is True]
    printed = list(reasons['utdFalse'])
    for k in surely_false:
        if k in printed:
            printed.remove(k)
        elif status != 'ignore':     # an ignored task is not examined: `info` prints no reason for it
            bad.append('uptodate_false: a false %s item is not listed' % k)
    maybe = [i[0] for i in d['uptodate'] if i[0] in ('runOnce', 'cfg', 'res')]
    for k in printed:
        if k in maybe:
            maybe.remove(k)
        else:
            bad.append('uptodate_false lists %s which is not a false item of the task' % k)
    if reasons.get('unknown'):
        bad.append('unknown reason line %r' % reasons['unknown'][:1])
    any_reason = reasons['noDeps'] or reasons['checkerChanged'] is not None or any(
        reasons[k] for k in ('utdFalse', 'missingTarget', 'changed', 'missingDep', 'removed', 'added'))
    if status in ('up-to-date', 'ignore') and any_reason:
        bad.append('reasons printed for an %s task' % status)
    if status in ('run', 'error') and not any_reason:
        bad.append('no reason printed for status %s' % status)
    return bad


class Outcome(object):
    def __init__(self):
        self.fails = []         # dicts: clause (frame-db, frame-fs, action, agree-list, agree-info, reasons), ...
        self.divs = []          # dicts: what, cmd, impl, model
        self.counts = {}
        self.base = None        # statuslib Verdict of the history
        self.shown = set()
        self.removal = False
        self.n_cmds = 0

    def count(self, k, n=1):
        self.counts[k] = self.counts.get(k, 0) + n


def run_case(case):
    """execute one case; returns Outcome"""
    return run_cases([case])[0]


def run_cases(cases):
    """execute a batch of cases (one driver process per phase for the whole batch); returns one Outcome per case"""
    common.use_repo()
    memoize_entry_points()
    base_cases = []
    for case in cases:
        bc = statuslib.strip(case)
        bc.pop('hashseed', None)
        base_cases.append(bc)
    saved = statuslib.World
    C20World.queue = list(cases)
    C20World.made = []
    statuslib.World = C20World
    try:
        verdicts = statuslib.evaluate(base_cases)
    finally:
        statuslib.World = saved
        C20World.queue = []
    worlds = list(C20World.made)
    assert len(worlds) == len(cases), (len(worlds), len(cases))
    outs, reqs, wheres = [], [], []
    for case, base_case, v, world in zip(cases, base_cases, verdicts, worlds):
        out = Outcome()
        out.base = v
        outs.append(out)
        probes = world.probe_out
        # model request: the history's model ops with a probe op after each probed history op
        mreq, index = statuslib.to_model_ops(base_case, v.obs)
        ops, where, ins = [], {}, {}
        for i, pr in probes.items():
            if i < len(index):
                ins.setdefault(index[i][1], []).append(i)
        for k, op in enumerate(mreq['ops']):
            for i in ins.get(k, []):
                where[i] = len(ops)
                ops.append(['probe', probe_spec_model(probes[i], case['ntasks'])])
            ops.append(op)
        for i in ins.get(len(mreq['ops']), []):
            where[i] = len(ops)
            ops.append(['probe', probe_spec_model(probes[i], case['ntasks'])])
        reqs.append({'model': 'c20', 'mode': 'model', 'ntasks': case['ntasks'], 'npaths': case['npaths'], 'ops': ops})
        wheres.append(where)
    answers = common.drv_batch(reqs)
    mon_reqs, mon_tags = [], []
    for case, v, world, out, ans, where in zip(cases, verdicts, worlds, outs, answers, wheres):
        if 'error' in ans:
            raise RuntimeError('driver rejected c20 request: %s' % ans['error'])
        checks, check_tags = [], []
        for i, pr in sorted(world.probe_out.items()):
            if i not in where:
                continue
            m = ans['steps'][where[i]]
            if m.get('crashed') or (v.crash and v.crash[0] <= i) or (v.divergence and v.divergence[0] <= i):
                out.count('probe:skipped-after-crash-or-divergence')
                continue
            compare_probe(case, i, pr, m, out, checks, check_tags)
        mon_reqs.append({'model': 'c20', 'mode': 'monitor', 'checks': checks})
        mon_tags.append(check_tags)
    if any(r['checks'] for r in mon_reqs):
        for out, res, check_tags in zip(outs, common.drv_batch(mon_reqs), mon_tags):
            for r, tag in zip(res['checks'], check_tags):
                if 'error' in r:
                    raise RuntimeError('driver rejected c20 check: %s' % r['error'])
                out.count('monitor:%s:%s' % (tag['clause'], 'holds' if r['holds'] else 'FALSE'))
                if not r['holds']:
                    out.fails.append(tag)
    for out, world in zip(outs, worlds):
        out.world = world
    return outs


def probe_spec_model(pr, ntasks):
    lists, infos = [], []
    for r in pr['results']:
        a = r['argv']
        if a[0] == 'list' and ('-s' in a):
            lists.append(list_order(a, ntasks, pr.get('group')))
        elif a[0] == 'info' and '--no-status' not in a:
            infos.append(int(a[-1][1:]))
    return {'lists': lists, 'infos': infos}


def compare_probe(case, i, pr, m, out, checks, check_tags):
    ntasks = case['ntasks']
    before = pr['before']
    db_ok = isinstance(before['db'], list) and (not before['db'] or before['db'][0] != 'exc')
    cur_ck = CK_NAME[pr['checker']]
    ck = [bool(db_ok and before['db'][t]['checker:'] is not None and before['db'][t]['checker:'] != cur_ck)
          for t in range(ntasks)]
    out.count('probe:points')
    out.count('hyp:no-record-of-another-checker' if not any(ck) else 'hyp:some-record-of-another-checker')
    oracle = pr['oracle']
    clo = closure_deps(pr['defs'], ntasks)
    ran = {}
    for t, o in oracle['steps']:
        ran[t] = o
    eligible = {}
    for t in range(ntasks):
        if oracle['crash'] or t not in ran or ran[t] not in ORACLE_MAP:
            continue
        if all(ran.get(u) == 'up-to-date' for u in clo[t]):
            eligible[t] = ORACLE_MAP[ran[t]]
    out.count('oracle:eligible-tasks', len(eligible))
    out.count('oracle:ineligible-tasks', ntasks - len(eligible))
    # (K) the model's decision against the real run
    for t, w in eligible.items():
        out.count('decision:' + w)
        if m['decision'][t] != w:
            out.divs.append({'what': 'decision of run for %s' % tname(t), 'at_op': i, 'cmd': ['run', '-c'],
                             'impl': w, 'model': m['decision'][t]})
    li, ii = 0, 0
    for r in pr['results']:
        argv = r['argv']
        out.n_cmds += 1
        out.count('cmd:' + ' '.join(a for a in argv if not re.match(r'^t\d+$', a) and not a.startswith('{')))
        wit = {'at_op': i, 'cmd': argv, 'backend': case['backend']}
        after = r['after']
        # ---------------- (P) frame: DB
        a_ok = isinstance(after['db'], list) and (not after['db'] or after['db'][0] != 'exc')
        if db_ok and a_ok:
            checks.append({'kind': 'frame', 'ntasks': ntasks, 'before': [rec_fp(x) for x in before['db']],
                           'after': [rec_fp(x) for x in after['db']], 'ck': ck})
            changed = [tname(t) for t in range(ntasks) if before['db'][t] != after['db'][t]]
            check_tags.append(dict(wit, clause='frame-db', changed_records=changed,
                                   before=[before['db'][t] for t in range(ntasks) if before['db'][t] != after['db'][t]][:2],
                                   after=[after['db'][t] for t in range(ntasks) if before['db'][t] != after['db'][t]][:2]))
            if changed:
                out.removal = True
                out.count('frame:documented-removal-persisted' if all(ck[int(x[1:])] for x in changed) else 'frame:db-changed')
        elif db_ok and not a_ok:
            out.fails.append(dict(wit, clause='frame-db', note='DB unreadable after the command: %s' % (after['db'],)))
        new_keys = [k for k in after.get('keys', []) if k not in before.get('keys', [])]
        if new_keys:
            out.fails.append(dict(wit, clause='frame-db', changed_records=new_keys,
                                  note='keys created in the DB file: %s' % new_keys))
        # ---------------- (P) frame: files
        if after['files'] != before['files']:
            diff = sorted(set(after['files']) ^ set(before['files'])) + \
                sorted(k for k in after['files'] if k in before['files'] and after['files'][k] != before['files'][k])
            out.fails.append(dict(wit, clause='frame-fs', files=diff[:5]))
        extra_db = [n for n in after['dbfiles'] if n not in before['dbfiles']
                    and n[len('deps-' + case['backend']):] not in DB_SUFFIX[case['backend']]]
        if extra_db:
            out.fails.append(dict(wit, clause='frame-fs', files=extra_db, note='foreign DB files created'))
        # ---------------- (P) no action executed
        ev = [e for e in r['events'] if not (e[0] == 'clean-aware' and e[2] is True)]
        if ev:
            out.fails.append(dict(wit, clause='action', events=[list(e) for e in ev[:5]]))
        if any(e[0] == 'clean-aware' for e in r['events']):
            out.count('clean:dryrun-aware-action-called-with-dryrun')
        # ---------------- (K) write trace
        r['calls'] = [[c[0], c[1].split(':', 1)[-1] if isinstance(c[1], str) else c[1]] for c in r['calls']
                      if c[1] not in (GROUP, LINKS_TASK)]   # sub-task names back to indices; g / zlinks are not modelled
        writes = [c for c in r['calls'] if c[0] in ('set', 'remove', 'remove_all')]
        dumps = [c for c in r['calls'] if c[0] == 'dump']
        if dumps and argv[0] != 'clean':
            out.count('trace:dump-called-by-' + argv[0])
        model_removes = []
        model_db = None
        crashed_cmd = (r['code'] == 3 and 'Traceback' in r['err']) or isinstance(r['code'], list)
        if argv[0] == 'list' and '-s' in argv:
            ml = m['lists'][li]
            li += 1
            order = list_order(argv, ntasks, pr.get('group'))
            model_removes = ml['removes']
            model_db = ml['db']
            shown_impl = parse_list(r['out'])
            mshown = ml['shown']
            if 'crash' in mshown:
                k = mshown.index('crash')
                out.count('list:model-crash')
                if not crashed_cmd and not ml['ambiguous']:
                    out.divs.append(dict(wit, what='list -s: model crashes, implementation does not', impl=shown_impl,
                                         model=mshown))
                mshown = mshown[:k]
                shown_impl = shown_impl[:k]
                order = order[:k]
            elif crashed_cmd and not ml['ambiguous']:
                out.divs.append(dict(wit, what='list -s crashed (%s)' % statuslib.classify_traceback(r['err']),
                                     impl=r['err'][-200:], model=mshown))
            impl_words = [(t, LETTER.get(l, l)) for l, t in shown_impl]
            model_words = list(zip(order, mshown))
            if not crashed_cmd and impl_words != model_words and not ml['ambiguous']:
                out.divs.append(dict(wit, what='list -s letters', impl=impl_words, model=model_words))
            for t, w in impl_words:
                out.shown.add(w)
                out.count('list-shown:' + str(w))
                if t in eligible and not crashed_cmd:
                    checks.append({'kind': 'agree', 'shown': w, 'ran': eligible[t]})
                    check_tags.append(dict(wit, clause='agree-list', task=tname(t), shown=w, ran=eligible[t]))
        elif argv[0] == 'list':
            shown_impl = parse_list(r['out'])
            if [t for _, t in shown_impl] != list_order(argv, ntasks, pr.get('group')) or any(l for l, _ in shown_impl):
                out.divs.append(dict(wit, what='list (no status) lines', impl=shown_impl,
                                     model=list_order(argv, ntasks, pr.get('group'))))
        elif argv[0] == 'info' and '--no-status' not in argv:
            mi = m['infos'][ii]
            ii += 1
            t = mi['t']
            model_removes = mi['removes']
            model_db = mi['db']
            status, reasons = parse_info(r['out'])
            if crashed_cmd:
                status = 'crash'
            out.count('info-shown:' + str(status))
            for k in ('noDeps', 'utdFalse', 'checkerChanged', 'missingTarget', 'changed', 'missingDep', 'removed', 'added'):
                if reasons[k]:
                    out.count('info-reason:' + k)
            if not mi['ambiguous']:
                if status != mi['shown']:
                    out.divs.append(dict(wit, what='info status word', impl=status, model=mi['shown']))
                elif status != 'crash' and {k: reasons[k] for k in empty_reasons()} != mi['reasons']:
                    out.divs.append(dict(wit, what='info reasons', impl=reasons, model=mi['reasons']))
            if status != 'crash':
                expected_code = 0 if status in ('up-to-date', 'ignore') else 1
                if r['code'] != expected_code:
                    out.divs.append(dict(wit, what='info exit code', impl=r['code'], model=expected_code))
                for b in check_reasons(pr, t, status, reasons):
                    out.fails.append(dict(wit, clause='reasons', task=tname(t), shown=status, reasons=reasons, false_reason=b))
                out.count('monitor:reasons:checked')
                if t in eligible:
                    checks.append({'kind': 'agree', 'shown': status, 'ran': eligible[t]})
                    check_tags.append(dict(wit, clause='agree-info', task=tname(t), shown=status, ran=eligible[t],
                                           reasons=reasons))
        elif argv[0] == 'clean':
            model_removes = m['cleanDry']['removes']
            model_db = m['cleanDry']['db']
        reads = [c for c in r['calls'] if c[0] in ('get', 'in_')]
        uses_db = m['opensDb'].get(cmd_shape(argv))
        if uses_db is False and (reads or writes) and not crashed_cmd:
            out.divs.append(dict(wit, what='DB accesses of a command that does not use the DB',
                                 impl=[list(c) for c in (reads + writes)[:4]], model=[]))
        out.count('trace:%s' % ('uses-db' if uses_db else 'no-db-access'))
        impl_writes = [[c[0], c[1]] for c in writes]
        want = [['remove', tname(t)] for t in model_removes]
        if impl_writes != want and not crashed_cmd:
            out.divs.append(dict(wit, what='DB write operations', impl=impl_writes, model=want))
        if model_removes:
            out.count('trace:documented-remove', len(model_removes))
        # ---------------- (K) logical DB after the command: removals persist only with a write-through backend
        if db_ok and a_ok and not crashed_cmd:
            persisted = set(model_removes) if case['backend'] == 'dbm' else set()
            for t in range(ntasks):
                exp_absent = t in persisted
                if exp_absent:
                    okk = rec_absent(after['db'][t])
                else:
                    okk = after['db'][t] == before['db'][t]
                if not okk:
                    out.divs.append(dict(wit, what='logical DB after the command, %s' % tname(t),
                                         impl=after['db'][t], model='removed' if exp_absent else 'unchanged'))
                    break



# ----------------------------------------------------------------------------------------------
# rendering, shrinking

def render(case):
    out = statuslib.render(statuslib.strip(case))
    kinds = case.get('clean') or {}
    if case.get('group'):
        out.insert(1, 'group task g with sub-tasks %s (named g:t<i> on the command line; `ignore` of all of them is '
                      'issued as `doit ignore g`)' % ', '.join('g:' + tname(t) for t in sorted(case['group'])))
    if case.get('zlinks'):
        out.append('task zlinks (no action, clean: True) with targets lnk-file -> file, lnk-emptydir -> empty dir, '
                   'lnk-dir -> non-empty dir, lnk-dangling, rd-empty/ (real empty dir), rd-full/ (real non-empty dir)')
    if any(v != 'none' for v in kinds.values()):
        out.append('clean attributes: ' + ', '.join('t%s=%s' % kv for kv in sorted(kinds.items()) if kv[1] != 'none'))
    for pos, spec in case.get('probes', []):
        out.append('probe after op %s: %d read-only command lines (e.g. %s)'
                   % (pos if pos >= 0 else 'last', len(spec['cmds']),
                      '; '.join('doit ' + ' '.join(c) for c in spec['cmds'][:3])))
    return out


def same_failure(a, b):
    if a['clause'] != b['clause'] or a['cmd'][0] != b['cmd'][0]:
        return False
    if a['clause'] in ('agree-info', 'agree-list'):
        return (a.get('shown'), a.get('ran')) == (b.get('shown'), b.get('ran'))
    return True


def shrink_case(case, fail, max_evals=40):
    """reduce to: history prefix up to the probe + the one failing command line, then delta-debug the ops"""
    cmd = fail['cmd']
    at = fail['at_op']
    small = dict(case, ops=case['ops'][:at + 1], probes=[[-1, {'cmds': [cmd]}]])

    def still(c):
        c2 = dict(small, **{k: c[k] for k in ('ops', 'ntasks', 'npaths', 'backend', 'checker') if k in c})
        c2['probes'] = [[-1, {'cmds': [cmd]}]]
        o = run_case(c2)
        return any(same_failure(f, fail) for f in o.fails)

    try:
        if not still(small):
            return case, fail
    except Exception:  # noqa
        return case, fail
    cur = statuslib.shrink(small, still, max_evals=max_evals)
    cur = dict(small, **{k: cur[k] for k in ('ops', 'ntasks', 'npaths') if k in cur})
    cur['probes'] = [[-1, {'cmds': [cmd]}]]
    o = run_case(cur)
    for f in o.fails:
        if same_failure(f, fail):
            return cur, f
    return case, fail


def describe(f):
    c = f['clause']
    cmd = 'doit ' + ' '.join(f['cmd'])
    if c == 'frame-db':
        return '`%s` altered the dependency DB: records of %s changed (not the documented invalidation)' % (
            cmd, f.get('changed_records'))
    if c == 'frame-fs':
        return '`%s` altered the file system: %s' % (cmd, f.get('files'))
    if c == 'action':
        return '`%s` executed task code: %s' % (cmd, f.get('events'))
    if c in ('agree-list', 'agree-info'):
        return '`%s` shows %s as "%s" while an immediately following `doit run` decides "%s"' % (
            cmd, f.get('task'), f.get('shown'), f.get('ran'))
    if c == 'reasons':
        return '`%s` prints a reason that does not hold: %s' % (cmd, f.get('false_reason'))
    return c


# ----------------------------------------------------------------------------------------------
# generation

def perturb(rng, case, defs, nsrc):
    """ops appended before the last probe: the situations the read-only commands must get right"""
    ntasks = case['ntasks']
    ops = []
    grp = sorted(case.get('group') or [])
    if grp and rng.random() < 0.6:
        # the group is ignored as a whole; then one sub-task loses its own mark (forget / a failing `run` cannot: it is
        # skipped), or is reset
        ops.append(['ignore', list(grp)])
        r = rng.random()
        if r < 0.6:
            ops.append(['forget', [rng.choice(grp)]])
        elif r < 0.75:
            ops.append(['reset-dep', [rng.choice(grp)]])
        if rng.random() < 0.5:
            return ops
    t = rng.randrange(ntasks)
    d = defs[t]
    deps = d['deps'] or list(range(nsrc))
    for _ in range(rng.choice([1, 1, 2, 2, 3])):
        r = rng.random()
        p = rng.choice(deps)
        if r < 0.18:
            ops.append(['touch', p])
        elif r < 0.36:
            ops.append(['edit', p, rng.randrange(1, 8)])
        elif r < 0.54:
            ops.append(['delete', p])
        elif r < 0.62 and d['targets']:
            ops.append(['delete', rng.choice(d['targets'])])
        elif r < 0.74:
            ops.append(['checker', rng.choice(statuslib.CHECKERS)])
        elif r < 0.84:
            ops.append(['ignore', [t]])
        elif r < 0.92:
            nd = statuslib.gen_def(rng, statuslib.Shape(ntasks, nsrc), t, d)
            defs[t] = nd
            ops.append(['redefine', t, nd])
        else:
            ops.append(['run', {'sel': None, 'always': False, 'cont': True, 'par': None, 'plan': {}}])
    return ops


def gen_case(rng):
    case = statuslib.gen_case(rng)
    ntasks = case['ntasks']
    nsrc = case['npaths'] - ntasks
    defs = {}
    for op in case['ops']:
        if op[0] == 'redefine':
            defs[op[1]] = op[2]
    for t in range(ntasks):
        defs.setdefault(t, {'deps': [], 'targets': [], 'uptodate': []})
    if rng.random() < 0.35:
        case['zlinks'] = True
    if ntasks >= 2 and rng.random() < 0.4:
        case['group'] = sorted(rng.sample(range(ntasks), rng.randint(1 if ntasks == 2 else 2, ntasks)))
    if rng.random() < 0.7:
        case['ops'] += perturb(rng, case, defs, nsrc)
    case['clean'] = {str(t): rng.choice(CLEAN_KINDS) for t in range(ntasks)}
    n = len(case['ops'])
    probes = [[-1, {'cmds': probe_cmds(rng, ntasks, full=rng.random() < 0.3)}]]
    runs = [i for i, op in enumerate(case['ops'][:-1]) if op[0] == 'run']
    if runs and rng.random() < 0.5:
        i = rng.choice(runs)
        j = min(n - 2, i + rng.choice([0, 1, 1, 2]))
        probes.append([j, {'cmds': probe_cmds(rng, ntasks, full=False)}])
    case['probes'] = probes
    return case


EXH_PRE = [['edit', 0, 1], ['edit', 1, 2],
           ['redefine', 0, {'deps': [0, 1], 'targets': [2], 'uptodate': []}],
           ['run', {'plan': {'0': {'ok': True, 'writes': [[2, 11]], 'res': None}}}]]
EXH_LETTERS = {
    'T': [['touch', 0]], 'E': [['edit', 0, 3]], 'D': [['delete', 0]], 'd': [['delete', 1]], 'X': [['delete', 2]],
    'C': [['checker', 'OTHER']], 'I': [['ignore', [0]]], 'G': [['forget', [0]]],
    'A': [['redefine', 0, {'deps': [0], 'targets': [2], 'uptodate': []}]],
    'F': [['redefine', 0, {'deps': [0, 1], 'targets': [2], 'uptodate': [['const', False]]}]],
    'N': [['redefine', 0, {'deps': [], 'targets': [2], 'uptodate': [['const', True]]}]],
    'R': [['run', {'plan': {}}]],
}


def exhaustive_cases(maxlen):
    letters = sorted(EXH_LETTERS)
    words, seqs = [], ['']
    for _ in range(maxlen):
        seqs = [s + a for s in seqs for a in letters]
        words += seqs
    out = []
    rng = random.Random(20)
    for n, w in enumerate(words):
        checker = statuslib.CHECKERS[(n // 3) % 2]
        other = statuslib.CHECKERS[1 - (n // 3) % 2]
        ops = json.loads(json.dumps(EXH_PRE))
        for a in w:
            for op in EXH_LETTERS[a]:
                op = json.loads(json.dumps(op))
                if op[0] == 'checker':
                    op[1] = other
                ops.append(op)
        cmds = [['list', '-s'], ['info', 't0'], ['clean', '-n', '--forget'], ['list'], ['info', '--no-status', 't0'],
                ['help', 't0'], ['tabcompletion', '--hardcode-tasks'], ['dumpdb', '--db-file', '{db}']]
        out.append({'backend': statuslib.BACKENDS[n % 3], 'checker': checker, 'ntasks': 1, 'npaths': 3, 'ops': ops,
                    'word': w, 'scramble': (n % 4) * 1237, 'clean': {'0': CLEAN_KINDS[n % len(CLEAN_KINDS)]},
                    'zlinks': n % 2 == 0,
                    'probes': [[-1, {'cmds': cmds}]]})
    return out


GRP_PRE = [['edit', 0, 1], ['redefine', 0, {'deps': [0], 'targets': [], 'uptodate': []}],
           ['redefine', 1, {'deps': [0], 'targets': [], 'uptodate': []}], ['run', {'plan': {}}]]
GRP_LETTERS = {'J': [['ignore', [0, 1]]], 'j': [['ignore', [0]]], 'G': [['forget', [0]]], 'g': [['forget', [1]]],
               'T': [['touch', 0]], 'R': [['run', {'plan': {}}]], 'C': [['checker', 'OTHER']], 'S': [['reset-dep', [0]]]}


def exhaustive_group_cases(maxlen):
    """two sub-tasks of one group: every word over ignore group / ignore one / forget one / forget other / touch /
    run / checker switch / reset-dep"""
    letters = sorted(GRP_LETTERS)
    words, seqs = [], ['']
    for _ in range(maxlen):
        seqs = [s + a for s in seqs for a in letters]
        words += seqs
    out = []
    for n, w in enumerate(words):
        checker = statuslib.CHECKERS[(n // 3) % 2]
        other = statuslib.CHECKERS[1 - (n // 3) % 2]
        ops = json.loads(json.dumps(GRP_PRE))
        for a in w:
            for op in GRP_LETTERS[a]:
                op = json.loads(json.dumps(op))
                if op[0] == 'checker':
                    op[1] = other
                ops.append(op)
        cmds = [['list', '--all', '-s'], ['list', '-s', 't1', 't0'], ['info', 't0'], ['info', 't1'], ['list', '-s'],
                ['clean', '-n', '--forget']]
        out.append({'backend': statuslib.BACKENDS[n % 3], 'checker': checker, 'ntasks': 2, 'npaths': 1, 'ops': ops,
                    'word': 'grp:' + w, 'scramble': (n % 4) * 1237, 'group': [0, 1],
                    'clean': {'0': CLEAN_KINDS[n % len(CLEAN_KINDS)], '1': CLEAN_KINDS[(n // 2) % len(CLEAN_KINDS)]},
                    'probes': [[-1, {'cmds': cmds}]]})
    return out


def expand_corpus():
    out = []
    for name, c in common.load_corpus('C20'):
        if c.get('matrix'):
            for b in statuslib.BACKENDS:
                for ck in statuslib.CHECKERS:
                    cc = json.loads(json.dumps(c))
                    cc['backend'], cc['checker'] = b, ck
                    other = [x for x in statuslib.CHECKERS if x != ck][0]
                    for op in cc['ops']:
                        if op[0] == 'checker' and op[1] == 'OTHER':
                            op[1] = other
                    out.append((name, cc))
        else:
            out.append((name, c))
    return out


def case_key(case):
    return {k: case.get(k) for k in ('backend', 'checker', 'ntasks', 'npaths', 'ops', 'clean', 'probes', 'scramble', 'group',
                                     'zlinks')
            if k not in ('group', 'zlinks') or case.get(k)}


# ----------------------------------------------------------------------------------------------
# worker

def process_batch(batch):
    statuslib.allow_children()
    st = common.WorkerStats()
    shrunk = 0
    reported = 0
    batch = [(origin, {k: v for k, v in json.loads(json.dumps(case)).items() if k not in ('comment', 'matrix')})
             for origin, case in batch]
    outcomes = run_cases([case for _, case in batch])
    for (origin, case), o in zip(batch, outcomes):
        nontrivial = (bool(o.shown & {'run', 'error'}) and bool(o.shown & {'up-to-date', 'ignore'})) or o.removal
        st.case({'history': render(case)}, nontrivial)
        st.traces += o.n_cmds
        st.count('origin:' + origin)
        st.count('backend:' + case['backend'])
        st.count('checker0:' + case['checker'])
        st.count('tasks:%d' % case['ntasks'])
        st.count('link-targets:%s' % ('yes' if case.get('zlinks') else 'no'))
        st.count('sub-tasks:%s' % ('group of %d' % len(case['group']) if case.get('group') else 'none'))
        for op in case['ops']:
            st.count('op:' + op[0])
        for k, n in o.counts.items():
            st.count(k, n)
        for k, kind in (case.get('clean') or {}).items():
            st.count('clean-attr:' + kind)
        v = o.base
        if v.crash:
            st.count('impl:crash-' + str(v.crash[1]))
        if o.divs:
            # an alarm must be reproducible: confirm on a second execution in a fresh directory
            o1 = run_case(case)
            keep = [d for d in o.divs if any(d['what'] == e['what'] and d.get('cmd') == e.get('cmd') for e in o1.divs)]
            if len(keep) < len(o.divs):
                st.count('flaky:divergence-not-reproduced')
            o.divs = keep
        if v.divergence:
            # the correspondence of the *history* (run / forget / ignore / reset-dep ... against Model/Status.lean) is
            # owned and reported by C03/C04/C13, which run it on far more histories -- provided the same history
            # diverges under plain statuslib too.  If it does not, this module's world (event log, clean attributes,
            # sub-task naming) changed the behaviour of the history: that is a defect of this check and is reported.
            i, what, impl, model = v.divergence
            plain = statuslib.evaluate([{k: x for k, x in statuslib.strip(case).items() if k != 'hashseed'}])[0]
            if plain.divergence:
                st.count('history-correspondence(M2, owned by C03/C04/C13):diverged')
                st.count('history-correspondence(M2):' + re.sub(r'op \d+', 'op N', str(what))[:80])
            else:
                st.divergence({'case': case_key(case), 'rendered': render(case), 'at_op': i, 'impl': impl, 'model': model,
                               'origin': origin,
                               'stderr': (v.obs[i].get('stderr') if v.obs and i < len(v.obs) else None)},
                              'the C20 world (event log / clean attributes / sub-task naming) changes the history: '
                              + str(what))
        if o.fails:
            known_f = [f for f in o.fails if any(pred(f) for pred in SIGNATURES.values())]
            fresh_f = [f for f in o.fails if f not in known_f]
            seen = []
            for f in known_f:
                if any(same_failure(f, g) for g in seen):
                    continue
                seen.append(f)
                small = dict(case, ops=case['ops'][:f['at_op'] + 1], probes=[[-1, {'cmds': [f['cmd']]}]])
                w = dict(f)
                w.update({'case': case_key(small), 'rendered': render(small), 'origin': origin})
                st.violation(w, 'monitor', describe(f))
            if fresh_f and reported >= 3:
                st.count('violations-beyond-the-first-3-of-this-worker (not confirmed / shrunk / reported)', len(fresh_f))
            elif fresh_f:
                # confirm on a second execution (a loaded machine can make a single doit invocation fail)
                o2 = run_case(case)
                confirmed = [f for f in fresh_f if any(same_failure(f, g) for g in o2.fails)]
                if len(confirmed) < len(fresh_f):
                    st.count('flaky:not-reproduced', len(fresh_f) - len(confirmed))
                seen = []
                for f in confirmed:
                    if any(same_failure(f, g) for g in seen):
                        continue
                    seen.append(f)
                    small, f2 = case, f
                    if shrunk < 3:
                        shrunk += 1
                        small, f2 = shrink_case(case, f)
                    w = dict(f2)
                    w.update({'case': case_key(small), 'rendered': render(small), 'origin': origin})
                    st.violation(w, 'monitor', describe(f2))
                    reported += 1
        for dv in o.divs[:3]:
            w = dict(dv)
            w.update({'case': case_key(case), 'rendered': render(case), 'origin': origin})
            st.divergence(w, 'correspondence C20 (%s): %s' % (' '.join(dv.get('cmd', [])), dv['what']))
    return st


def random_for(ctx, i):
    return random.Random(common.canon([ctx.seed, getattr(ctx, 'seed_shift', 0), 'C20', i]))


def run(ctx):
    quick = ctx.tier == 'quick'
    items = [('corpus', c) for _, c in expand_corpus()]
    deep = not (quick and ctx.boost == 1)
    ex = exhaustive_cases(3 if deep else 2) + exhaustive_group_cases(3 if deep else 2)
    ex.sort(key=lambda c: len(c['word'].split(':')[-1]))
    short = [c for c in ex if len(c['word'].split(':')[-1]) <= 1]
    rest = [c for c in ex if len(c['word'].split(':')[-1]) > 1]
    items += [('exhaustive', c) for c in short]
    n_random = (140 if quick else 2500) * ctx.boost
    rnd = [('random', gen_case(random_for(ctx, i))) for i in range(n_random)]
    # interleave the longer exhaustive words with the random histories
    k = max(1, len(rest) // max(1, len(rnd))) if rnd else 1
    ri = 0
    for it in rnd:
        items.append(it)
        for c in rest[ri:ri + k]:
            items.append(('exhaustive', c))
        ri += k
    items += [('exhaustive', c) for c in rest[ri:]]
    ctx.extra['exhaustive_small_scope'] = {'alphabet': len(EXH_LETTERS), 'group_alphabet': len(GRP_LETTERS),
                                           'max_len': 3 if deep else 2, 'histories': len(ex)}
    size = 6
    batches = [items[i:i + size] for i in range(0, len(items), size)]
    per_round = common.NCPU * (6 if quick else 2)
    done = 0
    for r0 in range(0, len(batches), per_round):
        if r0 > 0 and ctx.time_left() <= 0:
            break
        for st in common.pmap(process_batch, batches[r0:r0 + per_round]):
            st.merge_into(ctx)
        done = min(len(batches), r0 + per_round)
        if len(ctx.violations) >= 5:
            break
    left = sum(len(b) for b in batches[done:])
    ctx.extra['histories_planned'] = len(items)
    ctx.extra['histories_not_run_budget_exhausted'] = left
    nd = ctx.dist.get('history-correspondence(M2, owned by C03/C04/C13):diverged', 0)
    if nd:
        ctx.note('%d histories diverged from Model/Status.lean in an op of the history itself (not in a read-only '
                 'command); that correspondence is C03/C04/C13\'s, the probes after the diverging op were skipped' % nd)
    ctx.extra['hypotheses_satisfied'] = {
        'C20_frame_identity / C20_list_lines_agree (no record of another checker)':
            ctx.dist.get('hyp:no-record-of-another-checker', 0),
        'probe points with a record of another checker (documented removal possible)':
            ctx.dist.get('hyp:some-record-of-another-checker', 0)}
    if left:
        ctx.note('time budget of the tier used up: %d of %d planned histories were not run (corpus and the shortest '
                 'exhaustive words always run first)' % (left, len(items)))


def search(ctx):
    ctx.seed_shift = 7919
    run(ctx)


def generated_obligations(ctx):
    """`List.STATUS_MAP` of the tree under test against `Intro.letter` (DESIGN §6.6): same letters, pairwise distinct"""
    common.use_repo()
    from doit.cmd_list import List
    sm = dict(List.STATUS_MAP)
    ctor = {'ignore': '.ignore', 'up-to-date': '.upToDate', 'run': '.run', 'error': '.error'}
    lines = ['import DoitModel.Model.Intro', 'open DoitModel.Intro',
             '-- regenerated from doit.cmd_list.List.STATUS_MAP = %r' % (sm,)]
    conj = []
    for k in sorted(ctor):
        v = sm.get(k)
        conj.append("letter %s = '%s'" % (ctor[k], v if isinstance(v, str) and len(v) == 1 and v.isalnum() else '?'))
    lines.append('example : %s := by decide' % ' ∧ '.join(conj))
    lines.append('example : (%d : Nat) = 4 := by decide' % len(sm))
    lines.append("example : ([Shown.ignore, .upToDate, .run, .error].map letter).Nodup := by decide")
    return '\n'.join(lines) + '\n', 3


def replay(ctx, data):
    w = data.get('witness') or {}
    case = w.get('case')
    if not case:
        print('nothing to replay (no failing input was found): %s' % data.get('note'))
        return False
    print('\n'.join(render(case)))
    o = run_case(case)
    v = o.base
    for i, ob in enumerate(v.obs):
        if ob['kind'] == 'run':
            print('  op %d: doit run -> exit %s: %s' % (i, ob['code'], ', '.join('%s %s' % (tname(t), out)
                                                                             for t, out, _ in ob['steps'])))
    world = C20World.last
    for i, pr in sorted(world.probe_out.items()):
        print('  probe after op %d: oracle `doit run -c` on a copy -> %s' % (i, pr['oracle']['steps']))
        for r in pr['results']:
            print('    doit %s -> exit %s%s' % (' '.join(r['argv']), r['code'],
                                                 '; events %s' % r['events'] if r['events'] else ''))
            if r['argv'][0] in ('list', 'info') and len(r['out']) < 1500:
                for line in r['out'].rstrip().split('\n'):
                    print('      | ' + line)
    for f in o.fails:
        print('MONITOR FALSE: %s' % describe(f))
        known = [k for k, p in SIGNATURES.items() if p(f)]
        if known:
            print('   (matches open finding %s)' % known)
    for d in o.divs:
        print('CORRESPONDENCE: %s: implementation %s, model %s' % (d['what'], d.get('impl'), d.get('model')))
    if v.divergence:
        print('CORRESPONDENCE (history):', v.divergence)
    bad = [f for f in o.fails]
    if w.get('clause'):
        return not bad
    return not bad and not o.divs and not v.divergence
