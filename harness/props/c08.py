"""C08 -- parallel runs are outcome-equivalent to the serial run   (model M1 + data path, DESIGN §5 C08)

(T) lean/DoitModel/Props/C08.lean: `C08_data_intact*` (pickle_safe_dict / update_from_pickle / _process_result as record
    restriction + override + the two zip loops) and the confluence theorems (every finished run_status and every
    terminal report of every reachable state of the serial / thread / process transition system equals the
    schedule-independent denotation `DenOf`).
(K) three correspondences, all against the real doit of $VERIF_REPO:
    K1  every run of a DAG case (serial, real MThreadRunner under the deterministic scheduler, real multiprocessing MRunner)
        must be a trace of the M1 model (driver op run/accept, shared with C01/C02);
    K2  the denotation: driver op c08/den computes `denF` / `denClosure` / `denExit` from the case alone; every terminal
        report, the set of reported tasks of a complete run and its exit code must equal it (`monC08Den`);
    K3  the data path at API level: real Task.pickle_safe_dict / update_from_pickle / MRunner._process_result on generated
        task objects, action lists and result dicts (also with misaligned list lengths) against `processResultData`.
(P) the statement on the implementation: the SAME case (DAG, oracle, DB pre-state, files) is run through the serial runner
    and through thread (several schedules, k=1..3) and process (k=1..3) runners, each in a fresh scratch dir with a real
    JSON DB and real target files; compared with the serial run whenever the serial run is complete (no failure, or
    --continue): per-task terminal report (Lean `monC08Pair` through the driver), exit code, and -- Python equality
    on canonical JSON -- per-task values / result / executed flag / per-action out + err / failure class, message and
    traceback text as seen by the reporter in the main process, the DB dump (mtimes dropped) and the digests of every
    file in the work dir.

Case families
  A  DAG cases of runlib.gen_case (all edge kinds, oracles, groups, flags); every action also prints to stdout/stderr
     (unicode) so that captured output crosses the queue; K1 + K2 + P.
  B  data cases (this module): delayed task creators (create_after -> JobTask instead of JobTaskPickle), groups, getargs
     from a task and from a group, result_dep, value_savers (uptodate callables), python- and cmd-actions, several
     actions per task with distinct / empty / unicode / large (>64 KiB) output, failures of every kind with --continue,
     unpicklable closures on tasks, optional serial pre-run (DB pre-state: producers up-to-date, values loaded from
     the DB); P only (the dispatcher part of delayed creation is M1+ / C15).

Driver protocol (lean/Driver/P08.lean):
  {"model":"c08","op":"den", <run input as for model "run">, "n":N, "runs":[{"trace":[..],"exit":k,"complete":b}..]}
      -> {"den":[..],"closure":[..],"exit":k,"nocalc":b,"determined":b,"mon_den":[b..],"mon_pair":[b..],"reports":[[..]..],
          "den_c":[..],"closure_c":[..],"exit_c":k,"determined_c":b,"mon_den_c":[b..]}   (_c: denotation with dynamic calc_dep edges)
  {"model":"c08","op":"job","main":{"task":{attr:id}},"worker":{"task":{attr:id}}} -> {"shipped":[attr..],"task":{attr:id}}
  {"model":"c08","op":"data","main":{"task":{attr:id},"acts":[[o,e]..]},"worker":{"task":{..},"acts":[..],"failure":id|null},
   "outs":[..]?, "errs":[..]?} -> {"shipped":[attr..],"task":{attr:id},"acts":[[o,e]..],"base_fail":id|null,"name":id}
"""
import copy
import hashlib
import io
import json
import os
import random
import re
import sys
import threading
import time

import common
import runlib

PROP = 'C08'

META = {
    'property': PROP,
    'lean_props': ['DoitModel.Props.C08'],
    'level': 'proof',
    'budget': {'quick': 40, 'thorough': 420},
    'anchors': ['doit/task.py::Task.pickle_safe_dict', 'doit/task.py::Task.update_from_pickle',
                'doit/task.py::Task.__getstate__', 'doit/task.py::Task.save_extra_values',
                'doit/runner.py::MRunner._process_result', 'doit/runner.py::MRunner.execute_task_subprocess',
                'doit/runner.py::MRunner.get_next_job', 'doit/runner.py::MRunner.run_tasks',
                'doit/runner.py::MRunner._run_start_processes', 'doit/runner.py::JobTask', 'doit/runner.py::JobTaskPickle',
                'doit/runner.py::MReporter', 'doit/runner.py::Runner.select_task', 'doit/runner.py::Runner.execute_task',
                'doit/runner.py::Runner.process_task_result', 'doit/runner.py::Runner._handle_task_error',
                'doit/runner.py::Runner._get_task_args', 'doit/runner.py::Runner.run_tasks'],
    'technique': ('Lean 4: denotational outcome of a complete run (DenOf, by recursion on the dependency structure) and an '
                  'invariant of the serial / thread / process transition systems of the M1 run model saying that every '
                  'finished run_status and every terminal report equals it (so all schedules, all worker counts and '
                  'all runners agree); record-restriction/override model of the pickling data path with data_intact '
                  'theorems.  Tied to doit on every run by trace acceptance (M1), denotation-vs-reports comparison, an '
                  'API-level differential test of pickle_safe_dict/update_from_pickle/_process_result, and a '
                  'serial-vs-parallel differential monitor on real runs (deterministic thread scheduler, real '
                  'multiprocessing) comparing outcomes, exit code, values/result/out/err/failure text, DB dump and '
                  'file digests'),
    'design_ref': '§5 C08, §4 M1, §6.4',
    'level_text': '',     # filled below (depends on which confluence theorems exist)
    'level_note': '',
    'rule': ('family A: runlib.gen_case DAGs (3-8 tasks, all edge kinds, groups, oracles run/utd/error/ignored/ok/failed/'
             'error, --continue/--always, selections) x {serial, thread k=1..3 x scheduler policy, process k=1..3}; '
             'family B: data pipelines from a template with random toggles (delayed creators with/without sub-tasks, '
             'getargs from task/group, result_dep, value_savers, 1-3 actions per task of kind py/cmd with distinct/empty/'
             'unicode/large output, failure kinds, closures, pre-run) x the same runners; API-level data cases: random '
             'attribute maps / action counts / result list lengths.  non-trivial = at least one task executed and the '
             'serial reference run is complete; distinct = distinct (case, runner, nproc, schedule)'),
    'assumptions': ['tasks are deterministic functions of their inputs (generated actions are); pickle round-trips '
                    'picklable data (trusted, exercised by the process runs)',
                    'process-mode interleavings are sampled (token-forced completion order), thread-mode ones are '
                    'scheduled at queue-operation granularity',
                    'comparison is made when the serial run is complete (no failure, or --continue), as the property says'],
    'trusted': ['deterministic thread scheduler / token controller / recording reporter of harness/runlib.py',
                'own dependency expansion runlib.expand', 'canonicalisation of the DB dump (mtimes dropped)'],
    'models': ['M1'],
}

SIGNATURES = {}

_HERE = os.path.dirname(os.path.abspath(__file__))
_PROPS_LEAN = os.path.join(os.path.dirname(os.path.dirname(_HERE)), 'lean', 'DoitModel', 'Props', 'C08.lean')


def _fill_level():
    try:
        src = open(_PROPS_LEAN).read()
    except OSError:
        src = ''
    conf = 'theorem C08_confluence' in src or 'theorem C08_status_is_den' in src
    META['level_text'] = (
        'Machine-checked: C08_data_intact (+ _same_actions, C08_job_pickle_intact, C08_roundtrip_identity): for every '
        'main-side task object, worker-side copy, action list and failure, after MRunner._process_result the main side '
        'has the worker\'s value of every shipped attribute (values, result, executed, options, ...), keeps its own '
        'unshipped ones, gets per-action out/err position by position, and process_task_result receives the worker\'s '
        'failure.  ' +
        ('C08_confluence (FULL statement, theorem; no NoCalc, no Acyclic hypothesis), C08_status_is_den_dyn, '
         'C08_confluence_status_dyn, C08_complete_reports_closure_dyn, C08_complete_exit_dyn, C08_pair_monitor_holds: over '
         'ANY task graph - task_dep, setup edges and dynamic calc_dep edges (a calc task delivers task_dep / file_dep '
         'owners / further calc_dep when it is executed or up-to-date [calcRes], and - as doit does - also when it FAILED '
         'during its execution [calcResFail: the values of its earlier actions; Dyn.delivOf / startedFail, '
         'C08_failed_started_iff; no NoFailDeliver hypothesis]; the oracles are functions of the task) - '
         'in every reachable state of the serial, thread and process transition systems of the run model (every '
         'schedule, every numProcess, every set-iteration order, every arrival order of calc results) every finished '
         'run_status and every terminal report (success / up-to-date / ignored / failure kind) equals the denotation '
         'Dyn.DenOf, which depends on the task table and the oracle only (its dependency set is the least set closed '
         'under what good calc_deps deliver); a complete run (no failure, or --continue) reports exactly the '
         'denotational closure Dyn.DenCl of the selection; hence two complete runs under ANY two runners/schedules '
         'report the same tasks with the same outcomes (same save/remove DB effects), leave the same run_status and '
         'return the same exit code, and the pair monitor monC08Pair holds of them.  C08_den_dyn_noCalc: on graphs '
         'without calc_dep Dyn.DenOf is the static DenOf of C08_status_is_den, C08_confluence_status, '
         'C08_complete_reports_closure, C08_exit_of_reports, C08_confluence_partial, C08_den_computable, '
         'C08_monitors_hold (kept): there, on acyclic graphs, the executable denF/denClosure/denExit evaluated by the '
         'driver are that denotation.  C08_den_computable_dyn, C08_monitors_hold_dyn: the executable denotation with '
         'dynamic edges (denFC / denClosureC / denExitC: bottom-up table, calc_dep sets and closure by iteration) is sound '
         '- a determined answer IS Dyn.DenOf - and under the decidable side condition determinedC the computed closure is '
         'Dyn.DenCl and the driver monitor monC08DenC holds of every model trace, on graphs with calc_dep too; '
         'C08_den_total_dyn: Dyn.DenOf is total on finite graphs ranked as in C09.  ' if conf else
         'The confluence half is covered by the correspondence and the differential monitor only.  ') +
        'Tied to doit on every run: trace acceptance of every serial/thread/process run by the M1 model, denotation vs. '
        'observed reports/closure/exit code, API-level differential test of the pickling functions, and the property '
        'statement itself evaluated on serial-vs-parallel real runs (outcomes, exit code, values, results, captured '
        'output, failure text, DB dump, file digests).')
    META['level_note'] = (
        'Confluence is proved in full (C08_confluence covers dynamic calc_dep edges; C08_confluence_partial is the '
        'NoCalc special case, kept).  Not proved: completeness of the executable denFC (that nTasks+1 rounds suffice on '
        'acyclic inputs) - instead the decidable side condition determinedC is evaluated per case by the driver and K2c '
        'is applied only where it holds (distribution: hyp_dyn_determined); cyclic inputs stay K1 + P.  (Confluence itself needs neither: a run '
        'that ends without exception has derived every outcome it reports.)  values/results/target files '
        'are not part of the run model (their '
        'equality across runners is the differential monitor P plus data_intact for the queue crossing).  Monitor (P): '
        'Lean predicate monC08Pair for reports+exit through the driver; the data/DB/file comparison is a Python equality '
        'on canonical JSON.  Trusted: '
        'Lean kernel (propext/Classical.choice/Quot.sound), doitdrv, the Python harness, pickle itself, OS process '
        'scheduling (sampled).')


_fill_level()

# ======================================================================================================
# recording reporter with data, snapshot at the end of the run
# ======================================================================================================

BIG = 70000      # > 64 KiB: more than one pipe buffer
_ADDR = re.compile(r' at 0x[0-9a-fA-F]+')     # object addresses in reprs (closures are re-created per run)


def _blob(s):
    """captured output / long text: short ones verbatim, long ones by digest"""
    if s is None:
        return None
    if not isinstance(s, str):
        s = repr(s)
    s = _ADDR.sub(' at 0x?', s)
    if len(s) <= 200:
        return s
    return {'len': len(s), 'sha1': hashlib.sha1(s.encode('utf-8', 'replace')).hexdigest(), 'head': s[:40]}


def _jsonable(v):
    try:
        try:
            text = json.dumps(v, sort_keys=True, default=repr)
        except TypeError:                      # keys of mixed types do not sort
            text = json.dumps(v, default=repr)
        # reprs of objects (default=repr) carry addresses that differ from run to run
        return json.loads(_ADDR.sub(' at 0x?', text), parse_constant=lambda c: 'const:' + c)
    except Exception:  # noqa
        return repr(v)


def _typed(v, depth=0):
    """type-preserving canonical form of a value as the reporter sees it: JSON would hide exactly what pickle / a
    normalisation through JSON changes (tuple vs list, int / None / bool dict keys, float identity)"""
    if depth > 12:
        return ['deep']
    if isinstance(v, tuple):
        return ['tuple'] + [_typed(x, depth + 1) for x in v]
    if isinstance(v, list):
        return ['list'] + [_typed(x, depth + 1) for x in v]
    if isinstance(v, dict):
        return ['dict'] + sorted(([_typed(k, depth + 1), _typed(x, depth + 1)] for k, x in v.items()), key=lambda kv: json.dumps(kv[0]))
    if isinstance(v, (set, frozenset)):
        return [type(v).__name__] + sorted((_typed(x, depth + 1) for x in v), key=json.dumps)
    if isinstance(v, bool) or v is None or isinstance(v, int):
        return v
    if isinstance(v, float):
        return ['float', repr(v)]
    if isinstance(v, str):
        return v if len(v) <= 200 else _blob(v)
    if isinstance(v, bytes):
        return ['bytes', v.hex()[:80]]
    return ['obj', type(v).__name__]


_SAVE_ERR = 'values or result can not be saved'


def _save_err_cut(text):
    """the save error of a task whose values / result can not be stored names the reason of whichever step rejected the
    value first (json in the main process; pickle in a worker process, /repo a38b99a): same failure, reason text cut"""
    if isinstance(text, str) and _SAVE_ERR in text:
        return text[:text.index(_SAVE_ERR) + len(_SAVE_ERR)] + ' <reason>'
    return text


def _task_data(task, fail=None):
    d = {'values': _jsonable(getattr(task, 'values', None)), 'result': _jsonable(getattr(task, 'result', None)),
         'typed': [_typed(getattr(task, 'values', None)), _typed(getattr(task, 'result', None))],
         'executed': bool(getattr(task, 'executed', False))}
    try:
        acts = list(task.actions)
    except Exception as ex:  # noqa
        acts = []
        d['actions_exc'] = type(ex).__name__
    d['out'] = [_blob(getattr(a, 'out', None)) for a in acts]
    d['err'] = [_blob(getattr(a, 'err', None)) for a in acts]
    if fail is not None:
        try:
            if type(fail).__name__ == 'UnmetDependency':
                # produced by the main process; lists the failed dependencies in the order their results arrived
                # (once per edge kind), a set in the sense of the property: compared as a sorted set
                d['fail'] = ['UnmetDependency', sorted(set(str(getattr(fail, 'message', '')).split()))]
            else:
                d['fail'] = [type(fail).__name__, _blob(_save_err_cut(getattr(fail, 'message', None))), _blob(_save_err_cut(fail.get_msg()))]
            # everything a reporter may read on the failure object: name, the `report` flag (ConsoleReporter prints a
            # failure only if it is set), the traceback lines, and which attributes the object carries at all
            d['fail_obj'] = {'name': fail.get_name(), 'report': getattr(fail, 'report', '<missing>'),
                             'traceback': _blob(''.join(getattr(fail, 'traceback', None) or [])),
                             'attrs': sorted(k for k in vars(fail))}
            if _SAVE_ERR in str(getattr(fail, 'message', '')):
                # the task object of a task whose values can not be stored: a worker process can not even send them
                # (a38b99a resets them), the serial runner leaves them on the object; nothing of it is saved (DB dump is
                # compared) -- the in-memory leftovers of the failed task are not compared
                for k in ('values', 'result', 'typed'):
                    d[k] = '<not compared: save error>'
            if type(fail).__name__ != 'UnmetDependency':       # (its message is a set in arrival order, see above)
                d['fail_obj']['repr'] = _blob(_save_err_cut(repr(fail)))
        except Exception as ex:  # noqa
            d['fail'] = ['unreadable', type(ex).__name__]
    return d


def _snapshot():
    snap = {'db': None, 'files': {}}
    try:
        with open('db.json') as f:
            raw = json.load(f)
        db = {}
        for tname, rec in raw.items():
            out = {}
            for k, v in rec.items():
                if isinstance(v, list) and len(v) == 3 and isinstance(v[0], (int, float)) and isinstance(v[2], str):
                    v = [v[1], v[2]]                 # (mtime, size, md5) -> (size, md5)
                if k == 'deps:' and isinstance(v, list):
                    v = sorted(v, key=str)           # file_dep is a set: saved in its iteration order
                out[k] = v
            db[tname] = out
        snap['db'] = db
    except Exception as ex:  # noqa
        snap['db'] = {'unreadable': type(ex).__name__}
    for root, dirs, names in os.walk('.'):
        dirs.sort()
        for d in dirs:
            snap['files'][os.path.relpath(os.path.join(root, d), '.') + '/'] = 'dir'
        for name in sorted(names):
            rel = os.path.relpath(os.path.join(root, name), '.')
            if rel.startswith('db.json') or rel == 'events.jsonl' or rel.startswith('go.') or rel.startswith('ctl.'):
                continue
            with open(rel, 'rb') as f:
                snap['files'][rel] = hashlib.sha1(f.read()).hexdigest()[:16]
    return snap


class Rep8(runlib.RecReporter):
    """recording reporter of runlib + the data a reporter can see on the task object + a snapshot at complete_run"""

    def add_failure(self, task, fail):
        rec = runlib._REC
        rec.ev(['failure', rec.tid(task), runlib._fail_kind(fail), type(fail).__name__])
        rec.ev(['data', rec.tid(task), _task_data(task, fail)])

    def add_success(self, task):
        rec = runlib._REC
        rec.ev(['success', rec.tid(task)])
        rec.ev(['data', rec.tid(task), _task_data(task)])

    def skip_uptodate(self, task):
        rec = runlib._REC
        rec.ev(['skip_uptodate', rec.tid(task)])
        rec.ev(['data', rec.tid(task), {'values': _jsonable(getattr(task, 'values', None))}])

    def complete_run(self):
        rec = runlib._REC
        rec.ev(['snapshot', _snapshot()])
        rec.ev(['complete'])


# ======================================================================================================
# family A: runlib's namespace, every task also talks
# ======================================================================================================

_ORIG_BUILD = runlib.build_namespace


def _say(n):
    def say():
        sys.stdout.write('out of %d é中\n' % n)
        sys.stderr.write('err of %d ü\n' % n)
    say.__name__ = 'say_%d' % n
    return say


def build_ns_a(case, rec):
    ns = _ORIG_BUILD(case, rec)
    gen = ns['task_gen']

    def task_gen():
        k = 0
        for d in gen():
            if d.get('actions'):
                d['actions'] = [_say(k)] + list(d['actions'])
            k += 1
            yield d
    ns['task_gen'] = task_gen
    ns['DOIT_CONFIG'] = dict(ns['DOIT_CONFIG'], reporter=Rep8)
    return ns


# ======================================================================================================
# family B: data pipelines
# ======================================================================================================

def _vshape(name):
    """values an action returns that JSON (the DB) or pickle (the result queue) alters or rejects; built here because a
    case file is JSON and can not hold them"""
    if name == 'tuple':
        return {'tup': (1, 2, ('x',)), 'lst': [1, [2, (3,)]]}
    if name == 'intkey':
        return {'ik': {3: 'x', 10: 'y'}, 'nk': {None: 'n'}, 'bk': {True: 't'}}
    if name == 'float':
        return {'f': 1.5, 'big': 1e300, 'neg0': -0.0, 'inf': float('inf'), 'nan': float('nan'), 'small': 5e-324}
    if name == 'nested':
        return {'nest': {'a': [1, (2, 3), {'b': None, 'c': [[], {}, ()]}], 'u': {'é': ['中', ('\U0001F600',)]}}}
    if name == 'set':            # picklable, not JSON-serialisable: save_success raises after the task was executed
        return {'s': {1, 2}}
    if name == 'bytes':
        return {'b': b'raw\xff'}
    if name == 'lambda':         # not picklable (and not JSON-serialisable)
        return {'fn': (lambda: 1)}
    return {}


BAD_VSHAPES = ('set', 'bytes', 'lambda')


def b_teardown(tname, i, ret):
    """teardown callable number i of a task (module level: picklable); records that it ran and by whom"""
    rec = runlib._REC
    if rec is not None:
        rec.ev(['td', rec.tid(tname), i])
    return ret


def b_action(spec, idx, tname, targets, dependencies, changed, **kw):
    """python-action of family B (module level: a delayed-created task is pickled whole by JobTask)"""
    a = spec
    if a.get('deps'):
        # what the action is told about its file dependencies (file_dep is a set: compared sorted); with `cat` also
        # their content, so that a stale list shows in the target file and in the saved values
        kw = dict(kw, dependencies=sorted(dependencies), changed=sorted(changed))
        if a.get('cat'):
            text = []
            for f in sorted(dependencies):
                try:
                    with open(f) as fh:
                        text.append(fh.read())
                except OSError:
                    text.append('<missing %s>' % f)
            kw['cat'] = ''.join(text)
    if a.get('out'):
        sys.stdout.write(a['out'])
    if a.get('big'):
        sys.stdout.write(('%s-%d-' % (tname, idx)) * (a['big'] // (len(tname) + 4)))
    if a.get('err'):
        sys.stderr.write(a['err'])
    for f in a.get('files') or []:          # plain output files (not doit targets), e.g. inside a folder made before
        with open(f, 'w') as fh:
            fh.write('file of %s\n' % tname)
    got = {k: kw[k] for k in sorted(kw) if k not in ('task',)}
    if a.get('write'):
        for f in targets:
            with open(f, 'w') as fh:
                json.dump({'by': tname, 'got': _jsonable(got)}, fh, sort_keys=True)
    ret = a.get('ret', 'none')
    if ret == 'dict':
        v = dict(a.get('vals') or {})
        if a.get('vshape'):
            v.update(_vshape(a['vshape']))
        if a.get('echo_got'):
            v['got'] = _jsonable(got)
        return v
    if ret == 'str':
        return 'result of %s/%d' % (tname, idx)
    if ret == 'false':
        return False
    if ret == 'raise':
        raise ValueError('boom in %s é' % tname)
    from doit.exceptions import TaskFailed, TaskError
    if ret == 'failobj_silent':
        return TaskFailed('silent failure of %s' % tname, report=False)
    if ret == 'errobj_silent':
        return TaskError('silent error of %s' % tname, report=False)
    if ret == 'errobj_wrapped':
        try:
            raise KeyError('inner é of %s' % tname)
        except KeyError as exc:
            return TaskError('wrapped error of %s' % tname, exc, report=(idx % 2 == 0))
    if ret == 'failobj':
        return TaskFailed('failed object of %s' % tname)
    if ret == 'errobj':
        return TaskError('error object of %s' % tname)
    return None


def b_saver_uptodate(tag):
    """uptodate callable that registers a value_saver (the mechanism of run_once / config_changed / timeout)"""
    def check(task, values):
        def saver():
            return {'saved-' + tag: 'marker of ' + task.name}
        task.value_savers.append(saver)
        return bool(values.get('saved-' + tag))
    check.__name__ = 'saver_%s' % tag
    return check


def _cmd_of(a, tname, idx):
    parts = []
    if a.get('out'):
        parts.append('printf %s ' + _shq(a['out']))
    if a.get('big'):
        parts.append('head -c %d /dev/zero | tr "\\0" x' % a['big'])
    if a.get('err'):
        parts.append('printf %s ' + _shq(a['err']) + ' 1>&2')
    if a.get('ret') == 'cmdfail':
        parts.append('exit 3')
    if a.get('ret') == 'cmderr':
        parts.append('exit 200')
    # doit expands %(targets)s etc. with the % operator: literal percent signs are doubled
    return ('; '.join(parts) if parts else 'true').replace('%', '%%')


def _shq(s):
    return "'" + s.replace("'", "'\\''") + "'"


def _b_task_dict(t):
    from doit.task import result_dep
    d = {}
    acts = []
    for i, a in enumerate(t['actions']):
        if a['t'] == 'mkdir':
            from doit.tools import create_folder
            acts.append((create_folder, [a['path']]))
        elif a['t'] == 'cmd' and a.get('save_out'):
            from doit.action import CmdAction
            acts.append(CmdAction(_cmd_of(a, t['name'], i), save_out=a['save_out']))
        elif a['t'] == 'cmd':
            acts.append(_cmd_of(a, t['name'], i))
        else:
            acts.append((b_action, [a, i, t['name']]))
    d['actions'] = acts
    if t['kind'] == 'sub':
        d['basename'] = t['group']
        d['name'] = t['name'].split(':', 1)[1]
    else:
        d['basename'] = t['name']
    for k in ('task_dep', 'setup', 'file_dep', 'targets', 'calc_dep'):
        if t.get(k):
            d[k] = list(t[k])
    upt = []
    u = t.get('uptodate', 'none')
    if u == 'saver':
        upt.append(b_saver_uptodate(t['name'].replace(':', '_')))
    elif u == 'false':
        upt.append(False)
    elif u == 'true':
        upt.append(True)
    for r in t.get('result_dep', []):
        upt.append(result_dep(r))
    if upt:
        d['uptodate'] = upt
    if t.get('getargs'):
        d['getargs'] = {a: (src, key) for a, src, key in t['getargs']}
    if t.get('verbosity') is not None:
        d['verbosity'] = t['verbosity']
    if t.get('io') is not None:
        d['io'] = {'capture': {'none': None, 'false': False, 'true': True}[t['io']]}
    if t.get('teardowns'):
        d['teardown'] = [(b_teardown, [t['name'], i, ret]) for i, ret in enumerate(t['teardowns'])]
    if t.get('closures'):
        marker = object()                        # unpicklable closures on attributes that are never shipped
        d['teardown'] = list(d.get('teardown') or []) + [lambda: marker and None]
        d['title'] = lambda task: 'T(%s)' % task.name
        d['clean'] = [lambda: marker and None]
    return d


def build_ns_b(case, rec):
    from doit.loader import create_after
    tasks = case['tasks']
    for name, text in sorted((case.get('inputs') or {}).items()):      # plain input files (cwd = the scratch dir)
        if not os.path.exists(name):
            with open(name, 'w') as fh:
                fh.write(text)
    creators = {}
    order = []
    for t in tasks:
        if t['kind'] == 'group':
            continue
        cid = t['creator']
        if cid not in creators:
            creators[cid] = []
            order.append(cid)
        creators[cid].append(t)
    ns = {'DOIT_CONFIG': {'dep_file': 'db.json', 'backend': 'json', 'verbosity': 0, 'reporter': Rep8}}
    for cid in order:
        ts = creators[cid]

        def make(ts=ts):
            def creator():
                for t in ts:
                    yield _b_task_dict(t)
            return creator
        fn = make()
        delayed = ts[0].get('delayed')
        if delayed:
            fn = create_after(executed=delayed)(fn)
        # creator name = basename for groups (create_after needs the creator's name to name the placeholder task)
        base = ts[0]['group'] if ts[0]['kind'] == 'sub' else ts[0]['name']
        fn.__name__ = 'task_' + base
        ns['task_' + base] = fn
    if case.get('prerun') and not case.get('_in_prerun'):
        _prerun(case, ns)
    return ns


def _prerun(case, ns):
    """DB pre-state: one serial run of the same dodo (own recorder, output discarded) before the measured run"""
    from doit.doit_cmd import DoitMain
    from doit.cmd_base import ModuleTaskLoader
    saved = runlib._REC
    rec0 = runlib.Recorder('mem', [t['name'] for t in case['tasks']])
    runlib._REC = rec0
    o, e = sys.stdout, sys.stderr
    sys.stdout, sys.stderr = io.StringIO(), io.StringIO()
    try:
        argv = ['run'] + (['--continue'] if case.get('cont') else [])
        try:
            DoitMain(ModuleTaskLoader(dict(ns))).run(argv)
        except BaseException:  # noqa
            pass
    finally:
        sys.stdout, sys.stderr = o, e
        runlib._REC = saved


def _act(t='py', **kw):
    d = {'t': t}
    d.update(kw)
    return d


def _bt(name, creator, kind='task', group=None, **kw):
    t = {'name': name, 'kind': kind, 'group': group, 'creator': creator, 'delayed': None, 'actions': [], 'task_dep': [],
         'setup': [], 'calc_dep': [], 'result_dep': [], 'file_dep': [], 'targets': [], 'getargs': [], 'uptodate': 'none',
         'closures': False, 'ignored': False, 'status': 'run', 'outcome': 'ok', 'teardown': False, 'calc_res': None,
         'how': 'return'}
    t.update(kw)
    return t


UNI = ['plain', 'café 中文 \U0001F600', 'tab\there', 'line1\nline2\n', '']


def gen_b(rng, runner='serial', nproc=0):
    """one data pipeline (see module docstring)"""
    tasks = []
    delayed_parts = rng.random() < 0.6
    delayed_solo = rng.random() < 0.4
    nparts = rng.randint(1, 3)
    tasks.append(_bt('prep', 0, actions=[_act(out=rng.choice(UNI), ret=rng.choice(['none', 'dict', 'str']),
                                               vals={'p': rng.randint(0, 9)})],
                     uptodate=rng.choice(['none', 'saver'])))
    # group of sub-tasks
    tasks.append(_bt('parts', 1, kind='group'))
    for i in range(nparts):
        acts = [_act(t=rng.choice(['py', 'py', 'cmd']), out='part %d %s' % (i, rng.choice(UNI)), err=rng.choice(['', 'e%d' % i]))
                for _ in range(rng.randint(0, 1))]
        acts.append(_act(ret='dict', vals={'size': (i + 1) * 10, 'u': rng.choice(UNI)}, out=rng.choice(['', 'sz'])))
        tasks.append(_bt('parts:p%d' % i, 1, kind='sub', group='parts', actions=acts,
                         delayed='prep' if delayed_parts else None, uptodate=rng.choice(['none', 'none', 'saver'])))
    tasks.append(_bt('solo', 2, delayed='prep' if delayed_solo else None,
                     actions=[_act(ret='dict', vals={'s': rng.choice(UNI), 'k': rng.randint(0, 99)}, err=rng.choice(UNI))],
                     uptodate=rng.choice(['none', 'saver']), closures=(not delayed_solo) and rng.random() < 0.5))
    # noisy: several actions, distinct outputs, an empty one in the middle, a large one
    nacts = rng.randint(2, 4)
    acts = []
    for i in range(nacts):
        kind = rng.choice(['py', 'cmd'])
        quiet = rng.random() < 0.3
        a = _act(t=kind, out='' if quiet else 'noisy-%d-out %s' % (i, rng.choice(UNI[:3])),
                 err='' if quiet or rng.random() < 0.4 else 'noisy-%d-err' % i)
        if rng.random() < 0.25:
            a['big'] = BIG
        acts.append(a)
    if rng.random() < 0.5:
        acts.append(_act(ret='dict', vals={'n': nacts}))
    tasks.append(_bt('noisy', 3, actions=acts, closures=rng.random() < 0.5))
    # consumer
    ga = []
    if rng.random() < 0.85:
        ga.append(['sizes', 'parts', 'size'])
    if rng.random() < 0.7:
        ga.append(['sv', 'solo', rng.choice(['s', 'k'])])
    if rng.random() < 0.3 and not delayed_parts:
        ga.append(['pp', 'parts:p0', 'u'])
    tasks.append(_bt('total', 4, actions=[_act(ret='dict', write=True, echo_got=True, vals={'done': 1}, out='total out')],
                     getargs=ga, targets=['total.json'], result_dep=(['solo'] if rng.random() < 0.4 else []),
                     uptodate=rng.choice(['saver', 'saver', 'false', 'none']),
                     task_dep=(['noisy'] if rng.random() < 0.3 else []) + (['parts'] if rng.random() < 0.5 else [])))
    # extra saver tasks so that some are dispatched after the workers were started
    for i in range(rng.randint(0, 3)):
        tasks.append(_bt('late%d' % i, 5 + i, actions=[_act(ret=rng.choice(['none', 'dict']), vals={'l': i}, out='late%d' % i)],
                         uptodate='saver', task_dep=(['total'] if rng.random() < 0.5 else [])))
    # calc_dep: `scan*` deliver file_dep / task_dep at run time (the main process extends the consumer's attributes
    # AFTER the worker processes were forked); consumers record the `dependencies` / `changed` their action was given
    inputs = {}
    if rng.random() < 0.6:
        inputs = {'header.txt': 'HEADER\n', 'a.txt': 'AAA\n', 'b.txt': 'BBB\n', 'c.txt': 'CCC\n'}
        for i in range(rng.randint(1, 2)):
            files = rng.sample(['a.txt', 'b.txt', 'c.txt'], rng.randint(1, 3))
            res = {'file_dep': files}
            if rng.random() < 0.4:
                res['task_dep'] = [rng.choice(['prep', 'noisy'])]
            tasks.append(_bt('scan%d' % i, 50 + i, actions=[_act(ret='dict', vals=res, out='scan%d' % i)],
                             uptodate=rng.choice(['none', 'none', 'saver'])))
            tasks.append(_bt('concat%d' % i, 60 + i, calc_dep=['scan%d' % i], file_dep=['header.txt'], targets=['all%d.txt' % i],
                             actions=[_act(ret='dict', deps=True, cat=True, write=True, echo_got=True, vals={'c': i})],
                             task_dep=(['total'] if rng.random() < 0.3 else [])))
    # wave 4 (#3): values that JSON / pickle alter or reject, on producers whose values are read through getargs
    shapes = ['tuple', 'intkey', 'float', 'nested']
    for t in tasks:
        for a in t['actions']:
            if a['t'] == 'py' and a.get('ret') == 'dict' and not a.get('deps') and rng.random() < 0.35:
                a['vshape'] = rng.choice(shapes)
    bad = None
    if rng.random() < 0.08:
        # a value that can not be saved (set, bytes) or not even sent through the result queue (lambda): since /repo
        # 8fa62ea / a38b99a that is a save error of THAT task under every runner (failure, dependents unmet, nothing
        # recorded): a plain outcome-equivalence case; --continue so that the run is complete and compared
        bad = rng.choice(['set', 'bytes', 'lambda'])
        tasks.append(_bt('badval', 90, actions=[_act(ret='dict', vals={'x': 1}, vshape=bad, out='badval')]))
        tasks.append(_bt('afterbad', 91, actions=[_act(out='never')], task_dep=['badval']))
    # (#19) per-task verbosity, io capture, save_out of cmd-actions
    for t in tasks:
        if t['kind'] == 'group':
            continue
        if rng.random() < 0.3:
            t['verbosity'] = rng.choice([0, 1, 2])
        if rng.random() < 0.2:
            cmds = any(a['t'] == 'cmd' for a in t['actions'])
            t['io'] = 'none' if cmds else rng.choice(['none', 'false', 'true'])   # capture False + cmd writes to the real fd 1
        for k, a in enumerate(t['actions']):
            if a['t'] == 'cmd' and not a.get('ret') and rng.random() < 0.4:
                a['save_out'] = 'so%d' % k
    # (#10) several teardown callables (one may fail), wildcard task_dep
    for t in tasks:
        if t['kind'] != 'group' and rng.random() < 0.25:
            t['teardowns'] = [rng.choice([None, None, True, False]) for _ in range(rng.randint(1, 3))]
    if rng.random() < 0.4:
        pat = rng.choice(['late*', 'parts:*' if not delayed_parts else 'late*', 'no_such_*', 'p*'])
        tasks.append(_bt('gather', 95, actions=[_act(out='gather', ret='dict', vals={'g': 1})], task_dep=[pat]))
    # stock helper actions of doit.tools shared by tasks that are ready at the same time: several independent tasks
    # start with create_folder on the SAME missing path (nested), then write a file into it.  (The gated os calls let
    # python-actions of different threads overlap; an action that writes to sys.stdout WITHOUT capture while another
    # thread has swapped sys.stdout is C17's open finding stdout-overlap-threads, not C08's subject: no task with
    # an io / verbosity setting (verbosity >= 1 also writes to the shared stream) in these cases.)
    if rng.random() < 0.5 and not any(t.get('io') is not None or t.get('verbosity') is not None for t in tasks):
        path = rng.choice(['build', 'build/sub', 'out/a/b'])
        for i in range(rng.randint(2, 3)):
            tasks.append(_bt('mk%d' % i, 70 + i, actions=[_act(t='mkdir', path=path),
                                                         _act(files=['%s/mk%d.txt' % (path, i)], out='mk%d' % i)]))
    cont = rng.random() < 0.6 or bad is not None
    if cont:
        # failures of every kind (only with --continue: otherwise the run is cut short and nothing is compared)
        kinds = ['false', 'raise', 'failobj', 'errobj', 'cmdfail', 'cmderr', 'failobj_silent', 'errobj_silent', 'errobj_wrapped',
                 'failobj_silent']
        for i in range(rng.randint(0, 3)):
            k = rng.choice(kinds)
            a = _act(t='cmd', ret=k, out='bad%d out' % i, err='bad%d err é' % i) if k.startswith('cmd') else \
                _act(ret=k, out='bad%d out' % i, err='bad%d err' % i)
            pre = [_act(t=rng.choice(['py', 'cmd']), out='pre%d' % i)] if rng.random() < 0.5 else []
            tasks.append(_bt('bad%d' % i, 20 + i, actions=pre + [a], outcome='failed'))
            if rng.random() < 0.5:
                tasks.append(_bt('after%d' % i, 30 + i, actions=[_act(out='never')], task_dep=['bad%d' % i]))
    # definition order of the creators is shuffled (keeping the group entry right before its first sub-task)
    units = {}
    keys = []
    for t in tasks:
        key = 'parts' if t['name'].startswith('parts') else t['name']
        if key not in units:
            units[key] = []
            keys.append(key)
        units[key].append(t)
    if rng.random() < 0.7:
        rng.shuffle(keys)
    tasks = [t for k in keys for t in units[k]]
    return {'fam': 'B', 'tasks': tasks, 'sel': None, 'cont': cont, 'always': False, 'runner': runner, 'nproc': nproc,
            'prerun': rng.random() < 0.35 and bad is None, 'inputs': inputs, 'badvalue': bad}


# ======================================================================================================
# running one case under one runner, summary, comparison
# ======================================================================================================

def _gate(orig):
    """os.path.isdir / os.makedirs / os.mkdir with a switch point of the deterministic thread scheduler in front (worker
    threads only; a no-op for the serial and the process runner): the interleavings of two tasks that prepare the same
    folder become schedulable"""
    def gated(*a, **kw):
        rec = runlib._REC
        if rec is not None and rec.sched is not None and threading.current_thread() is not threading.main_thread() \
                and getattr(threading.current_thread(), '_sched_id', None) is not None:
            try:
                rec.sched.checkpoint()
            except Exception:  # noqa
                pass
        return orig(*a, **kw)
    gated._c08_orig = orig
    return gated


def _uses_folders(case):
    return case.get('fam') == 'B' and any(a.get('t') == 'mkdir' for t in case['tasks'] for a in t['actions'])


_RUN_IMPL = runlib.run_impl


def run_patched(case, watchdog=None, keep_raw=True):
    """runlib.run_impl with this module's namespace builder and reporter (runlib.build_namespace is swapped for the
    call) and, for thread runs of folder cases, the gated os functions"""
    fam = case.get('fam', 'A')
    runlib.build_namespace = build_ns_b if fam == 'B' else build_ns_a
    gates = []
    if _uses_folders(case) and case['runner'] == 'thread':
        for mod, name in ((os.path, 'isdir'), (os, 'makedirs'), (os, 'mkdir')):
            gates.append((mod, name, getattr(mod, name)))
            setattr(mod, name, _gate(getattr(mod, name)))
    try:
        return _RUN_IMPL(case, watchdog=watchdog, keep_raw=keep_raw)
    finally:
        runlib.build_namespace = _ORIG_BUILD
        for mod, name, orig in gates:
            setattr(mod, name, orig)


def run_one(case):
    obs = run_patched(case)
    if obs['err'] and obs['err'].startswith('crash:') and not obs['trace']:
        # as runlib.run_checked: a deterministic crash of doit before the first event reproduces (and is reported);
        # a transient failure of the environment (harness source rewritten while inspect reads it, EMFILE) does not
        again = run_patched(case)
        if again['err'] != obs['err']:
            obs = again
    return obs


def summary(case, obs):
    reports, data, snap, tds = {}, {}, None, {}
    failed = False
    for e in obs.get('raw') or []:
        k = e[0]
        if k in ('success', 'skip_uptodate', 'skip_ignore'):
            reports.setdefault(str(e[1]), k)
        elif k == 'failure':
            reports.setdefault(str(e[1]), 'failure:' + e[2])
            failed = True
        elif k == 'data':
            data.setdefault(str(e[1]), e[2])
        elif k == 'snapshot':
            snap = e[1]
        elif k == 'td':
            tds.setdefault(str(e[1]), []).append(e[2])
        elif k == 'cleanup_error':
            tds['cleanup_errors'] = tds.get('cleanup_errors', 0) + 1
    complete = obs['err'] is None and any(e[0] == 'complete' for e in obs['trace']) and (bool(case.get('cont')) or not failed)
    return {'reports': reports, 'data': data, 'db': (snap or {}).get('db'), 'files': (snap or {}).get('files'),
            'exit': obs['exit'], 'err': obs['err'], 'complete': complete, 'teardowns': tds}


# 'teardowns': per task the indices of its teardown callables in the order they ran (+ number of cleanup errors)
PARTS = ('reports', 'exit', 'err', 'data', 'db', 'files', 'teardowns')


def _leaf_diff(a, b, path, out):
    if a == b:
        return
    if isinstance(a, dict) and isinstance(b, dict):
        for k in sorted(set(a) | set(b), key=str):
            _leaf_diff(a.get(k), b.get(k), path + [k], out)
    else:
        out.append([path, a, b])


def diff_summaries(ref, got):
    """list of [part, key, serial value, parallel value, leaf paths] where the two runs differ"""
    out = []
    for part in PARTS:
        a, b = ref.get(part), got.get(part)
        if a == b:
            continue
        if isinstance(a, dict) and isinstance(b, dict):
            for k in sorted(set(a) | set(b)):
                if a.get(k) != b.get(k):
                    leaves = []
                    _leaf_diff(a.get(k), b.get(k), [], leaves)
                    out.append([part, k, a.get(k), b.get(k), [[l[0], _blob(json.dumps(l[1], sort_keys=True)),
                                                               _blob(json.dumps(l[2], sort_keys=True))] for l in leaves[:8]]])
        else:
            out.append([part, None, a, b, [[[], a, b]]])
    return out


def sig_stale_group_result(w):
    """FIXED finding stale-delayed-group-result (/repo 083cb7a; no longer a signature, only used to label a regression
    in the distribution).  A task X that takes getargs / result_dep from a GROUP created by a
    delayed creator: when X's get_status runs before the group exists (parallel runners look ahead; the serial runner
    only when X is defined first), result_dep keeps the placeholder task and computes/saves `_result:<group>` = null.
    Recognised: every difference is confined to such consumers X and is either (a) a `_result:<group>` entry that is
    null on one side (the side whose get_status(X) ran before the group existed), or (b) X re-executed by one run where
    the other found it up-to-date (the stale `_result:<group>` cannot match) together with the data of that execution."""
    case = w.get('case') or {}
    if case.get('fam') != 'B' or not w.get('diff'):
        return False
    names = [t['name'] for t in case['tasks']]
    dgroups = set(t['group'] for t in case['tasks'] if t['kind'] == 'sub' and t.get('delayed'))
    consumers = set()
    for i, t in enumerate(case['tasks']):
        if any(g[1] in dgroups for g in t['getargs']) or any(r in dgroups for r in t['result_dep']):
            consumers.add(str(i))
            consumers.add(t['name'])
    reexec = set()
    for d in w['diff']:
        if d[0] == 'reports':
            if d[1] not in consumers or sorted([str(d[2]), str(d[3])]) != ['skip_uptodate', 'success']:
                return False
            reexec.add(d[1])
            reexec.add(names[int(d[1])] if str(d[1]).isdigit() and int(d[1]) < len(names) else d[1])
    for d in w['diff']:
        if d[0] == 'reports':
            continue
        if d[0] not in ('data', 'db') or len(d) < 5 or d[1] not in consumers:
            return False
        if d[0] == 'data' and d[1] in reexec:
            continue
        for path, a, b in d[4]:
            if len(path) < 2 or path[-2] not in ('values', '_values_:') or not str(path[-1]).startswith('_result:'):
                return False
            if str(path[-1])[len('_result:'):] not in dgroups or 'null' not in (a, b):
                return False
    return True


def sig_premature_group_status(w):
    """open finding premature-status-delayed-group (what 083cb7a does not cover).  DB pre-state from a complete run; a
    task X takes getargs / result_dep from a GROUP made by a delayed creator; one of the two runs evaluates
    get_status(X) before the group exists (the parallel runners look ahead while the creator's trigger executes; the
    serial runner when X is defined before the group), compares the saved dict of sub-task results with the result of
    the placeholder (None) and re-executes X, the other run finds X up-to-date.  Recognised: the case has a pre-run, the
    ONLY differences are the report of such consumers X (skip_uptodate on one side, success on the other) and the
    reporter-visible data (and teardowns) of that execution; DB dump, files, exit code and every other task agree."""
    case = w.get('case') or {}
    if case.get('fam') != 'B' or not case.get('prerun') or not w.get('diff'):
        return False
    dgroups = set(t['group'] for t in case['tasks'] if t['kind'] == 'sub' and t.get('delayed'))
    consumers = set(str(i) for i, t in enumerate(case['tasks'])
                    if any(g[1] in dgroups for g in t['getargs']) or any(r in dgroups for r in t['result_dep']))
    reexec = set()
    for d in w['diff']:
        if d[0] == 'reports':
            if d[1] not in consumers or sorted([str(d[2]), str(d[3])]) != ['skip_uptodate', 'success']:
                return False
            reexec.add(d[1])
    if not reexec:
        return False
    return all(d[0] == 'reports' or (d[0] in ('data', 'teardowns') and d[1] in reexec)
               or (d[0] == 'teardowns' and d[1] == 'cleanup_errors') for d in w['diff'])


def sig_unpicklable_result_hangs(w):
    """FIXED finding unpicklable-result-hangs (/repo a38b99a; not a signature any more, only labels a regression in the
    distribution): an action returns a value pickle rejects (vshape 'lambda') and the process runner never ends"""
    case = w.get('case') or {}
    var = w.get('variant') or {}
    return bool(case.get('badvalue') == 'lambda' and var.get('runner') == 'process'
                and (w.get('parallel') or {}).get('err') == 'deadlock')


def variant(case, runner, nproc, policy=None, schedule=None):
    c = copy.deepcopy(case)
    c['runner'] = runner
    c['nproc'] = nproc
    c.pop('schedule', None)
    c.pop('policy', None)
    if policy is not None:
        c['policy'] = policy
    if schedule is not None:
        c['schedule'] = schedule
    return c


def _names(case):
    return [t['name'] for t in case['tasks']]


def render(case):
    if case.get('fam') == 'B':
        lines = ['family B  cont=%s prerun=%s runner=%s nproc=%s' % (case.get('cont'), case.get('prerun'), case['runner'], case['nproc'])]
        for t in case['tasks']:
            if t['kind'] == 'group':
                continue
            lines.append('  %-10s creator=%s delayed=%s uptodate=%s getargs=%s task_dep=%s calc_dep=%s file_dep=%s result_dep=%s closures=%s actions=%s' % (
                t['name'], t['creator'], t['delayed'], t['uptodate'], t['getargs'], t['task_dep'], t.get('calc_dep'), t.get('file_dep'), t['result_dep'],
                t['closures'], [(a['t'], a.get('ret', 'none'), bool(a.get('out')), bool(a.get('err')), a.get('big', 0))
                                for a in t['actions']]))
        return '\n'.join(lines)
    return runlib.render(case)


# ---- Lean side ---------------------------------------------------------------------------------------

def den_request(case, runs):
    """runs: [(obs, summary)] with the serial reference first"""
    if case.get('fam') == 'B':
        n = len(case['tasks'])
        req = {'model': 'c08', 'op': 'den', 'n': n, 'taskDep': [[] for _ in range(n)], 'calcDep': [[] for _ in range(n)],
               'setup': [[] for _ in range(n)], 'sel': [], 'cont': bool(case.get('cont'))}
    else:
        m = case.get('model') or runlib.expand(case)
        req = {'model': 'c08', 'op': 'den'}
        req.update(m)
        sel0 = runs[0][0].get('selected')
        if sel0 is not None and all(isinstance(x, int) for x in sel0) and sel0 != m['sel']:
            req['sel'] = list(sel0)
    req['runs'] = [{'trace': [e for e in o['trace'] if isinstance(e[1] if len(e) > 1 else 0, int)],
                    'exit': o['exit'] if isinstance(o['exit'], int) and o['exit'] >= 0 else 99,
                    'complete': bool(s['complete'])} for o, s in runs]
    return req


# ---- one group: serial reference + variants ------------------------------------------------------------

def eval_group(case, variants, st, shrink_s=8.0, accept=True, den=True):
    """run the serial reference and every variant, apply K1, K2, P.  Returns seconds spent shrinking."""
    fam = case.get('fam', 'A')
    base = variant(case, 'serial', 0)
    if fam == 'A':
        base['model'] = runlib.expand(base)
    ref_obs = run_one(base)
    ref = summary(base, ref_obs)
    runs = [(base, ref_obs, ref)]
    for v in variants:
        if fam == 'A':
            v['model'] = runlib.expand(v)
        o = run_one(v)
        if o.get('schedule') is not None:
            v['schedule'] = o['schedule']
        runs.append((v, o, summary(v, o)))
    # ---- Lean: denotation + pair monitor; M1 acceptance
    if not den:
        ans = {'error': 'not asked (scale)'}
    else:
        try:
            ans = common.drv_batch([den_request(base, [(o, s) for _, o, s in runs])])[0]
        except Exception as ex:  # noqa
            ans = {'error': str(ex)[:200]}
    acc = [None] * len(runs)
    if fam == 'A' and accept:
        acc = runlib.ask_model([(c, o) for c, o, _ in runs])
    spent = 0.0
    n_exec = sum(1 for k in ref['reports'].values() if k == 'success' or k.startswith('failure'))
    for i, (c, o, s) in enumerate(runs):
        key = {'case': render(c).split('\n'), 'runner': c['runner'], 'nproc': c['nproc'], 'schedule': o.get('schedule')}
        st.case(key, nontrivial=bool(ref['complete'] and n_exec > 0))
        st.traces += 1
        st.count('runner:%s' % c['runner'])
        st.count('fam:%s' % fam)
        if c['runner'] != 'serial':
            st.count('nproc:%s:%d' % (c['runner'], c['nproc']))
            if c.get('policy'):
                st.count('policy:%s' % c['policy'].get('kind'))
        st.count('run_complete' if s['complete'] else 'run_cut_short_or_error')
        for k in s['reports'].values():
            st.count('report:%s' % k)
        if o['err']:
            st.count('err:%s' % o['err'])
    _count_case(st, base, ref)
    if 'error' in ans:
        if den:
            st.count('driver_unavailable')
        ans = None
    # K1: every run is a trace of M1
    for (c, o, s), a in zip(runs, acc):
        if a is None or 'error' in a or a.get('skipped'):
            if a is not None:
                st.count('accept_skipped')
            continue
        st.count('accept_checked')
        if not a.get('accepted'):
            st.divergence({'case': _strip(c), 'trace': o['trace'], 'exit': o['exit'], 'err': o['err'],
                           'matched': a.get('matched'), 'expected': a.get('expected')},
                          'K1: run (%s) is not a trace of the M1 model' % c['runner'])
    # deliveries of calc tasks that FAILED during execution (runlib 'calc_first' tasks; model: calcResFail / deliverF):
    # since the NoFailDeliver hypothesis was lifted (Dyn.delivOf / startedFail) the dynamic denotation evaluated by the
    # driver covers them, so K2c applies; counted to show that the clause is exercised on real runs
    if fam == 'A':
        m0 = base.get('model') or {}
        st.count('fail_delivery_case:%s' % any(m0.get('calcResFail') or []))
    # K2: denotation (hypotheses: no calc_dep, acyclic = determined)
    if ans is not None and fam == 'A':
        hyp = ans.get('nocalc') and ans.get('determined')
        st.count('hyp_nocalc_acyclic:%s' % bool(hyp))
        if hyp:
            for (c, o, s), ok in zip(runs, ans['mon_den']):
                if o['err'] is not None:
                    continue
                st.count('den_checked')
                if not ok:
                    st.divergence({'case': _strip(c), 'den': ans['den'], 'closure': ans['closure'], 'den_exit': ans['exit'],
                                   'reports': s['reports'], 'exit': o['exit'], 'complete': s['complete']},
                                  'K2: reports / closure / exit code of the %s run differ from the denotation' % c['runner'])
    # K2c: denotation with dynamic calc_dep edges (hypothesis: determined_c, decidable; C08_monitors_hold_dyn)
    if ans is not None and fam == 'A' and 'determined_c' in ans:
        kind = 'nocalc' if ans.get('nocalc') else 'calc'
        st.count('hyp_dyn_determined:%s:%s' % (kind, bool(ans.get('determined_c'))))
        if ans.get('determined_c'):
            for (c, o, s), ok in zip(runs, ans['mon_den_c']):
                if o['err'] is not None:
                    continue
                st.count('den_c_checked:%s' % kind)
                if any((base.get('model') or {}).get('calcResFail') or []):
                    st.count('den_c_checked:fail_delivery')
                if not ok:
                    st.divergence({'case': _strip(c), 'den': ans['den_c'], 'closure': ans['closure_c'],
                                   'den_exit': ans['exit_c'], 'reports': s['reports'], 'exit': o['exit'],
                                   'complete': s['complete']},
                                  'K2c: reports / closure / exit code of the %s run differ from the denotation with '
                                  'dynamic calc_dep edges' % c['runner'])
    # P: serial vs each variant
    if not ref['complete']:
        st.count('pair_skipped_reference_cut_short')
        return spent
    for i, (c, o, s) in enumerate(runs[1:]):
        if case.get('badvalue'):
            st.count('pair_checked_badvalue:%s:%s' % (case['badvalue'], c['runner']))
        st.count('pair_checked')
        st.count('pair_checked:%s' % c['runner'])
        d = diff_summaries(ref, s)
        lean_ok = True if ans is None else bool(ans['mon_pair'][i])
        if ans is not None and lean_ok != (not [x for x in d if x[0] in ('reports', 'exit')]) and o['err'] is None \
                and all(k.isdigit() for k in list(s['reports']) + list(ref['reports'])):
            st.divergence({'case': _strip(c), 'diff': d, 'lean_pair': lean_ok}, 'monitor disagreement: Lean monC08Pair vs Python')
        if not d and lean_ok:
            continue
        st.count('pair_failed')
        wit = {'case': _strip(base), 'variant': {'runner': c['runner'], 'nproc': c['nproc'], 'policy': c.get('policy'),
                                                 'schedule': o.get('schedule')},
               'diff': d[:12], 'serial': {'exit': ref['exit'], 'reports': ref['reports']},
               'parallel': {'exit': s['exit'], 'err': o['err'], 'reports': s['reports'], 'stderr': o.get('stderr', '')[-300:]}}
        if sig_unpicklable_result_hangs(wit):
            st.count('regression:unpicklable-result-hangs')
        if sig_premature_group_status(wit):
            st.count('known:premature-status-delayed-group')
        elif sig_stale_group_result(wit):
            st.count('regression:stale-delayed-group-result')      # fixed finding F-C08 (083cb7a): a plain violation again
        if not sig_premature_group_status(wit) and shrink_s - spent > 1.0 and len(st.violations) < 2:
            t0 = time.time()
            small = shrink_pair(base, c, d, shrink_s - spent)
            spent += time.time() - t0
            if small is not None:
                wit = small
        st.violation(wit, 'monitor', 'C08: %s run (n=%d) differs from the serial run in: %s' % (
            c['runner'], c['nproc'], ', '.join(sorted(set(x[0] for x in wit['diff'])))))
    return spent


def _strip(c):
    c = {k: v for k, v in c.items() if k not in ('model',)}
    return c


def _count_case(st, case, ref):
    if case.get('fam') == 'B':
        ts = [t for t in case['tasks'] if t['kind'] != 'group']
        st.count('B:tasks:%d' % len(ts))
        st.count('B:prerun:%s' % bool(case.get('prerun')))
        st.count('B:cont:%s' % bool(case.get('cont')))
        for t in ts:
            if t['delayed']:
                st.count('B:delayed:%s' % t['kind'])
            st.count('B:uptodate:%s' % t['uptodate'])
            st.count('B:nactions:%d' % len(t['actions']))
            for a in t['actions']:
                st.count('B:action:%s:%s' % (a['t'], a.get('ret', 'none')))
                if a['t'] == 'mkdir':
                    st.count('B:create_folder:%s' % a['path'])
                if a.get('big'):
                    st.count('B:action:big')
            for g in t['getargs']:
                st.count('B:getargs:%s' % ('group' if g[1] == 'parts' else 'task'))
            if t['result_dep']:
                st.count('B:result_dep')
            if t.get('calc_dep'):
                st.count('B:calc_dep_consumer')
            for a in t['actions']:
                if a.get('deps'):
                    st.count('B:action_records_dependencies')
                if isinstance(a.get('vals'), dict) and 'file_dep' in a['vals']:
                    st.count('B:calc_result:file_dep:%d' % len(a['vals']['file_dep']))
                    if 'task_dep' in a['vals']:
                        st.count('B:calc_result:task_dep')
            if t['closures']:
                st.count('B:closures')
            if t.get('verbosity') is not None:
                st.count('B:verbosity:%d' % t['verbosity'])
            if t.get('io') is not None:
                st.count('B:io_capture:%s' % t['io'])
            if t.get('teardowns'):
                st.count('B:teardowns:%d%s' % (len(t['teardowns']), ':one_fails' if False in t['teardowns'] else ''))
            for pat in t['task_dep']:
                if '*' in pat:
                    st.count('B:wild_task_dep:%s' % pat)
            for a in t['actions']:
                if a.get('vshape'):
                    st.count('B:vshape:%s' % a['vshape'])
                if a.get('save_out'):
                    st.count('B:save_out')
    else:
        runlib.count_case(st, case, None)


def pair_fails(base, var):
    """re-run serial + one variant, return (diff, witness pieces) or None when they agree / reference cut short"""
    fam = base.get('fam', 'A')
    b = variant(base, 'serial', 0)
    v = variant(base, var['runner'], var['nproc'], var.get('policy'), None)
    if fam == 'A':
        b['model'] = runlib.expand(b)
        v['model'] = runlib.expand(v)
    ro = run_one(b)
    r = summary(b, ro)
    if not r['complete']:
        return None
    vo = run_one(v)
    s = summary(v, vo)
    d = diff_summaries(r, s)
    if not d:
        return None
    return {'case': _strip(b), 'variant': {'runner': v['runner'], 'nproc': v['nproc'], 'policy': v.get('policy'),
                                           'schedule': vo.get('schedule')},
            'diff': d[:12], 'serial': {'exit': r['exit'], 'reports': r['reports']},
            'parallel': {'exit': s['exit'], 'err': vo['err'], 'reports': s['reports'], 'stderr': vo.get('stderr', '')[-300:]}}


def shrink_pair(base, var, diff, budget_s):
    """greedy task removal (family B: drop tasks nobody refers to; family A: runlib.shrink) keeping the disagreement"""
    t_end = time.time() + budget_s
    best = None
    vdesc = {'runner': var['runner'], 'nproc': var['nproc'], 'policy': var.get('policy')}
    if base.get('fam') == 'B':
        cur = copy.deepcopy(base)
        changed = True
        while changed and time.time() < t_end:
            changed = False
            for t in list(cur['tasks']):
                if time.time() > t_end:
                    break
                if t['kind'] == 'group':
                    continue
                name = t['name']
                used = any(name in x['task_dep'] or name in x['setup'] or name in x['result_dep'] or x.get('delayed') == name or name in (x.get('calc_dep') or [])
                           or any(name in ((a.get('vals') or {}).get('task_dep') or []) for a in x['actions'])
                           or any(g[1] == name or (g[1] == t.get('group') and len([y for y in cur['tasks'] if y.get('group') == t.get('group') and y['kind'] == 'sub']) == 1)
                                  for g in x['getargs'])
                           for x in cur['tasks'] if x is not t)
                if used:
                    continue
                trial = copy.deepcopy(cur)
                trial['tasks'] = [x for x in trial['tasks'] if x['name'] != name]
                if t['kind'] == 'sub' and not any(x['kind'] == 'sub' and x['group'] == t['group'] for x in trial['tasks']):
                    trial['tasks'] = [x for x in trial['tasks'] if x['name'] != t['group']]
                try:
                    w = pair_fails(trial, vdesc)
                except Exception:  # noqa
                    w = None
                if w is not None:
                    cur, best, changed = trial, w, True
        return best
    holder = {}

    def still(c):
        try:
            w = pair_fails(c, vdesc)
        except Exception:  # noqa
            return False
        if w is not None:
            holder['w'] = w
            return True
        return False
    try:
        runlib.shrink(variant(base, 'serial', 0), still, max_tests=40, max_seconds=max(1.0, budget_s))
    except Exception:  # noqa
        pass
    return holder.get('w')


# ======================================================================================================
# K3: the data path at API level
# ======================================================================================================

FIXED = ['name', 'values', 'result', 'executed', 'options', 'task_dep', '_actions', '_action_instances', 'clean_actions',
         'teardown', 'custom_title', 'value_savers', 'uptodate']


class _Act(object):
    def __init__(self, out, err):
        self.out, self.err = out, err
        self.task = None


class _FakeDep(object):
    def save_success(self, task):
        pass

    def remove_success(self, task):
        pass


class _FakeRep(object):
    def __init__(self):
        self.calls = []

    def add_success(self, task):
        self.calls.append(('success', None))

    def add_failure(self, task, fail):
        self.calls.append(('failure', fail))


class _Node(object):
    def __init__(self, task):
        self.task = task
        self.run_status = 'run'


def data_case(rng):
    """ids are small ints; on the Python side value id k of attribute a is the object ('v', a, k)"""
    n_main = rng.randint(0, 4)
    mode = rng.random()
    n_work = n_main if mode < 0.6 else rng.randint(0, 4)
    others = ['file_dep', 'targets', 'dep_changed', 'verbosity', 'doc'][:rng.randint(0, 5)]
    keys = FIXED + others
    main = {k: rng.randint(1, 50) for k in keys}
    work = {k: rng.randint(51, 99) for k in keys}
    work['name'] = main['name']
    c = {'main': {'task': main, 'acts': [[rng.randint(100, 199), rng.randint(200, 299)] for _ in range(n_main)]},
         'worker': {'task': work, 'acts': [[rng.randint(300, 399), rng.randint(400, 499)] for _ in range(n_work)],
                    'failure': rng.choice([None, None, 7, 8])}}
    if rng.random() < 0.2:
        c['outs'] = [rng.randint(500, 599) for _ in range(rng.randint(0, 4))]
    if rng.random() < 0.2:
        c['errs'] = [rng.randint(600, 699) for _ in range(rng.randint(0, 4))]
    return c


def data_impl(c):
    """the same through the real Task / MRunner (API level, as doit's own unit tests drive them)"""
    common.use_repo()
    from doit.task import Task
    from doit.runner import MRunner
    from doit.exceptions import TaskFailed

    def mk(rec, acts, tag):
        t = Task('t%d' % rec['name'], None)
        for k, v in rec.items():
            if k == 'name':
                continue
            if k == '_action_instances':
                continue
            if k == 'value_savers':
                t.__dict__[k] = [(tag, k, v)]
            else:
                t.__dict__[k] = (tag, k, v)
        t.__dict__['_action_instances'] = [_Act(o, e) for o, e in acts]
        t.__dict__['_ai_id'] = rec['_action_instances']
        return t
    main_t = mk(c['main']['task'], c['main']['acts'], 'v')
    work_t = mk(c['worker']['task'], c['worker']['acts'], 'v')
    del main_t.__dict__['_ai_id']
    del work_t.__dict__['_ai_id']
    # the worker's side of execute_task_subprocess
    result = {'name': work_t.name}
    fails = {7: TaskFailed('f7'), 8: TaskFailed('f8')}
    if c['worker']['failure'] is not None:
        result['failure'] = fails[c['worker']['failure']]
    result['task'] = work_t.pickle_safe_dict()
    result['out'] = [a.out for a in work_t.actions]
    result['err'] = [a.err for a in work_t.actions]
    if 'outs' in c:
        result['out'] = list(c['outs'])
    if 'errs' in c:
        result['err'] = list(c['errs'])
    shipped = sorted(k for k in result['task'] if k in c['main']['task'])
    rep = _FakeRep()
    runner = MRunner(_FakeDep(), rep)
    main_acts = main_t.__dict__['_action_instances']
    main_t.value_savers = []           # process_task_result calls save_extra_values
    runner._process_result(_Node(main_t), main_t, result)
    out_task = {}
    for k in c['main']['task']:
        if k == 'name':
            out_task[k] = c['main']['task']['name'] if main_t.name == 't%d' % c['main']['task']['name'] else -1
        elif k == '_action_instances':
            out_task[k] = c['main']['task'][k] if main_t.__dict__.get('_action_instances') is main_acts else -1
        elif k == 'value_savers':
            out_task[k] = c['main']['task'][k] if main_t.__dict__.get(k) == [] else -1
        elif k == 'values':
            v = main_t.__dict__.get(k)
            out_task[k] = v[2] if isinstance(v, tuple) else -1
        else:
            v = main_t.__dict__.get(k)
            out_task[k] = v[2] if isinstance(v, tuple) and len(v) == 3 else -1
    base_fail = None
    if rep.calls and rep.calls[-1][0] == 'failure':
        base_fail = [k for k, f in fails.items() if f is rep.calls[-1][1]]
        base_fail = base_fail[0] if base_fail else -1
    return {'shipped': shipped, 'task': out_task, 'acts': [[a.out, a.err] for a in main_acts], 'base_fail': base_fail}


JOB_KEYS = FIXED + ['file_dep', 'targets', 'dep_changed', 'verbosity', 'doc', 'calc_dep', 'pos_arg_val', 'setup_tasks']


def job_case(rng):
    """main process -> worker process (JobTaskPickle): the worker's Task is its fork-time copy (ids 51..99), the main
    side has meanwhile changed any of its attributes (ids 1..50: file_dep / task_dep / calc_dep extended by calc_dep
    results, options and dep_changed set by select_task, values ...)"""
    main = {k: rng.randint(1, 50) for k in JOB_KEYS}
    work = {k: rng.randint(51, 99) for k in JOB_KEYS}
    for k in JOB_KEYS:
        if rng.random() < 0.3:
            work[k] = main[k]          # attribute not changed since the fork
    work['name'] = main['name']
    return {'job': True, 'main': {'task': main}, 'worker': {'task': work}}


def _mk_task(rec, tag):
    from doit.task import Task
    t = Task('t%d' % rec['name'], None)
    for k, v in rec.items():
        if k in ('name', '_action_instances'):
            continue
        t.__dict__[k] = [(tag, k, v)] if k == 'value_savers' else (tag, k, v)
    t.__dict__['_action_instances'] = [('acts', rec['_action_instances'])]
    return t


def _ids_of(t, rec):
    out = {}
    for k in rec:
        v = t.__dict__.get(k)
        if k == 'name':
            out[k] = rec['name'] if t.name == 't%d' % rec['name'] else -1
        elif k == '_action_instances':
            out[k] = v[0][1] if isinstance(v, list) and v and isinstance(v[0], tuple) else -1
        elif k == 'value_savers':
            out[k] = v[0][2] if isinstance(v, list) and v and isinstance(v[0], tuple) else -1
        else:
            out[k] = v[2] if isinstance(v, tuple) and len(v) == 3 else -1
    return out


def job_impl(c):
    """the real JobTaskPickle + what execute_task_subprocess does with it in a worker process"""
    common.use_repo()
    from doit.runner import JobTaskPickle
    main_t = _mk_task(c['main']['task'], 'v')
    work_t = _mk_task(c['worker']['task'], 'v')
    job = JobTaskPickle(main_t)
    shipped = sorted(k for k in job.task_dict if k in c['main']['task'])
    assert job.name == main_t.name
    work_t.update_from_pickle(job.task_dict)           # `if self.Child == Process:` branch of execute_task_subprocess
    return {'shipped': shipped, 'task': _ids_of(work_t, c['main']['task'])}


def _job_intact_py(c, got):
    """statement of C08_job_pickle_intact on the implementation: every attribute pickle_safe_dict ships has the main
    side's value in the worker, the seven unshipped ones are the worker's own"""
    if 'exc' in got:
        return False
    unshipped = ('_actions', '_action_instances', 'clean_actions', 'teardown', 'custom_title', 'value_savers', 'uptodate')
    for k, v in c['main']['task'].items():
        want = c['worker']['task'][k] if k in unshipped else v
        if got['task'].get(k) != want:
            return False
    return True


def failure_objects():
    """failure objects as actions / doit produce them, with default and non-default attributes"""
    common.use_repo()
    from doit import exceptions as ex
    out = []
    for cls in (ex.TaskFailed, ex.TaskError, ex.UnmetDependency, ex.SetupError, ex.DependencyError, ex.BaseFail):
        for report in (True, False):
            out.append(cls('msg of %s é' % cls.__name__, report=report))
            try:
                raise ValueError('inner %s' % cls.__name__)
            except ValueError as exc:
                out.append(cls('wrapping %s' % cls.__name__, exc, report=report))
    inner = ex.TaskError('inner fail', report=False)
    inner.traceback = ['line 1\n', 'line 2 é\n']
    out.append(ex.TaskFailed('outer', inner, report=False))
    return out


def _fail_view(f):
    return {'type': type(f).__name__, 'name': f.get_name(), 'message': f.message, 'traceback': list(f.traceback or []),
            'report': getattr(f, 'report', '<missing>'), 'msg': f.get_msg(), 'str': str(f), 'attrs': sorted(vars(f))}


def eval_failure_pickle(st):
    """K3c / P at API level: what `result_q.put(result)` does to `result['failure']` (multiprocessing queues pickle):
    the object the main process hands to the reporter must show the same name, message, traceback, report flag"""
    import pickle
    for f in failure_objects():
        before = _fail_view(f)
        try:
            after = _fail_view(pickle.loads(pickle.dumps({'name': 't', 'failure': f}))['failure'])
        except Exception as ex:  # noqa
            after = {'exc': type(ex).__name__, 'msg': str(ex)[:200]}
        st.case({'failure_pickle': [before['type'], before['report'], bool(before['traceback'])]}, nontrivial=True)
        st.count('K3:failure_pickle:%s:report=%s' % (before['type'], before['report']))
        if before != after:
            leaves = []
            _leaf_diff(before, after, [], leaves)
            st.violation({'failure_case': {'type': before['type'], 'report': before['report'],
                                           'wrapped': bool(before['traceback'])}, 'before': before, 'after': after},
                         'monitor', 'C08 data_intact: failure details do not survive the result queue (pickle): %s' % [l[0] for l in leaves][:5])


def eval_data_batch(batch):
    st = common.WorkerStats()
    common.use_repo()
    cases = []
    for seed in batch['seeds']:
        cases.append(data_case(random.Random(seed)))
        cases.append(job_case(random.Random(seed ^ 0x5a5a)))
    cases = batch.get('cases', []) + cases
    if batch.get('failures'):
        eval_failure_pickle(st)
    reqs = [dict(c, model='c08', op='job' if c.get('job') else 'data') for c in cases]
    try:
        answers = common.drv_batch(reqs)
    except Exception as ex:  # noqa
        answers = [{'error': str(ex)[:100]}] * len(reqs)
    for c, a in zip(cases, answers):
        if c.get('job'):
            st.case({'job': c}, nontrivial=True)
            st.count('K3:job_cases')
            st.count('K3:job:attrs_changed_since_fork:%d' % min(9, sum(1 for k in c['main']['task']
                                                                     if c['main']['task'][k] != c['worker']['task'][k]) // 3 * 3))
            if 'error' in a:
                st.count('driver_unavailable')
                continue
            try:
                got = job_impl(c)
            except Exception as ex:  # noqa
                got = {'exc': type(ex).__name__, 'msg': str(ex)[:200]}
            want = {'shipped': sorted(a['shipped']), 'task': a['task']}
            if got != want:
                w = {'data_case': c, 'impl': got, 'model': want}
                if not _job_intact_py(c, got):
                    st.violation(w, 'monitor', 'C08 job_pickle_intact: an attribute of the main-side task did not reach the '
                                 'worker process (API level: JobTaskPickle / pickle_safe_dict / update_from_pickle): %s' % sorted(
                                     k for k in c['main']['task'] if (got.get('task') or {}).get(k) != a['task'].get(k))[:6])
                else:
                    st.divergence(w, 'K3: JobTaskPickle differs from workerReceivesPickle')
            continue
        st.case({'data': c}, nontrivial=bool(c['worker']['acts']))
        st.count('K3:main_acts:%d' % len(c['main']['acts']))
        st.count('K3:len_%s' % ('equal' if len(c['main']['acts']) == len(c['worker']['acts']) else 'differ'))
        st.count('K3:failure:%s' % (c['worker']['failure'] is not None))
        if 'error' in a:
            st.count('driver_unavailable')
            continue
        try:
            got = data_impl(c)
        except Exception as ex:  # noqa
            got = {'exc': type(ex).__name__, 'msg': str(ex)[:200]}
        want = {'shipped': sorted(a['shipped']), 'task': a['task'], 'acts': a['acts'], 'base_fail': a['base_fail']}
        if got != want:
            intact = _data_intact_py(c, got)
            w = {'data_case': c, 'impl': got, 'model': want}
            if not intact:
                st.violation(w, 'monitor', 'C08 data_intact: what the worker produced did not reach the main-side task '
                                            '(API level: pickle_safe_dict / update_from_pickle / _process_result)')
            else:
                st.divergence(w, 'K3: data path differs from processResultData')
    return st


def _data_intact_py(c, got):
    """the statement of C08_data_intact_same_actions on the implementation's result (only when lengths agree and the
    result lists were not overridden)"""
    if 'exc' in got:
        return False
    if 'outs' in c or 'errs' in c or len(c['main']['acts']) != len(c['worker']['acts']):
        return True
    w = c['worker']
    return (got['task'].get('values') == w['task']['values'] and got['task'].get('result') == w['task']['result']
            and got['task'].get('executed') == w['task']['executed'] and got['acts'] == w['acts']
            and got['base_fail'] == w['failure'])


# ======================================================================================================
# batches
# ======================================================================================================

# calc_dep edges are inside the theorems (C08_confluence) and the denotation monitor (K2c) since wave 3
# ======================================================================================================
# family S: scale (audit #20) -- big structured graphs in runlib's case format (so K1 / K2 / K2c / P all apply)
# ======================================================================================================

def gen_scale(rng, n_lo, n_hi):
    """chain (deep task_dep recursion of the dispatcher), fan-in (one task waits for w others), fan-out (w tasks wake
    on one), comb (a chain with a leaf at every link) and mixed setup edges; a few failures / up-to-date / ignored tasks,
    --continue.  Tree-shaped on purpose: the static denotation denF is evaluated without memoisation."""
    n = rng.randint(n_lo, n_hi)
    shape = rng.choice(['chain', 'fanin', 'fanout', 'comb', 'chain_setup'])
    ts = [runlib._new_task('t%d' % i) for i in range(n)]
    if shape in ('chain', 'chain_setup'):
        for i in range(1, n):
            ts[i]['setup' if (shape == 'chain_setup' and i % 3 == 0) else 'task_dep'].append('t%d' % (i - 1))
    elif shape == 'fanin':
        ts[n - 1]['task_dep'] = ['t%d' % i for i in range(n - 1)]
    elif shape == 'fanout':
        for i in range(1, n):
            ts[i]['task_dep'].append('t0')
    else:
        for i in range(2, n, 2):
            ts[i]['task_dep'].append('t%d' % (i - 2))
            ts[i]['task_dep'].append('t%d' % (i - 1))
    for t in ts:
        r = rng.random()
        if r < 0.02:
            t['outcome'] = 'failed'
        elif r < 0.03:
            t['outcome'] = 'error'
            t['how'] = 'raise'
        elif r < 0.08:
            t['status'] = 'utd'
        elif r < 0.09:
            t['ignored'] = True
    if rng.random() < 0.5:
        order = list(range(n))
        rng.shuffle(order)
        ts = [ts[i] for i in order]
    sel = None
    if shape in ('chain', 'chain_setup', 'comb') and rng.random() < 0.5:
        sel = ['t%d' % (n - 1 if shape != 'comb' else (n - 1) // 2 * 2)]      # the dispatcher reaches the rest by recursion
    return {'fam': 'A', 'scale': shape, 'tasks': ts, 'sel': sel, 'cont': True, 'always': False, 'runner': 'serial', 'nproc': 0}


# p_calc_then_fail (runlib opt-in knob): a calc task whose first action returns the calc values and whose second action
# fails -- doit delivers the values of the FAILED task (model: calcResFail / deliverF)
A_KNOBS = {'n_max': 8, 'p_dup_sel': 0.0, 'p_cont': 0.6, 'weights': {'calc_dep': 9}, 'p_calc_then_fail': 0.3}


def gen_variants(rng, case, kinds):
    out = []
    for kind in kinds:
        if kind == 'thread':
            k = rng.randint(1, 3)
            out.append(variant(case, 'thread', k, runlib.gen_policy(rng, k)))
        else:
            out.append(variant(case, 'process', rng.randint(1, 3), {'kind': 'seeded', 'seed': rng.randrange(1 << 30)}))
    return out


def eval_batch(batch):
    """{'groups': [(seed, fam, kinds)], 'cases': [corpus case...], 'deadline': t}"""
    st = common.WorkerStats()
    common.use_repo()
    shrink_left = batch.get('shrink_s', 10.0)
    deadline = batch.get('deadline')
    for c in batch.get('cases', []):
        c = copy.deepcopy(c)
        vs = [variant(c, v['runner'], v['nproc'], v.get('policy'), v.get('schedule')) for v in c.pop('variants')]
        explore = c.pop('explore', None)
        st.count('small_scope_case' if c.pop('small_scope', False) else 'corpus_case')
        if explore:
            # every completion order of the thread runner with `explore` workers
            got = []
            e = variant(c, 'thread', int(explore))
            if c.get('fam', 'A') == 'A':
                e['model'] = runlib.expand(e)
            runlib.run_impl = run_patched            # enumerate_schedules calls runlib.run_impl
            try:
                runlib.enumerate_schedules(e, limit=int(c.pop('explore_limit', 24)), on_obs=lambda cc, oo: got.append(cc))
            finally:
                runlib.run_impl = _RUN_IMPL
            seen = set()
            for cc in got:
                key = json.dumps(cc.get('schedule'))
                if key not in seen:
                    seen.add(key)
                    vs.append(variant(c, 'thread', int(explore), {'kind': 'script'}, cc.get('schedule')))
            st.count('corpus_explored_schedules', len(seen))
        shrink_left -= eval_group(c, vs, st, shrink_left)
    for seed, fam, kinds in batch.get('groups', []):
        if deadline is not None and time.time() > deadline:
            st.count('not_run_budget_exhausted')
            continue
        rng = random.Random(seed)
        if fam == 'A':
            c = runlib.gen_case(rng, runner='serial', **A_KNOBS)
            c['fam'] = 'A'
        elif fam == 'S':
            lo, hi = batch.get('scale', (50, 80))
            c = gen_scale(rng, lo, hi)
            c['seed'] = seed
            vs = []
            for kind in kinds:
                k = rng.randint(2, 8)
                vs.append(variant(c, kind, k, runlib.gen_policy(rng, k) if kind == 'thread' else {'kind': 'seeded', 'seed': rng.randrange(1 << 30)}))
            st.count('S:shape:%s' % c['scale'])
            st.count('S:tasks:%d+' % (len(c['tasks']) // 50 * 50))
            for v in vs:
                st.count('S:nproc:%s:%d' % (v['runner'], v['nproc']))
            # monitors-only: the acceptor (K1: 5-7 s per 60-task trace) and the unmemoised denotations (K2 / K2c: 6-20 s) do
            # not scale to these sizes; P (Python comparison of reports, exit code, data, DB, files, teardowns) does
            shrink_left -= eval_group(c, vs, st, shrink_left, accept=False, den=False)
            st.count('S:monitors_only_K1_K2_K2c_not_run', 1 + len(vs))
            continue
        else:
            c = gen_b(rng)
        c['seed'] = seed
        shrink_left -= eval_group(c, gen_variants(rng, c, kinds), st, shrink_left)
        if len(st.violations) >= 3:
            break
    return st


def fork_map(func, items, procs=4):
    """runlib.fork_map with the pipes drained BEFORE the children are reaped (runlib's version waits for the child to
    exit first, which deadlocks once a result is larger than the pipe buffer: the child blocks in write())."""
    import pickle
    import select
    import traceback
    items = list(items)
    results = [None] * len(items)
    pending = list(enumerate(items))
    running = {}      # read fd -> (index, pid, chunks)
    while pending or running:
        while pending and len(running) < procs:
            i, it = pending.pop(0)
            r, w = os.pipe()
            sys.stdout.flush()
            sys.stderr.flush()
            pid = os.fork()
            if pid == 0:
                code = 0
                try:
                    os.close(r)
                    try:
                        payload = ('ok', func(it))
                    except BaseException:  # noqa
                        payload = ('exc', traceback.format_exc())
                    with os.fdopen(w, 'wb') as f:
                        pickle.dump(payload, f)
                except BaseException:  # noqa
                    code = 1
                finally:
                    os._exit(code)
            os.close(w)
            running[r] = (i, pid, [])
        ready, _, _ = select.select(list(running), [], [], 1.0)
        for r in ready:
            data = os.read(r, 1 << 16)
            i, pid, chunks = running[r]
            if data:
                chunks.append(data)
                continue
            os.close(r)
            del running[r]
            try:
                os.waitpid(pid, 0)
            except OSError:
                pass
            blob = b''.join(chunks)
            kind, val = pickle.loads(blob) if blob else ('exc', 'child died without an answer')
            if kind == 'exc':
                raise RuntimeError('worker failed:\n' + val)
            results[i] = val
    return results


def exhaustive_cases(ctx):
    """small scope, exhaustively: every DAG on <= 3 tasks over task_dep / setup edges x every assignment of
    ok / failed / (quick: no more) error to the tasks, --continue, 2 worker threads, EVERY completion order
    (runlib.enumerate_schedules, policy eager); each schedule is compared with the serial run (P) and with the
    denotation (K2), and must be a trace of M1 (K1)"""
    import itertools
    quick = ctx.tier == 'quick'
    dags = runlib.small_dags(3, ('task_dep', 'setup'))
    outs = ['ok', 'failed'] if quick else ['ok', 'failed', 'error']
    cases = []
    for d in dags:
        n = len(d['tasks'])
        for combo in itertools.product(outs, repeat=n):
            if all(o == 'ok' for o in combo) and n == 3 and quick:
                continue
            ts = copy.deepcopy(d['tasks'])
            for t, o in zip(ts, combo):
                t['outcome'] = o
                if o == 'error':
                    t['how'] = 'raise'
            cases.append({'fam': 'A', 'tasks': ts, 'sel': None, 'cont': True, 'always': False, 'runner': 'serial', 'nproc': 0,
                          'explore': 2, 'variants': [], 'small_scope': True})
    total = len(cases)
    if quick and ctx.boost <= 1:
        rng = ctx.sub_rng('small-scope')
        small = [c for c in cases if len(c['tasks']) <= 2]
        big = [c for c in cases if len(c['tasks']) == 3]
        cases = small + rng.sample(big, min(30, len(big)))
    ctx.extra['exhaustive_small_scope'] = {'max_tasks': 3, 'labels': ['task_dep', 'setup'], 'outcomes': outs, 'cont': True,
                                           'workers': 2, 'schedules': 'every completion order under eager dispatch',
                                           'cases_total': total, 'cases_run': len(cases)}
    return cases


def plan(ctx, scale=1.0):
    quick = ctx.tier == 'quick'
    rng = ctx.rng
    b = ctx.boost * scale
    n_a_thr = int((130 if quick else 1200) * b)
    n_b_thr = int((60 if quick else 500) * b)
    n_a_proc = int((8 if quick else 80) * min(b, 2))
    n_b_proc = int((16 if quick else 160) * min(b, 2))
    pool = [(rng.randrange(1 << 60), 'A', ['thread', 'thread']) for _ in range(n_a_thr)] + \
           [(rng.randrange(1 << 60), 'B', ['thread']) for _ in range(n_b_thr)]
    rng.shuffle(pool)
    size = 6 if quick else 15
    pool_b = [{'groups': pool[i:i + size], 'shrink_s': 8.0} for i in range(0, len(pool), size)]
    main = [(rng.randrange(1 << 60), 'B', ['process', 'process']) for _ in range(n_b_proc)] + \
           [(rng.randrange(1 << 60), 'A', ['process']) for _ in range(n_a_proc)]
    msize = 3 if quick else 6
    main_b = [{'groups': main[i:i + msize], 'shrink_s': 8.0} for i in range(0, len(main), msize)]
    # scale (audit #20): quick = a small sample of 50-80 tasks, thorough = 50-300 tasks, -n 2..8
    n_s_thr = int((6 if quick else 40) * min(b, 2))
    n_s_proc = int((2 if quick else 16) * min(b, 2))
    rngs = (50, 150) if quick else (50, 300)
    s_thr = [(rng.randrange(1 << 60), 'S', ['thread']) for _ in range(n_s_thr)]
    s_proc = [(rng.randrange(1 << 60), 'S', ['process']) for _ in range(n_s_proc)]
    pool_b += [{'groups': s_thr[i:i + 2], 'shrink_s': 6.0, 'scale': rngs} for i in range(0, len(s_thr), 2)]
    main_b += [{'groups': s_proc[i:i + 2], 'shrink_s': 6.0, 'scale': rngs} for i in range(0, len(s_proc), 2)]
    n_data = int((300 if quick else 5000) * b)
    seeds = [rng.randrange(1 << 60) for _ in range(n_data)]
    data_b = [{'seeds': seeds[i:i + 150], 'failures': i == 0} for i in range(0, len(seeds), 150)]
    return pool_b, main_b, data_b


def corpus_batches():
    pool, main, data = [], [], []
    for name, c in common.load_corpus(PROP):
        c['corpus'] = name
        if 'data_case' in c:
            data.append(c['data_case'])
        elif any(v['runner'] == 'process' for v in c.get('variants', [])):
            main.append(c)
        else:
            pool.append(c)
    return ([{'cases': [c], 'shrink_s': 8.0} for c in pool], [{'cases': [c], 'shrink_s': 8.0} for c in main],
            [{'seeds': [], 'cases': data}] if data else [])


def run(ctx, scale=1.0):
    cpool, cmain, cdata = corpus_batches()
    ctx.count('corpus', sum(len(b['cases']) for b in cpool + cmain + cdata))
    pool, main, data = plan(ctx, scale)
    ex = exhaustive_cases(ctx)
    esize = 8 if ctx.tier == 'quick' else 12
    cpool = cpool + [{'cases': ex[i:i + esize], 'shrink_s': 5.0} for i in range(0, len(ex), esize)]
    deadline = time.time() + max(10.0, 0.75 * ctx.time_left())
    for b in pool + main:
        b['deadline'] = deadline
    for st in common.pmap(eval_data_batch, cdata + data):
        st.merge_into(ctx)
    for st in common.pmap(eval_batch, cpool + pool):
        st.merge_into(ctx)
    # process-mode runs fork real worker processes: not possible inside the (daemonic) pool workers
    for st in fork_map(eval_batch, cmain + main, procs=4):
        st.merge_into(ctx)
    ctx.extra['hypotheses'] = {'NoCalc+acyclic (static executable denotation denF / K2 / monC08Den)': ctx.dist.get('hyp_nocalc_acyclic:True', 0),
                               'not NoCalc+acyclic': ctx.dist.get('hyp_nocalc_acyclic:False', 0),
                               'determinedC, graph with calc_dep (denFC / K2c / monC08DenC)': ctx.dist.get('hyp_dyn_determined:calc:True', 0),
                               'determinedC, graph without calc_dep': ctx.dist.get('hyp_dyn_determined:nocalc:True', 0),
                               'not determinedC (cyclic / cut): K1 + P only': ctx.dist.get('hyp_dyn_determined:calc:False', 0) + ctx.dist.get('hyp_dyn_determined:nocalc:False', 0)}
    ctx.extra['partial_theorems'] = ['C08_confluence_partial (hypothesis NoCalc) is subsumed by the theorem C08_confluence '
                                     '(any graph, dynamic calc_dep edges); C08_den_computable / C08_monitors_hold (static '
                                     'denF, NoCalc + Acyclic) are complemented by C08_den_computable_dyn / '
                                     'C08_monitors_hold_dyn (denFC, any graph, decidable side condition determinedC)']


def search(ctx):
    ctx.rng.seed(ctx.seed * 1000003 + 7907)
    run(ctx, scale=2.0 if ctx.time_left() > 0.5 * (ctx.budget_s or 30) else 0.7)


def replay(ctx, data):
    w = data.get('witness') or {}
    common.use_repo()
    if 'failure_case' in w:
        import pickle
        fc = w['failure_case']
        ok = True
        for f in failure_objects():
            v = _fail_view(f)
            if [v['type'], v['report'], bool(v['traceback'])] != [fc['type'], fc['report'], fc['wrapped']]:
                continue
            after = _fail_view(pickle.loads(pickle.dumps({'failure': f}))['failure'])
            print('before the queue:', json.dumps(v, sort_keys=True)[:600])
            print('after the queue :', json.dumps(after, sort_keys=True)[:600])
            ok = ok and v == after
        print('failure details intact:', ok)
        return ok
    if 'data_case' in w:
        c = w['data_case']
        if c.get('job'):
            print('API-level job case (main -> worker process, JobTaskPickle):', json.dumps(c))
            a = common.drv_batch([dict(c, model='c08', op='job')])[0]
            try:
                got = job_impl(c)
            except Exception as ex:  # noqa
                got = {'exc': type(ex).__name__, 'msg': str(ex)[:200]}
            print('model (workerReceivesPickle):', json.dumps(a, sort_keys=True))
            print('implementation              :', json.dumps(got, sort_keys=True))
            bad = sorted(k for k in c['main']['task'] if (got.get('task') or {}).get(k) != a['task'].get(k))
            print('attributes that differ:', bad)
            ok = _job_intact_py(c, got)
            print('job_pickle_intact on the implementation:', ok)
            return ok and (not bad or data.get('failed') != 'correspondence')
        print('API-level data case:', json.dumps(c))
        a = common.drv_batch([dict(c, model='c08', op='data')])[0]
        try:
            got = data_impl(c)
        except Exception as ex:  # noqa
            got = {'exc': type(ex).__name__, 'msg': str(ex)[:200]}
        print('model (processResultData):', json.dumps(a, sort_keys=True))
        print('implementation           :', json.dumps(got, sort_keys=True))
        ok = _data_intact_py(c, got)
        print('data_intact on the implementation:', ok)
        same = ('error' not in a and got == {'shipped': sorted(a['shipped']), 'task': a['task'], 'acts': a['acts'],
                                             'base_fail': a['base_fail']})
        return ok and (same or data.get('failed') != 'correspondence')
    case = w.get('case')
    if not case:
        print('nothing to replay (no failing input was found): %s' % data.get('note'))
        for r in data.get('no_longer_checks', [])[:5]:
            print(' -', r.get('kind'), ':', str(r.get('note'))[:400])
        return False
    var = w.get('variant')
    if var is None:
        # a divergence witness: one run against the model
        c = dict(case)
        if c.get('fam', 'A') == 'A':
            c['model'] = runlib.expand(c)
        print(render(c))
        o = run_one(c)
        s = summary(c, o)
        print('exit=%s err=%s reports=%s' % (o['exit'], o['err'], s['reports']))
        ans = common.drv_batch([den_request(c, [(o, s)])])[0]
        print('denotation:', ans.get('den'), 'closure', ans.get('closure'), 'exit', ans.get('exit'), 'mon_den', ans.get('mon_den'))
        print('denotation (dynamic calc_dep edges):', ans.get('den_c'), 'closure', ans.get('closure_c'), 'exit', ans.get('exit_c'),
              'determined', ans.get('determined_c'), 'mon_den_c', ans.get('mon_den_c'))
        ok = True
        if ans.get('nocalc') and ans.get('determined') and o['err'] is None:
            ok = bool(ans['mon_den'][0])
        if ans.get('determined_c') and o['err'] is None:
            ok = ok and bool(ans['mon_den_c'][0])
        if c.get('fam', 'A') == 'A':
            a = runlib.ask_model([(c, o)])[0]
            print('M1 accepts the trace:', a.get('accepted'), a.get('error', ''))
            if 'error' not in a and not a.get('skipped') and not a.get('accepted'):
                ok = False
        return ok
    base = variant(case, 'serial', 0)
    v = variant(case, var['runner'], var['nproc'], var.get('policy'), var.get('schedule'))
    if case.get('fam', 'A') == 'A':
        base['model'] = runlib.expand(base)
        v['model'] = runlib.expand(v)
    print(render(base))
    print('variant: runner=%s nproc=%s policy=%s schedule=%s' % (var['runner'], var['nproc'], var.get('policy'), var.get('schedule')))
    ro = run_one(base)
    r = summary(base, ro)
    vo = run_one(v)
    s = summary(v, vo)
    names = _names(case)

    def nm(k):
        return names[int(k)] if str(k).isdigit() and int(k) < len(names) else k
    print('serial  : exit=%s err=%s complete=%s reports=%s' % (r['exit'], r['err'], r['complete'],
                                                            {nm(k): x for k, x in r['reports'].items()}))
    print('parallel: exit=%s err=%s reports=%s' % (s['exit'], s['err'], {nm(k): x for k, x in s['reports'].items()}))
    if vo.get('stderr'):
        print('parallel stderr:', vo['stderr'][-400:])
    if not r['complete']:
        print('the serial reference run is cut short by a failure: nothing to compare')
        return True
    d = diff_summaries(r, s)
    for part, k, a, b, _leaves in d[:20]:
        print('DIFF %-8s %-12s serial=%s' % (part, nm(k) if k is not None else '', json.dumps(a, sort_keys=True)[:400]))
        print('     %-8s %-12s %-6s=%s' % ('', '', var['runner'], json.dumps(b, sort_keys=True)[:400]))
    if not d:
        print('serial and %s run agree on outcomes, exit code, data, DB dump and files' % var['runner'])
    return not d




SIGNATURES['premature-status-delayed-group'] = sig_premature_group_status
