"""C17 -- action outcomes are classified exactly and output is captured intact   (model M5, DESIGN §5 C17)

(T) lean/DoitModel/Props/C17.lean: classify_py, py_exec, tools_actions, classify_cmd (+_status, _signal), cmd_exec, task_execute,
    teardown_execute, task_values_lookup, classification_verbosity_independent, writer_interface, restore_nested (+_any, restore_exec, forest_well_nested), restore_nested_live (the machine
    with the Writer's live copy, + forest_well_nested_live), live_rule; counterexamples
    overlap_counterexample(_min) (F-C17a, open) and pinned_kwargs_counterexample (F-C17b, fixed);
    io.capture as a mode of the stream machine (Model/Act.lean `Mode`, Proofs/ActMode.lean): restore_forest_mode,
    restore_exec_nocapture, nocapture_passthrough(_init), captured_intact_mode, mode_extends_fwd, capture_mode_independent_classification,
    nocapture_overlap_harmless, save_out_independent_of_capture_partial (+ _refuted: the full statement is false of the code), live_rule_nocapture.
(K) the real PythonAction / CmdAction / Task.execute of $VERIF_REPO are run on generated cases (harness/actlib.py)
    and every observable is compared with the Lean model through doitdrv.
(P) the statement: classification by category, task stops at the first unsuccessful action and result/values
    come from the successful ones, captured text == written text (complete, in order) whatever the verbosity,
    live text == what the verbosity dictates, sys.stdout/sys.stderr are the installed objects again afterwards.
    The classification / task / capture clauses are evaluated by the Lean functions the theorems are about
    (the driver's answer to the *category* of the input); identity and text equality are Python predicates.
"""
import copy
import itertools
import json
import os
import random

import common
from common import WorkerStats, canon
import actlib
import actrun

META = {
    'property': 'C17',
    'lean_props': ['DoitModel.Props.C17'],
    'level': 'proof',
    'budget': {'quick': 30, 'thorough': 400},
    'anchors': ['doit/action.py::BaseAction._prepare_kwargs', 'doit/action.py::CmdAction.execute',
                'doit/action.py::CmdAction._print_process_output', 'doit/action.py::CmdAction.expand_action',
                'doit/action.py::CmdAction.action', 'doit/action.py::Writer', 'doit/action.py::PythonAction.execute',
                'doit/action.py::PythonAction._prepare_kwargs', 'doit/action.py::create_action',
                'doit/task.py::Task.execute', 'doit/task.py::Task.execute_teardown', 'doit/task.py::Stream', 'doit/task.py::IOConfig',
                'doit/exceptions.py::BaseFail', 'doit/exceptions.py::TaskFailed', 'doit/exceptions.py::TaskError',
                'doit/runner.py::Runner.execute_task', 'doit/runner.py::MRunner.execute_task_subprocess',
                'doit/reporter.py::JsonReporter.complete_run', 'doit/reporter.py::JsonReporter.__init__'],
    'technique': 'Lean 4 proofs over an executable model of PythonAction/CmdAction/Task.execute and of the '
                 'process-wide stdout cell (induction over well-nested step lists) + differential correspondence '
                 'against the real classes, incl. forced thread interleavings',
    'design_ref': '§5 C17, §4 M5',
    'level_text': 'Machine-checked: classification of every return category / return code (all of Int), the closed '
                  'form of the Task.execute loop for every action list, and -- by induction over well-nested step '
                  'lists of any depth and length -- that nested or disjoint python-action executions leave the '
                  'stdout cell holding the original stream and give every action exactly its own writes in order, '
                  'also with the live copy of Writer (forwarding into the enclosing action and the original stream), and '
                  'with io.capture off as a second swap discipline mixed into the nesting (cell restored from any state, '
                  'every write of a capture-off execution on the original stream in order exactly once at every verbosity). '
                  'Overlapping executions (threads) provably break this (decide-checked counterexample = the open '
                  'finding F-C17a).  The model is tied to doit/action.py and doit/task.py on every run by executing '
                  'the real classes on generated return values, exit statuses 0..255, signals, byte outputs, '
                  'verbosities, io.capture settings, multi-action tasks, nested executions and forced thread '
                  'interleavings, and diffing every observable against the Lean functions.',
    'level_note': 'Trusted: Lean kernel (axioms propext/Classical.choice/Quot.sound only); the Python harness and '
                  'doitdrv; subprocess/pipes/reader threads and bytes.decode are exercised, not modelled. '
                  'Statement-silent behaviour is modelled as the code has it and said so in the theorems: a '
                  'BaseException leaves execute() unclassified, a returned TaskError instance is an error, a process '
                  'killed by a signal is `failed`.  Monitor: classification/task/capture clauses via the Lean '
                  'functions, stream identity and text equality as Python predicates.',
    'rule': 'py: category x representative x io.capture x verbosity x writes x kwargs-raise x callable-swaps-stream x '
            'stream methods other than write (print, flush, isatty, fileno, writelines, .buffer.write, .encoding, .errors, '
            'reconfigure; such a case is also run at verbosity 0, 1 and 2: same outcome, shown live is captured); '
            'cmd (also doit.tools LongRunning / Interactive, interrupted or not; PythonInteractiveAction for py; CmdAction '
            'encoding / decode_error / env= / cwd= / command builders returning str or list or taking magic kwargs and a '
            'task parameter / action_string_formatting old, new, both with literal % and braces): '
            'exit 0..255 / signal / child signal x byte chunks (non-UTF-8, no trailing newline, up to 256 KiB, '
            'interleaved) x capture True/False/None x verbosity x save_out x expansion errors; task: 1..5 mixed '
            'actions, unsuccessful action in every position; nested: random forests of executions (depth<=4) with '
            'per-action verbosity and ending; overlap: 2-3 threads, forced interleavings of start/write/end; runner: whole '
            '`doit run`s (serial / process / thread runner; independent, chained or forced-to-overlap tasks) observed '
            'through a reporter class or through `-r json` (incl. runs aborted mid-task and an unwritable report), with '
            'io.capture False/None and task-level verbosity per task, cmd-actions with save_out and dict values crossing '
            'the process boundary; built-in console reporter (titles, failure_verbosity 0/1/2; monitors only). '
            'non-trivial = produces output or a non-ok outcome or >1 action; distinct = canonical JSON of the case',
    'assumptions': ['CmdAction: encodings utf-8 / latin-1 / utf-16 (with BOM) / utf-16-le, decode_error replace / ignore / '
                    'strict; when the codec raises (strict on undecodable bytes) the reader thread terminates the process: '
                    'that path is monitors-only (counter cmd.monitors_only:decode-error-path)',
                    'io.capture False/None is documented as "not captured": the capture clause is read for capture on',
                    'one stream machine per channel: stdout and stderr cells are independent'],
    'trusted': ['subprocess, pipes, reader threads, bytes.decode: exercised through the real CmdAction, not modelled',
                'forced thread schedules use the callable boundary (start/write/end), finer bytecode interleavings of '
                'save/set are covered by the model only'],
    'models': ['M5'],
}


def sig_overlap(w):
    """F-C17a: python-actions with capture on, executions overlapping in *different threads* of one process,
    the only failures are the ones the stream machine predicts for that interleaving (stale writer left in
    sys.stdout/sys.stderr, writes attributed to the other action or leaked to the original stream)"""
    c = w.get('case') or {}
    if c.get('kind') == 'runner':
        # the same finding on the real MThreadRunner: two tasks made to overlap in two worker threads
        if not (c.get('par') == 'thread' and c.get('mode') == 'forced' and c.get('n', 0) >= 2):
            return False
    elif c.get('kind') != 'overlap' or len(c.get('threads', [])) < 2:
        return False
    elif not actlib.overlapping_pairs(c):
        return False
    if w.get('impl_equals_model') is not True:
        return False
    keys = set(w.get('failed_keys') or [])
    return bool(keys) and keys <= {'cell-not-restored', 'misattributed', 'leak-to-original'}


SIGNATURES = {'stdout-overlap-threads': sig_overlap}



def cap_class(c):
    """`if capture_io:` / `capture_io is False` / anything else falsy"""
    if c is False:
        return 'no'
    return 'yes' if c else 'devnull'



# ----------------------------------------------------------------------------------------------
# model requests

def ret_json(ret):
    cat = ret['cat']
    j = {'kind': cat}
    if cat == 'str':
        j['s'] = ret['s']
    if cat == 'dict':
        j['d'] = ret['d']
    return j


def py_req(a, capture=True):
    # the recorders have no file descriptor: liveFd = false
    return {'model': 'act', 'op': 'py', 'kwargsRaise': bool(a.get('kwargs_raise')), 'ret': ret_json(a['ret']),
            'ops': [actlib.op_kind(w) for w in a.get('writes', [])], 'capture': bool(capture), 'liveFd': False,
            'interactive': a.get('cls') == 'interactive'}


def cmd_req(a, cap):
    expand = a.get('expand', 'ok') != 'ok'
    out, err = ('', '') if expand else actlib.expected_streams(a)
    if a.get('cls', 'CmdAction') != 'CmdAction':
        return {'model': 'act', 'op': 'tool', 'cls': a['cls'], 'expandRaises': expand,
                'interrupt': bool(a.get('interrupt')), 'rc': actlib.expected_rc(a)}
    return {'model': 'act', 'op': 'cmd', 'expandRaises': expand, 'cap': cap_class(cap),
            'saveOut': a.get('save_out'), 'rc': actlib.expected_rc(a), 'out': out, 'err': err}


def requests_for(case):
    k = case['kind']
    if k == 'py':
        cap = case.get('capture', True)
        if case.get('cls') == 'interactive':
            cap = False
        return [py_req(case, cap), {'model': 'act', 'op': 'route', 'v': case.get('v'), 'kind': 'py',
                               'cap': cap_class(cap)}]
    if k == 'cmd':
        cap = case.get('capture', True)
        if case.get('cls', 'CmdAction') != 'CmdAction':
            cap = False          # the tools classes hand the live streams to Popen whatever io.capture says
        return [cmd_req(case, cap), {'model': 'act', 'op': 'route', 'v': case.get('v'), 'kind': 'cmd',
                                     'cap': cap_class(cap)}]
    if k == 'task':
        cap = case.get('capture', True)
        acts = [py_req(a, cap) if a['t'] == 'py' else cmd_req(a, cap) for a in case['actions']]
        return [{'model': 'act', 'op': 'task', 'actions': acts}]
    if k == 'nested':
        return [{'model': 'act', 'op': 'stream', 'forest': case['forest']},
                {'model': 'act', 'op': 'streamfwd', 'forest': fwd_forest(case, 'o')},
                {'model': 'act', 'op': 'streamfwd', 'forest': fwd_forest(case, 'e')}]
    if k == 'ncnest':
        return [{'model': 'act', 'op': 'streammode', 'forest': mode_forest(case, 'o')},
                {'model': 'act', 'op': 'streammode', 'forest': mode_forest(case, 'e')}]
    if k == 'overlap':
        return [{'model': 'act', 'op': 'stream', 'evs': actlib.overlap_evs(case)}]
    if k == 'ncoverlap':
        return [{'model': 'act', 'op': 'streammode', 'evs': actlib.overlap_mode_evs(case, 'o')},
                {'model': 'act', 'op': 'streammode', 'evs': actlib.overlap_mode_evs(case, 'e')}]
    raise ValueError(k)


def judge_runner(case, obs, m, extra=None):
    bad = []

    def cmp(key, level, got, want):
        if got != want:
            bad.append((key, level, 'observed %s, expected %s' % (clip(got), clip(want))))
    if 'error' in m:
        return [('driver-error', 'K', clip(m))]
    for pr in obs['problems']:
        bad.append(('schedule-not-followed', 'K', pr))
    interrupted = (case.get('abort') == 'interrupt' and (obs['raised'] or '').startswith('KeyboardInterrupt'))
    if obs['raised'] and not interrupted:
        bad.append(('impl-exception', 'K', obs['raised']))
    if obs['runtime_errors']:
        bad.append(('runtime-error', 'K', clip(obs['runtime_errors'])))
    if case.get('reporter') == 'json':
        # `-r json`: whatever the end of the run (report written, run aborted mid-task, report not writable) the
        # process-wide streams are the installed objects again when DoitMain.run returns
        cmp('cell-not-restored', 'P', obs['restored'], [True, True])
        if case.get('abort'):
            # InvalidTask at execution time is a *reported* runtime error: the run ends with the error exit code (2) and
            # the JSON document is still written (/repo 28cc2d9; before that fix complete_run raised TypeError for the
            # announced task without result and the exit code was 3).  KeyboardInterrupt / unwritable report: exit 3.
            # A KeyboardInterrupt raised by an action leaves DoitMain.run as it does with every other reporter (before
            # the fix the TypeError of complete_run replaced it).
            want = 2 if case.get('abort') == 'kwargs' else 3
            if case.get('abort') == 'devfull' and not os.path.exists('/dev/full'):
                want = 2          # actrun falls back to the `kwargs` form
            if not interrupted:
                cmp('abort-exit-code', 'K', obs['code'], want)
            return bad
        cmp('json-document', 'K', obs['json_document'], True)
        for name in ('out', 'err'):
            for a, spec in m['spec'].items():
                cmp('misattributed', 'P', obs[name].get(a), spec)
            cmp('misattributed', 'P', [k for k in obs[name] if k.startswith('foreign')], [])
        return bad
    if case.get('reporter') == 'console':
        return bad + judge_console(case, obs)
    cmp('tasks-reported', 'K', sorted(obs['reported']), sorted(str(i) for i in range(len(case['tasks']))))
    model_restored = (m['cell'] == 'orig')
    cmp('cell-model', 'K', obs['restored'], [model_restored, model_restored])
    cmp('cell-not-restored', 'P', obs['restored'], [True, True])
    ids = actrun.action_ids(case)
    forced = case['mode'] == 'forced'
    for name in ('out', 'err'):
        for a, spec in m['spec'].items():
            cmp('model-out', 'K', obs[name].get(a), m['out'].get(a))
            cmp('misattributed', 'P', obs[name].get(a), spec)
    shown = {'O': [], 'E': []}
    for ti in obs['order']:
        for ai in actrun.ran_actions(case, ti):
            eo, ee, so, se = actrun.expected_action(case, ti, ai)
            a = str(ids[(ti, ai)])
            if a not in m['spec']:       # cmd-actions and uncaptured python-actions: not in the stream machine
                cmp('captured-out', 'P' if eo is not None else 'K', obs['out'].get(a), eo)
                cmp('captured-err', 'P' if ee is not None else 'K', obs['err'].get(a), ee)
            shown['O'] += so
            shown['E'] += se
    if forced:
        for live in ('O', 'E'):
            cmp('model-orig', 'K', obs[live], m['origLog'])
            cmp('leak-to-original', 'P', obs[live], [])
    elif case['par'] != 'process':
        # shown live only as the (task's) verbosity and io.capture dictate
        cmp('live-run', 'P', obs['O'], shown['O'])
        cmp('live-run', 'P', obs['E'], shown['E'])
    # task.values as the reporter (parent process) sees them for successful tasks: the Lean task loop
    for ti, mt in (extra or {}).items():
        if obs['reported'].get(str(ti)) == 'success':
            cmp('task-values', 'P', obs.get('values', {}).get('t%d' % ti), mt['values'])
    return bad


def runner_task_requests(case):
    """one `task` request per task: what Task.execute leaves in task.values / task.result"""
    ids = actrun.action_ids(case)
    reqs = {}
    for ti, t in enumerate(case['tasks']):
        acts = []
        cap = t.get('capture', True)
        for ai, spec in enumerate(t['actions']):
            a = ids[(ti, ai)]
            n = spec.get('writes', 0)
            if spec.get('cmd'):
                acts.append({'model': 'act', 'op': 'cmd', 'expandRaises': False, 'cap': cap_class(cap),
                             'saveOut': spec.get('save_out'), 'rc': 0 if spec.get('end', 'true') == 'true' else 3,
                             'out': actrun.tok_text(a, n, 'o'), 'err': actrun.tok_text(a, n, 'e')})
            else:
                e = spec.get('end', 'true')
                ret = {'true': {'kind': 'true'}, 'false': {'kind': 'false'}, 'raise': {'kind': 'raises'},
                       'str': {'kind': 'str', 's': 'res%d' % a},
                       'dict': {'kind': 'dict', 'd': [[spec.get('key', 0), a]]}}[e]
                acts.append({'model': 'act', 'op': 'py', 'kwargsRaise': False, 'ret': ret})
        reqs[ti] = {'model': 'act', 'op': 'task', 'actions': acts}
    return reqs


def judge_console(case, obs):
    """built-in console reporter (monitors only): the title of every executed task, and for every failed task the
    captured stdout/stderr printed intact when ConsoleReporter.complete_run shows them"""
    bad = []
    rep = obs.get('report')
    if obs.get('raised') or rep is None:
        return [('impl-exception', 'K', str(obs.get('raised') or 'no report written'))]
    ids = actrun.action_ids(case)
    fv = case.get('fv', 0)
    for ti, t in enumerate(case['tasks']):
        name = 't%d' % ti
        if t.get('title') == 'custom':
            title = 'T<%s>' % name
        elif t.get('title') == 'with_actions':
            title = '%s => %s' % (name, '\n\t'.join('Cmd: ' + actrun.cmd_script_of(ids[(ti, ai)], sp).replace('%', '%%')
                                                    for ai, sp in enumerate(t['actions'])))
        else:
            title = name
        if ('.  %s\n' % title) not in rep:
            bad.append(('title', 'P', 'no line %r in the report' % ('.  ' + title)))
        ran = actrun.ran_actions(case, ti)
        failed = t['actions'][ran[-1]].get('end', 'true') in ('false', 'raise')
        if not failed:
            continue
        tv = actrun.task_verbosity(case, ti)
        out = ''.join(actrun.tok_text(ids[(ti, ai)], t['actions'][ai].get('writes', 0), 'o') for ai in ran)
        err = ''.join(actrun.tok_text(ids[(ti, ai)], t['actions'][ai].get('writes', 0), 'e') for ai in ran)
        for sect, text, show in (('stderr', err, tv < 1 or fv > 0), ('stdout', out, tv < 2 or fv == 2)):
            want = '%s <%s>:\n%s\n' % (name, sect, text)
            if show and want not in rep:
                bad.append(('failure-report-' + sect, 'P', 'captured %s of %s not printed intact: expected %r'
                            % (sect, name, want)))
            if not show and ('%s <%s>:' % (name, sect)) in rep:
                bad.append(('failure-report-' + sect, 'K', 'section printed although failure_verbosity=%s, verbosity=%s'
                            % (fv, tv)))
    cmp_restored = obs['restored'] != [True, True]
    if cmp_restored:
        bad.append(('cell-not-restored', 'P', 'observed %s' % obs['restored']))
    return bad


def evaluate_runner(case, drv):
    try:
        obs = actrun.run_runner(case)
    except actlib.Hang as ex:
        return {'hang': str(ex)}, [], [('hang', 'P', str(ex))]
    m = drv.ask({'model': 'act', 'op': 'stream', 'evs': actrun.runner_evs(case, obs['order'])})
    extra = None
    if not case.get('reporter'):
        extra = {ti: drv.ask(r) for ti, r in runner_task_requests(case).items()}
    return obs, [m] + [extra[k] for k in sorted(extra or {})], judge_runner(case, obs, m, extra)


def fwd_forest(case, chan):
    """the forest with the per-execution flag "a live stream is handed over on this channel" (verbosity)"""
    verb = {int(k): v for k, v in case.get('verb', {}).items()}

    def on(a):
        v = verb.get(a, 0)
        return (v not in (0, 1)) if chan == 'o' else (v != 0)

    def conv(items):
        out = []
        for it in items:
            if it[0] == 'x':
                out.append(['x', it[1], on(it[1]), conv(it[2])])
            else:
                out.append(it)
        return out
    return conv(case['forest'])


def mode_forest(case, chan):
    """the forest with, per execution, "a live stream is handed over on this channel" and its io.capture mode"""
    verb = {int(k): v for k, v in case.get('verb', {}).items()}
    capm = {int(k): v for k, v in case.get('cap', {}).items()}

    def on(a):
        v = verb.get(a, 0)
        return (v not in (0, 1)) if chan == 'o' else (v != 0)

    def conv(items):
        out = []
        for it in items:
            if it[0] == 'x':
                out.append(['x', it[1], on(it[1]), bool(capm.get(it[1], True)), conv(it[2])])
            else:
                out.append(it)
        return out
    return conv(case['forest'])


def ncnest_expect(case):
    """(P) the statement side, computed from the case alone: what every capturing action's buffer and the original
    stream of a channel must hold.  A token goes into the buffer of its author if that captures, and on to the
    enclosing execution iff the author passes text on: capture off (always, whatever the verbosity), or capture on
    and live on that channel; and so on up to the original stream."""
    verb = {int(k): v for k, v in case.get('verb', {}).items()}
    capm = {int(k): v for k, v in case.get('cap', {}).items()}
    acts = actlib.forest_actions(case['forest'])
    bufs = {c: {str(a): [] for a in acts if not acts[a]['kw'] and capm.get(a, True)} for c in 'oe'}
    orig = {'o': [], 'e': []}

    def live(a, chan):
        v = verb.get(a, 0)
        return (v not in (0, 1)) if chan == 'o' else (v != 0)

    def walk(items, owner):
        for it in items:
            if it[0] == 'w' and owner is not None:
                for chan in 'oe':
                    x = owner
                    while True:
                        if capm.get(x, True):
                            bufs[chan][str(x)].append([owner, it[1]])
                            if not live(x, chan):
                                break
                        x = acts[x]['parent']
                        if x is None:
                            orig[chan].append([owner, it[1]])
                            break
            elif it[0] == 'x':
                walk(it[2], it[1])
    walk(case['forest'], None)
    return bufs, orig


RUNNERS = {'py': actlib.run_py, 'cmd': actlib.run_cmd, 'task': actlib.run_task, 'nested': actlib.run_nested,
           'ncnest': actlib.run_nested, 'ncoverlap': actlib.run_overlap, 'overlap': actlib.run_overlap}


# ----------------------------------------------------------------------------------------------
# judging one case: list of (key, 'P'|'K', detail)

def clip(x, n=160):
    s = x if isinstance(x, str) else json.dumps(x, default=str)
    return s if len(s) <= n else s[:n] + '...(%d chars)' % len(s)


def judge(case, obs, model):
    k = case['kind']
    bad = []

    def cmp(key, level, got, want):
        if got != want:
            bad.append((key, level, 'observed %s, expected %s' % (clip(got), clip(want))))

    if any('error' in m for m in model):
        bad.append(('driver-error', 'K', clip(model)))
        return bad
    if k in ('py', 'cmd'):
        m, route = model
        tool = case.get('cls') not in (None, 'CmdAction')
        if k == 'cmd' and not tool and case.get('expand', 'ok') == 'ok' and route['out']['captured'] \
                and any(actlib.strict_error(case)):
            # the codec raises in a reader thread (decode_error='strict' on undecodable bytes, utf-16 without BOM):
            # the thread terminates the process and dies.  Outcome and the other stream depend on a race with the
            # process's own exit: monitors only -- the text decoded before the error stays captured, the other
            # stream is a prefix of its text, nothing escapes execute(), the streams are restored.
            raised = actlib.strict_error(case)
            for name, data, r in zip(('out', 'err'), actlib.stream_bytes(case), raised):
                want = actlib.simulate_decode(case, data)[0]
                if route[name]['captured']:
                    if r and sum(raised) == 1:
                        cmp('captured-' + name, 'P', obs[name], want)
                    else:
                        # this stream may have been cut short by the other reader terminating the process
                        full = data.decode(actlib.py_codec(case)[0], 'replace')
                        if not (isinstance(obs[name], str) and (want.startswith(obs[name]) or full.startswith(obs[name]))):
                            bad.append(('captured-' + name, 'P', 'observed %s is not a prefix of %s'
                                        % (clip(obs[name]), clip(full))))
            if obs['outcome'] not in ('ok', 'failed', 'error'):
                bad.append(('outcome', 'K', 'decode error path: observed %s' % obs['outcome']))
            cmp('cell-not-restored', 'P', obs['restored'], [True, True])
            return bad
        silent = (k == 'py' and (case['ret']['cat'] == 'raisesbase' or case.get('kwargs_raise'))) or \
                 (k == 'cmd' and not tool and (case.get('expand', 'ok') != 'ok' or actlib.expected_rc(case) < 0)) or \
                 (tool and (case.get('expand', 'ok') != 'ok' or case.get('interrupt')))
        if k == 'cmd' and not tool and actlib.expected_rc(case) < 0 and obs['outcome'] == 'ok':
            bad.append(('outcome', 'P', 'a process killed by a signal is reported successful'))
        cmp('outcome', 'K' if silent else 'P', obs['outcome'], m['outcome'])
        cmp('result', 'P', obs['result'], m['result'])
        cmp('values', 'P', obs['values'], m['values'])
        none_ran = bool(case.get('kwargs_raise')) if k == 'py' else case.get('expand', 'ok') != 'ok'
        if k == 'py':
            # the operations the model says complete and produce text (a raising operation ends the body)
            done = list(zip(case.get('writes', []), m.get('body', {}).get('text', [])))
            tout = ''.join(w[1] for w, txt in done if txt and w[0] == 'o')
            terr = ''.join(w[1] for w, txt in done if txt and w[0] == 'e')
        elif not route['out']['captured']:
            # not captured: doit does not decode anything, the bytes go to the live stream / descriptor as they are
            tout, terr = [d.decode('utf-8', 'replace') for d in actlib.stream_bytes(case)]
        else:
            tout, terr = actlib.expected_streams(case)
            enc, derr = actlib.py_codec(case)
            for data, text in zip(actlib.stream_bytes(case), (tout, terr)):
                # the statement: the decoding of the whole byte stream
                try:
                    whole = data.decode(enc, derr)
                except UnicodeError:
                    continue          # (command never built: nothing is decoded)
                if whole != text:
                    bad.append(('codec-incremental-differs', 'K', 'whole %s vs incremental %s' % (clip(whole), clip(text))))
        if none_ran:
            tout = terr = ''
        capture_on = route['out']['captured']
        lvl = 'P' if capture_on else 'K'
        for chan, text, name, live_name, fd in (('out', tout, 'out', 'O', 'fd1'), ('err', terr, 'err', 'E', 'fd2')):
            r = route[chan]
            want_cap = text if (r['captured'] and not none_ran) else None
            cmp('captured-' + name, lvl, obs[name], want_cap)
            cmp('live-' + name, lvl, obs[live_name], text if r['shown'] else '')
            if k == 'cmd':
                cmp('inherited-' + name, 'K', obs[fd], text if r['inherited'] else '')
        cmp('cell-not-restored', 'P', obs['restored'], [True, True])
        if obs.get('by_v'):
            outs = sorted(set(o['outcome'] for o in obs['by_v'].values()))
            if len(outs) > 1:
                bad.append(('verbosity-dependent-outcome', 'P',
                            'outcome by verbosity %s' % {v: o['outcome'] for v, o in sorted(obs['by_v'].items())}))
            if capture_on:
                for v, o in sorted(obs['by_v'].items()):
                    for live, cap in (('O', 'out'), ('E', 'err')):
                        if o[live] not in ('', o[cap]):
                            bad.append(('shown-not-captured', 'P', 'verbosity %s: shown live %s, captured %s'
                                        % (v, clip(o[live]), clip(o[cap]))))
    elif k == 'task':
        m = model[0]
        if case.get('teardown'):
            # execute_teardown: same stopping rule, task.result / task.values stay untouched
            m = dict(m, outcome=m['teardown']['outcome'], ran=m['teardown']['ran'], result=None, values=[])
        cmp('task-outcome', 'K' if m['outcome'] == 'raised' else 'P', obs['outcome'], m['outcome'])
        cmp('task-ran', 'P', obs['ran'], list(range(m['ran'])))
        cmp('task-result', 'P', obs['result'], m['result'])
        cmp('task-values', 'P', obs['values'], m['values'])
        for i in obs['ran']:
            if i < len(m['ares']):
                cmp('action-result', 'P', obs['ares'][i]['result'], m['ares'][i]['result'])
                cmp('action-values', 'P', obs['ares'][i]['values'], m['ares'][i]['values'])
        cmp('cell-not-restored', 'P', obs['restored'], [True, True])
    elif k == 'nested':
        m = model[0]
        if obs.get('harness_exc'):
            bad.append(('escaped-exception', 'K', obs['harness_exc']))
        if not m['nodup']:
            bad.append(('bad-case', 'K', 'action ids not distinct'))
        cmp('cell-not-restored', 'P', obs['restored'], [True, True])
        for rec in obs['after_each_top']:
            cmp('cell-not-restored', 'P', rec[1:], [True, True])
        cmp('cell-model', 'K', m['cell'], 'orig')
        fwd, orig = actlib.predicted_forwarding(case)
        for chan, name, mf in (('o', 'out', model[1]), ('e', 'err', model[2])):
            # (K) the machine with the live copy: every buffer and the original stream, token for token
            cmp('fwd-cell', 'K', mf['cell'], 'orig')
            for a, mo in mf['out'].items():
                cmp('fwd-model-out', 'K', obs[name].get(a), mo)
            cmp('fwd-model-orig', 'K', obs['O' if chan == 'o' else 'E'], mf['origLog'])
        for chan, name in (('o', 'out'), ('e', 'err')):
            for a, spec in m['spec'].items():
                got = obs[name].get(a)
                mo = m['out'].get(a)
                own = None if got is None else [t for t in got if str(t[0]) == a]
                cmp('model-out', 'K', own, mo)
                if mo is not None:
                    cmp('misattributed', 'P', own, spec)
                    cmp('forwarded', 'P', got, fwd[chan].get(a))
            cmp('live-nested', 'P', obs['O' if chan == 'o' else 'E'], orig[chan])
    elif k == 'ncnest':
        capm = {int(a): v for a, v in case.get('cap', {}).items()}
        if obs.get('harness_exc'):
            bad.append(('escaped-exception', 'K', obs['harness_exc']))
        if not model[0]['nodup']:
            bad.append(('bad-case', 'K', 'action ids not distinct'))
        # (P) restore_exec_nocapture / restore_forest_mode: the installed objects are back, after every top-level execution
        cmp('cell-not-restored', 'P', obs['restored'], [True, True])
        for rec in obs['after_each_top']:
            cmp('cell-not-restored', 'P', rec[1:], [True, True])
        bufs, want = ncnest_expect(case)
        for a, e in (obs.get('escaped') or {}).items():
            if a in case['cap']:
                ok = [None, 'KeyboardInterrupt'] if case['ending'].get(a) == 'base' else [None]
                if actlib.forest_actions(case['forest'])[int(a)]['kw']:
                    ok = ['InvalidTask']
                if e not in ok:
                    bad.append(('escaped-exception', 'P', 'action %s: %s left Task.execute' % (a, e)))
        for chan, name, mf in (('o', 'out', model[0]), ('e', 'err', model[1])):
            live = obs['O' if chan == 'o' else 'E']
            cmp('mode-cell', 'K', mf['cell'], 'orig')
            cmp('mode-unbound', 'K', mf['unbound'], False)
            for a, mo in mf['out'].items():
                got = obs[name].get(a)
                cmp('mode-model-out', 'K', got, mo)                       # token for token; None when capture is off
                if not capm.get(int(a), True):
                    cmp('nocapture-stored', 'P', got, None)                # nothing captured when capture is off
                else:
                    cmp('misattributed', 'P', None if got is None else [t for t in got if str(t[0]) == a], mf['spec'][a])
                    cmp('forwarded', 'P', got, bufs[chan].get(a))
            cmp('mode-model-orig', 'K', live, mf['origLog'])
            # (P) nocapture_passthrough: in order, exactly once, whatever the verbosity of the capture-off executions
            cmp('nocapture-passthrough', 'P', live, want[chan])
    elif k == 'ncoverlap':
        if obs.get('problem'):
            bad.append(('schedule-not-followed', 'K', obs['problem']))
        written = [[st[1], st[2]] for st in case['schedule'] if st[0] == 'w']
        # (P) nocapture_overlap_harmless: whatever the interleaving of the threads
        cmp('cell-not-restored', 'P', obs['restored'], [True, True])
        for (name, live), mf in zip((('out', 'O'), ('err', 'E')), model):
            if not mf.get('ncOnly'):
                bad.append(('bad-case', 'K', 'not a capture-off schedule'))
            cmp('mode-cell', 'K', [mf['cell'] == 'orig'] * 2, obs['restored'])
            cmp('mode-model-orig', 'K', obs[live], mf['origLog'])
            cmp('nocapture-passthrough', 'P', obs[live], written)
            for a in mf['out']:
                cmp('mode-model-out', 'K', obs[name].get(a), mf['out'][a])
                cmp('nocapture-stored', 'P', obs[name].get(a), None)
    elif k == 'overlap':
        m = model[0]
        if obs.get('problem'):
            bad.append(('schedule-not-followed', 'K', obs['problem']))
        if not m['progOrder'] or not m['nodup']:
            bad.append(('bad-case', 'K', 'schedule is not a legal interleaving'))
        model_restored = (m['cell'] == 'orig')
        cmp('cell-model', 'K', obs['restored'], [model_restored, model_restored])
        cmp('cell-not-restored', 'P', obs['restored'], [True, True])
        for name, live in (('out', 'O'), ('err', 'E')):
            for a, spec in m['spec'].items():
                cmp('model-out', 'K', obs[name].get(a), m['out'].get(a))
                cmp('misattributed', 'P', obs[name].get(a), spec)
            cmp('model-orig', 'K', obs[live], m['origLog'])
            cmp('leak-to-original', 'P', obs[live], [])
    return bad


def evaluate(case, drv=None):
    """(obs, model answers, problems)"""
    if case['kind'] == 'runner':
        if drv is not None:
            return evaluate_runner(case, drv)
        with common.LeanDriver() as d:
            return evaluate_runner(case, d)
    reqs = requests_for(case)
    if drv is not None:
        model = [drv.ask(r) for r in reqs]
    else:
        model = common.drv_batch(reqs)
    try:
        obs = RUNNERS[case['kind']](case)
    except actlib.Hang as ex:
        return {'hang': str(ex)}, model, [('hang', 'P', str(ex))]
    except Exception as ex:  # noqa -- the implementation (or building the case on it) blew up outside execute()
        obs = None
        return obs, model, [('impl-exception', 'K', '%s: %s' % (type(ex).__name__, str(ex)[:200]))]
    return obs, model, judge(case, obs, model)


# ----------------------------------------------------------------------------------------------
# shrinking

def shrink_candidates(case):
    k = case['kind']
    if k == 'py':
        ws = case.get('writes', [])
        for i in range(len(ws)):
            c = copy.deepcopy(case)
            del c['writes'][i]
            yield c
        for i, w in enumerate(ws):
            t = w[1]
            if len(t) > 1:
                c = copy.deepcopy(case)
                c['writes'][i][1] = t[:max(1, len(t) // 2)]
                yield c
        if case.get('swap', 'none') != 'none':
            c = copy.deepcopy(case)
            c['swap'] = 'none'
            yield c
    elif k == 'cmd':
        ch = case.get('chunks', [])
        for i in range(len(ch)):
            c = copy.deepcopy(case)
            del c['chunks'][i]
            yield c
        for i, (chan, spec) in enumerate(ch):
            c = copy.deepcopy(case)
            if 'rep' in spec and spec['n'] > 1:
                c['chunks'][i][1]['n'] = spec['n'] // 2
                yield c
            elif 'hex' in spec and len(spec['hex']) > 2:
                h = spec['hex']
                c['chunks'][i][1]['hex'] = h[:(len(h) // 4) * 2 or 2]
                yield c
            elif 'text' in spec and len(spec['text']) > 1:
                c['chunks'][i][1]['text'] = spec['text'][:len(spec['text']) // 2]
                yield c
        if case.get('save_out') is not None:
            c = copy.deepcopy(case)
            c['save_out'] = None
            yield c
    elif k == 'task':
        for i in range(len(case['actions'])):
            if len(case['actions']) > 1:
                c = copy.deepcopy(case)
                del c['actions'][i]
                yield c
        for i, a in enumerate(case['actions']):
            if a['t'] == 'cmd' and a.get('chunks'):
                c = copy.deepcopy(case)
                c['actions'][i]['chunks'] = []
                yield c
    elif k in ('nested', 'ncnest'):
        def drop(items):
            for i in range(len(items)):
                yield items[:i] + items[i + 1:]
                if items[i][0] == 'x':
                    # replace an execution by its body's executions hoisted away, or shrink inside it
                    for sub in drop(items[i][2]):
                        yield items[:i] + [['x', items[i][1], sub]] + items[i + 1:]
        for f in drop(case['forest']):
            c = copy.deepcopy(case)
            c['forest'] = f
            yield c
    elif k in ('overlap', 'ncoverlap'):
        acts = [a for th in case['threads'] for a in th]
        for a in acts:
            if len(acts) > 2:
                c = copy.deepcopy(case)
                c['threads'] = [[x for x in th if x != a] for th in case['threads']]
                c['threads'] = [th for th in c['threads'] if th]
                c['schedule'] = [s for s in case['schedule'] if s[1] != a]
                yield c
        for i, s in enumerate(case['schedule']):
            if s[0] == 'w':
                c = copy.deepcopy(case)
                del c['schedule'][i]
                yield c


def shrink(case, key, drv, max_evals=60):
    cur = case
    evals = 0
    progress = True
    while progress and evals < max_evals:
        progress = False
        for cand in shrink_candidates(cur):
            evals += 1
            if evals > max_evals:
                break
            _, _, probs = evaluate(cand, drv)
            if any(p[0] == key for p in probs):
                cur = cand
                progress = True
                break
    return cur


# ----------------------------------------------------------------------------------------------
# reporting one case

def describe(case):
    k = case['kind']
    if k == 'py':
        return 'py%s %s/%s cap=%s v=%s kw=%s swap=%s writes=%d' % (
            ' PythonInteractiveAction' if case.get('cls') == 'interactive' else '', case['ret']['cat'], case['ret'].get('rep', ''), case.get('capture', True), case.get('v'),
            case.get('kwargs_raise'), case.get('swap', 'none'), len(case.get('writes', [])))
    if k == 'cmd':
        extra = ' '.join('%s=%s' % (f, case[f]) for f in ('cls', 'interrupt', 'encoding', 'decode_error', 'env', 'cwd',
                                                           'fmt', 'form', 'world') if case.get(f))
        return 'cmd exit=%s cap=%s v=%s save_out=%s chunks=%d expand=%s buffering=%s %s' % (
            case.get('exit'), case.get('capture', True), case.get('v'), case.get('save_out'),
            len(case.get('chunks', [])), case.get('expand', 'ok'), case.get('buffering', 0), extra)
    if k == 'runner':
        return 'runner %s%s n=%s %s v=%s tasks=%s' % (
            case['par'], (' -r json abort=%s' % case.get('abort')) if case.get('reporter') == 'json' else '',
            case.get('n'), case['mode'], case.get('v'),
            [[a.get('end', 'true') for a in t['actions']] for t in case['tasks']])
    if k == 'task':
        return ('teardown ' if case.get('teardown') else 'task ') + ','.join(a['ret']['cat'] if a['t'] == 'py' else 'cmd%s' % a.get('exit', ['', 0])[1]
                                  for a in case['actions'])
    return '%s %s' % (k, clip(case.get('forest') or case.get('schedule'), 200))


def report(st, case, obs, model, probs, drv):
    """turn the problems of one case into violations / divergences (shrunk)"""
    pkeys = [p for p in probs if p[1] == 'P']
    if pkeys and pkeys[0][0] == 'hang':
        st.violation({'case': case, 'what': describe(case), 'failed_keys': ['hang'],
                      'problems': [list(p) for p in probs], 'impl_equals_model': False,
                      'observed': obs, 'model': json.loads(clip_json(model))}, 'hang',
                     'the implementation never returned: ' + probs[0][2])
        return
    if pkeys:
        key = pkeys[0][0]
        small = shrink(case, key, drv) if (len(st.violations) < 3 and key != 'hang') else case
        obs2, model2, probs2 = evaluate(small, drv)
        if not any(p[0] == key for p in probs2):      # flaky shrink result: keep the original
            small, obs2, model2, probs2 = case, obs, model, probs
        fk = sorted(set(p[0] for p in probs2 if p[1] == 'P'))
        kkeys = [p for p in probs2 if p[1] == 'K']
        w = {'case': small, 'what': describe(small), 'failed_keys': fk,
             'problems': [list(p) for p in probs2][:12],
             'impl_equals_model': not kkeys,
             'observed': json.loads(clip_json(obs2)), 'model': json.loads(clip_json(model2))}
        if small['kind'] == 'overlap':
            w['overlapping_pairs'] = actlib.overlapping_pairs(small)
        st.violation(w, fk[0] if fk else key, '; '.join('%s: %s' % (p[0], p[2]) for p in probs2[:4]))
    else:
        w = {'case': case, 'what': describe(case), 'problems': [list(p) for p in probs][:12],
             'observed': json.loads(clip_json(obs)), 'model': json.loads(clip_json(model))}
        st.divergence(w, 'correspondence M5: ' + '; '.join('%s: %s' % (p[0], p[2]) for p in probs[:3]))


def clip_json(o):
    def walk(x):
        if isinstance(x, str):
            return x if len(x) <= 300 else x[:300] + '...(%d chars)' % len(x)
        if isinstance(x, list):
            return [walk(y) for y in x[:40]]
        if isinstance(x, dict):
            return {str(k): walk(v) for k, v in x.items()}
        return x
    return json.dumps(walk(o), default=str)


def nontrivial(case):
    k = case['kind']
    if k == 'py':
        return bool(case.get('writes')) or case['ret']['cat'] not in ('true', 'none')
    if k == 'cmd':
        return bool(case.get('chunks')) or case.get('exit', ['status', 0])[1] != 0
    if k == 'task':
        return len(case['actions']) > 1
    if k in ('nested', 'ncnest'):
        return any(it[0] == 'x' and any(s[0] == 'x' for s in it[2]) for it in case['forest']) or len(case['forest']) > 1
    return True


def count_case(st, case):
    k = case['kind']
    st.count('kind:' + k)
    if k == 'py':
        st.count('py.cat:' + case['ret']['cat'])
        st.count('py.capture:%s' % case.get('capture', True))
        st.count('py.v:%s' % case.get('v'))
        pcap = 'no' if case.get('cls') == 'interactive' else cap_class(case.get('capture', True))
        st.count('py.mode:capture-%s.v:%s' % (pcap, case.get('v')))
        if all(actlib.op_kind(w) in ('write', 'print', 'flush', 'isatty') for w in case.get('writes', [])):
            # hypothesis of capture_mode_independent_classification (StreamOp.common)
            st.count('py.hyp:common_ops.capture-%s' % pcap)
        if case.get('kwargs_raise'):
            st.count('py.kwargs_raise')
        if case.get('swap', 'none') != 'none':
            st.count('py.swap')
        if case.get('cls') == 'interactive':
            st.count('py.cls:PythonInteractiveAction')
        if case.get('direct'):
            st.count('py.direct' + ('.notask' if case.get('notask') else ''))
        if case.get('repeat', 1) > 1:
            st.count('py.repeat')
        st.count('py.writes:%s' % min(4, len(case.get('writes', []))))
        for w in case.get('writes', []):
            if actlib.op_kind(w) != 'write':
                st.count('py.op:' + actlib.op_kind(w))
    elif k == 'cmd':
        ex = case.get('exit', ['status', 0])
        rc = actlib.expected_rc(case)
        st.count('cmd.rc:' + ('signal' if rc < 0 else '0' if rc == 0 else '1-125' if rc <= 125 else '126-255'))
        st.count('cmd.capture:%s' % case.get('capture', True))
        st.count('cmd.v:%s' % case.get('v'))
        st.count('cmd.mode:capture-%s.v:%s' % (cap_class(case.get('capture', True)), case.get('v')))
        if case.get('save_out') is not None and case.get('cls', 'CmdAction') == 'CmdAction':
            st.count('cmd.save_out.capture-%s.%s' % (cap_class(case.get('capture', True)), 'ok' if rc == 0 else 'unsuccessful'))
        size = sum(len(actlib.chunk_bytes(s)) for c, s in case.get('chunks', []))
        st.count('cmd.bytes:' + ('0' if size == 0 else '<1k' if size < 1024 else '<64k' if size < 65536 else '>=64k'))
        if case.get('expand', 'ok') != 'ok':
            st.count('cmd.expand_error')
        if case.get('save_out') is not None:
            st.count('cmd.save_out')
        if case.get('buffering'):
            st.count('cmd.buffering>0')
        for f in ('encoding', 'decode_error', 'fmt', 'cls'):
            if case.get(f):
                st.count('cmd.%s:%s' % (f, case[f]))
        for f in ('env', 'cwd', 'world', 'interrupt'):
            if case.get(f):
                st.count('cmd.' + f)
        if case.get('form') in ('callable_list', 'callable_magic'):
            st.count('cmd.form:' + case['form'])
        if case.get('cls', 'CmdAction') == 'CmdAction' and case.get('expand', 'ok') == 'ok' \
                and case.get('capture', True) and any(actlib.strict_error(case)):
            st.count('cmd.monitors_only:decode-error-path')
    elif k == 'task':
        st.count('task.len:%d' % len(case['actions']))
        if case.get('teardown'):
            st.count('task.teardown')
        pos = next((i for i, a in enumerate(case['actions']) if action_unsuccessful(a)), None)
        st.count('task.first_bad:%s' % pos)
    elif k == 'nested':
        st.count('nested.actions:%d' % min(8, len(actlib.forest_actions(case['forest']))))
        st.count('nested.depth:%d' % forest_depth(case['forest']))
    elif k == 'ncnest':
        acts = actlib.forest_actions(case['forest'])
        st.count('ncnest.depth:%d' % forest_depth(case['forest']))
        for a, info in acts.items():
            if info['kw']:
                continue
            capv = case['cap'].get(str(a), True)
            st.count('ncnest.exec.capture:%s.v:%s' % (capv, case['verb'].get(str(a), 0)))
            st.count('ncnest.exec.capture:%s.end:%s' % (capv, case['ending'].get(str(a), 'true')))
            par = info['parent']
            if par is not None:
                st.count('ncnest.nesting:%s-in-%s' % ('on' if capv else 'off',
                                                      'on' if case['cap'].get(str(par), True) else 'off'))
    elif k == 'runner':
        st.count('runner.%s.%s' % (case['par'], case['mode']))
        if case.get('reporter') == 'json':
            st.count('runner.json.abort:%s' % case.get('abort'))
        if case.get('reporter') == 'console':
            st.count('runner.monitors_only:console.failure_verbosity:%s' % case.get('fv', 0))
        for t in case['tasks']:
            if 'capture' in t:
                st.count('runner.task.capture:%s.%s' % (t['capture'], case['par']))
            if 'tv' in t:
                st.count('runner.task.verbosity:%s' % t['tv'])
            if t.get('title'):
                st.count('runner.title:' + t['title'])
            for a in t['actions']:
                if a.get('cmd'):
                    st.count('runner.cmd' + ('.save_out.' + case['par'] if a.get('save_out') is not None else ''))
                if a.get('end') == 'dict':
                    st.count('runner.values.' + case['par'])
    elif k == 'ncoverlap':
        st.count('ncoverlap.threads:%d.v:%s' % (len(case['threads']), case.get('v')))
        st.count('ncoverlap.overlapping' if actlib.overlapping_pairs(case) else 'ncoverlap.disjoint')
    elif k == 'overlap':
        st.count('overlap.threads:%d' % len(case['threads']))
        st.count('overlap.overlapping' if actlib.overlapping_pairs(case) else 'overlap.disjoint')


def action_unsuccessful(a):
    if a['t'] == 'py':
        return bool(a.get('kwargs_raise')) or a['ret']['cat'] not in ('true', 'none', 'str', 'dict')
    return a.get('expand', 'ok') != 'ok' or actlib.expected_rc(a) != 0


def forest_depth(items):
    d = 0
    for it in items:
        if it[0] == 'x':
            d = max(d, 1 + forest_depth(it[2]))
        elif it[0] == 'k':
            d = max(d, 1)
    return d


def process_batch(batch):
    st = WorkerStats()
    common.use_repo()
    reqs, index = [], []
    for case in batch:
        r = requests_for(case)
        index.append((len(reqs), len(r)))
        reqs += r
    answers = common.drv_batch(reqs)
    drv = None
    hang_flag = HANG_FLAG[0]
    for case, (start, n) in zip(batch, index):
        model = answers[start:start + n]
        if case['kind'] in ('cmd', 'task') and os.path.exists(hang_flag):
            st.count('skipped-after-hang')      # one hang is a violation already; do not wait for hundreds
            continue
        try:
            obs = RUNNERS[case['kind']](case)
            probs = judge(case, obs, model)
        except actlib.Hang as ex:
            obs, probs = {'hang': str(ex)}, [('hang', 'P', str(ex))]
            os.makedirs(common.SCRATCH_ROOT, exist_ok=True)
            open(hang_flag, 'w').close()
        except Exception as ex:  # noqa
            obs, probs = None, [('impl-exception', 'K', '%s: %s' % (type(ex).__name__, str(ex)[:200]))]
        st.case({'case': describe(case)}, nontrivial(case))
        st.traces += 1
        count_case(st, case)
        if case['kind'] in ('nested', 'overlap') and not probs:
            st.count('hyp.well_nested_and_nodup')
        if case['kind'] == 'ncnest' and not probs:
            st.count('hyp.mode_forest_nodup')
        if probs:
            if drv is None:
                drv = common.LeanDriver()
            report(st, case, obs, model, probs, drv)
    if drv is not None:
        drv.close()
    return st


# ----------------------------------------------------------------------------------------------
# generators

PY_ONLY_TEXTS = ['\udcff lone surrogate', 'y' * 70000]
TEXTS = ['a', 'line\n', 'no newline', '', 'ünï☃\n', 'x' * 100 + '\n', '\n\n', 'tab\tand\rcr\n', '\x00nul', 'é', ' ', '  \n', '\n',
         'a\n\nb\n', '\r\n']
STRS = ['', 'abc', 'ünï☃', 'x' * 50, 'False', '0']
VERBS = [0, 1, 2, None]
CAPTURES = [True, False, None]
ODD_CAPTURES = [1, 0, '', 'yes']


def all_rets():
    out = [{'cat': 'true'}, {'cat': 'false'}, {'cat': 'none'}]
    for s in STRS:
        out.append({'cat': 'str', 's': s})
    out.append({'cat': 'str', 's': 'sub', 'cls': 'sub'})
    out.append({'cat': 'str', 's': '', 'cls': 'sub'})
    for d, cls in (([], 'dict'), ([[1, 3]], 'dict'), ([[1, 'v'], [2, None]], 'dict'), ([[0, 0]], 'OrderedDict'),
                   ([[3, 7]], 'sub'), ([], 'sub'), ([[4, 1]], 'defaultdict'), ([[5, 'x' * 30], [0, 2], [1, 1]], 'dict')):
        out.append({'cat': 'dict', 'd': d, 'cls': cls})
    out += [{'cat': 'taskfailed', 'rep': r} for r in actlib.FAILED_REPS]
    out += [{'cat': 'taskerror', 'rep': r} for r in actlib.ERROR_REPS]
    out += [{'cat': 'other', 'rep': r} for r in actlib.OTHER_REPS]
    out += [{'cat': 'raises', 'rep': r} for r in actlib.RAISE_REPS]
    out += [{'cat': 'raisesbase', 'rep': r} for r in actlib.BASE_REPS]
    return out


def gen_ret(rng):
    return copy.deepcopy(rng.choice(all_rets())) if rng.random() < 0.7 else gen_ret_data(rng)


def gen_ret_data(rng):
    if rng.random() < 0.5:
        return {'cat': 'str', 's': ''.join(rng.choice('ab \nç☃0') for _ in range(rng.randint(0, 12))),
                'cls': rng.choice(['str', 'sub'])}
    keys = rng.sample(range(6), rng.randint(0, 4))
    return {'cat': 'dict', 'd': [[k, rng.choice([None, 0, 1, 7, 'v', '', 'ç'])] for k in keys],
            'cls': rng.choice(['dict', 'dict', 'sub', 'OrderedDict'])}


def gen_writes(rng):
    ws = gen_plain_writes(rng)
    if rng.random() < 0.3:
        # stream methods other than write(): the tee Writer must behave the same at every verbosity
        for _ in range(rng.randint(1, 2)):
            kind = rng.choice(actlib.OP_KINDS[1:])
            ws.insert(rng.randint(0, len(ws)), [rng.choice('oe'), rng.choice(['M\n', 'm', 'ç\n']), kind])
    return ws


def gen_plain_writes(rng):
    return [[rng.choice('oe'), rng.choice(TEXTS if rng.random() < 0.95 else PY_ONLY_TEXTS)]
            for _ in range(rng.randint(0, 5))]


def gen_py(rng):
    c = {'kind': 'py', 'ret': gen_ret(rng), 'writes': gen_writes(rng), 'v': rng.choice(VERBS),
         'capture': rng.choice([True, True, True, False, None] if rng.random() < 0.93 else ODD_CAPTURES)}
    if rng.random() < 0.15:
        c['repeat'] = 2
    if rng.random() < 0.3:
        c['stream_v'] = rng.choice([0, 1, 2])      # Task.execute must use the task's verbosity, not the Stream's
    r = rng.random()
    if r < 0.12:
        c['kwargs_raise'] = rng.choice(actlib.KW_REPS)
    elif r < 0.3 and c['capture'] is True:
        c['swap'] = rng.choice(['stdout', 'stderr', 'both'])
    elif r < 0.4:
        c['direct'] = True
        c['v'] = rng.choice([0, 1, 2])
        if c['capture'] is True and rng.random() < 0.3:
            c['notask'] = True
    elif r < 0.47:
        c['cls'] = 'interactive'          # doit.tools.PythonInteractiveAction
        c.pop('repeat', None)
    return c


def gen_chunk(rng, big=False):
    r = rng.random()
    if big and r < 0.5:
        unit = rng.choice(['61', '610a', 'c3a9', 'ff', 'e282ac0a', '00'])
        total = rng.choice([4096, 65536, 65537, 131072, 262144])
        return {'rep': unit, 'n': max(1, total // (len(unit) // 2))}
    if r < 0.3:
        return {'text': rng.choice(TEXTS)}
    if r < 0.6:
        # raw bytes: invalid UTF-8, truncated sequences, lone continuation bytes
        return {'hex': ''.join(rng.choice(['ff', 'c3', 'a9', 'e2', '82', 'ac', '0a', '61', '80', 'f0', '9f', '00', '0d'])
                               for _ in range(rng.randint(1, 12)))}
    if r < 0.8:
        return {'rep': rng.choice(['61', '610a', 'c3a90a', 'ff0a']), 'n': rng.randint(1, 3000)}
    return {'text': ''.join(rng.choice('ab\n ç') for _ in range(rng.randint(0, 30)))}


def gen_exit(rng):
    r = rng.random()
    if r < 0.25:
        return ['status', 0]
    if r < 0.8:
        return ['status', rng.choice([1, 2, 124, 125, 126, 127, 128, 130, 137, 255, rng.randint(1, 255)])]
    if r < 0.93:
        return ['signal', rng.choice([1, 2, 3, 6, 9, 13, 14, 15])]
    return ['childsignal', rng.choice([9, 15, 2])]


def gen_cmd(rng, big=False):
    c = {'kind': 'cmd', 'chunks': [[rng.choice('ooe'), gen_chunk(rng, big)] for _ in range(rng.randint(0, 5))],
         'exit': gen_exit(rng), 'v': rng.choice(VERBS),
         'capture': rng.choice([True, True, True, False, None] if rng.random() < 0.9 else ODD_CAPTURES),
         'save_out': rng.choice([None, None, 0, 3]),
         'form': rng.choice(['str', 'str', 'list', 'callable', 'rawstr', 'rawlist'])}
    if rng.random() < 0.06:
        c['expand'] = rng.choice(['badkey', 'badelem', 'callable_raises'])
    if rng.random() < 0.1:
        c['repeat'] = 2
    if rng.random() < 0.3:
        c['stream_v'] = rng.choice([0, 1, 2])
    if rng.random() < 0.1 and c['capture'] is True:
        c['buffering'] = rng.choice([1, 2, 3, 5, 7, 64, 1024])
    if rng.random() < 0.35:
        gen_cmd_options(rng, c)
    return c


def gen_cmd_options(rng, c):
    """wave 4 (#9, #24): encoding / decode_error / env / cwd / command builders / string-format modes / tools classes.
    Only called for a share of the cases, so the older case stream keeps its shape."""
    r = rng.random()
    if r < 0.3:
        enc = rng.choice(['latin-1', 'utf-16', 'utf-16-le'])
        c['encoding'] = enc
        chunks = []
        for chan in 'oe':
            if enc == 'utf-16':
                chunks.append([chan, {'hex': 'fffe'}])           # a utf-16 *stream* needs its BOM
            for _ in range(rng.randint(0, 3)):
                chunks.append([chan, rng.choice([{'enc_text': rng.choice(['héllo\n', 'ç☃\n\nx', 'no newline', '\r\n']), 'enc': enc},
                                                 {'hex': ''.join(rng.choice(['00', 'd8', 'ff', '0a', '41', 'e9', 'dc'])
                                                                 for _ in range(rng.randint(1, 7)))}])])
        rng.shuffle(chunks)
        # keep every channel's BOM first
        chunks.sort(key=lambda ch: 0 if ch[1].get('hex') == 'fffe' else 1)
        c['chunks'] = chunks
        if rng.random() < 0.3:
            c['decode_error'] = rng.choice(['strict', 'ignore'])
    elif r < 0.45:
        c['decode_error'] = rng.choice(['strict', 'strict', 'ignore'])      # with the generated (often invalid) utf-8 bytes
    elif r < 0.75:
        c['world'] = True
        c['form'] = rng.choice(['str', 'rawstr', 'callable', 'callable_magic', 'callable_magic'])
        c['fmt'] = rng.choice(['old', 'new', 'both'])
        c['expand'] = 'ok'
        extra = []
        for _ in range(rng.randint(1, 4)):
            kind = rng.choice(['subst', 'lit', 'magic' if c['form'] == 'callable_magic' else 'subst', 'env'])
            if kind == 'subst':
                extra.append([rng.choice('oe'), {'subst': rng.choice(['targets', 'dependencies', 'changed', 'opt1'])}])
            elif kind == 'magic':
                extra.append([rng.choice('oe'), {'magic': rng.choice(['targets', 'dependencies', 'changed', 'opt1'])}])
            elif kind == 'lit':
                extra.append([rng.choice('oe'), {'lit': rng.choice(['100%', '{}', '{x} %s %%', '%(targets)s?', '}{'])}])
            else:
                c['env'] = True
                extra.append([rng.choice('oe'), {'env': rng.choice(['C17VAR', 'C17EMPTY'])}])
        c['chunks'] = c['chunks'][:2] + extra
        rng.shuffle(c['chunks'])
        if rng.random() < 0.4:
            c['cwd'] = True
    elif r < 0.85:
        c['form'] = 'callable_list'
        c['expand'] = 'ok'
        c['cwd'] = rng.random() < 0.5
        c['env'] = rng.random() < 0.5
        if c['env']:
            c['chunks'].append(['o', {'env': 'C17VAR'}])
    else:
        c['cls'] = rng.choice(['LongRunning', 'Interactive'])
        c.pop('buffering', None)
        c.pop('repeat', None)
        if rng.random() < 0.25:
            c['interrupt'] = True
            c['exit'] = ['status', rng.choice([0, 3])]


def gen_runner(rng):
    par = rng.choice(['serial', 'process', 'thread'])
    mode = rng.choice(['chain', 'forced'] if par == 'thread' else ['independent', 'chain'])
    if mode == 'forced':
        tasks = [{'actions': [{'writes': rng.randint(0, 3), 'end': 'true'}]},
                 {'actions': [{'writes': rng.randint(0, 2), 'end': 'true'}, {'writes': rng.randint(0, 3), 'end': 'true'}]}]
        return {'kind': 'runner', 'par': 'thread', 'n': 2, 'mode': 'forced', 'v': 0, 'tasks': tasks}
    tasks = []
    for _ in range(rng.randint(1, 4)):
        tasks.append({'actions': [{'writes': rng.randint(0, 3), 'end': rng.choice(['true', 'true', 'str', 'false', 'raise'])}
                                  for _ in range(rng.randint(1, 3))]})
    if mode == 'chain':
        # a failed task stops its dependents: keep every task of a chain successful except possibly the last
        for t in tasks[:-1]:
            for a in t['actions']:
                if a['end'] in ('false', 'raise'):
                    a['end'] = 'true'
    c = {'kind': 'runner', 'par': par, 'n': rng.choice([2, 3]) if par != 'serial' else 1, 'mode': mode,
         'v': rng.choice([0, 0, 1, 2]), 'tasks': tasks}
    r = rng.random()
    if r < 0.3:
        c['reporter'] = 'json'
        c['abort'] = rng.choice([None, None, 'kwargs', 'interrupt', 'devfull']) if par == 'serial' else None
    elif r < 0.75:
        gen_runner_options(rng, c, console=(r > 0.55))
    return c


def gen_runner_options(rng, c, console):
    """wave 4 (#19, #13): io.capture / verbosity per task, cmd-actions with save_out and python-actions returning
    dicts (values crossing the process boundary), the built-in console reporter with titles and failure_verbosity"""
    k = 0
    for t in c['tasks']:
        only_py = True
        for a in t['actions']:
            x = rng.random()
            if x < 0.3:
                a['cmd'] = True
                a['end'] = 'false' if a.get('end') in ('false', 'raise') else 'true'
                if rng.random() < 0.6:
                    a['save_out'] = k % 6
                    k += 1
                only_py = False
            elif x < 0.45 and a.get('end', 'true') in ('true', 'str'):
                a['end'] = 'dict'
                a['key'] = k % 6
                k += 1
        if not console:
            x = rng.random()
            if x < 0.2:
                t['capture'] = None
            elif x < 0.35 and only_py:
                t['capture'] = False
            if rng.random() < 0.4:
                t['tv'] = rng.choice([0, 1, 2])
        else:
            if rng.random() < 0.5:
                t['tv'] = rng.choice([0, 1, 2])
            x = rng.random()
            if x < 0.3:
                t['title'] = 'custom'
            elif x < 0.5 and all(a.get('cmd') for a in t['actions']):
                t['title'] = 'with_actions'
    if console:
        c['reporter'] = 'console'
        c['fv'] = rng.choice([0, 1, 2])
        if not any(a.get('end') in ('false', 'raise') for t in c['tasks'] for a in t['actions']):
            c['tasks'][-1]['actions'][-1]['end'] = 'false'


def gen_task_action(rng, bad=None):
    """bad: None = successful action, else an unsuccessful one"""
    if rng.random() < 0.8:
        if bad:
            if rng.random() < 0.15:
                return {'t': 'py', 'ret': {'cat': 'true'}, 'kwargs_raise': rng.choice(actlib.KW_REPS)}
            ret = rng.choice([r for r in all_rets() if r['cat'] not in ('true', 'none', 'str', 'dict')])
        else:
            ret = rng.choice([r for r in all_rets() if r['cat'] in ('true', 'none', 'str', 'dict')] +
                             [gen_ret_data(rng) for _ in range(6)])
        a = {'t': 'py', 'ret': copy.deepcopy(ret)}
        if rng.random() < 0.15:
            a['tuple_form'] = True
        return a
    a = {'t': 'cmd', 'chunks': [[rng.choice('oe'), {'text': rng.choice(['x', 'y\n', 'ç', ''])}]
                                for _ in range(rng.randint(0, 2))],
         'save_out': rng.choice([None, None, 1, 2, 5]), 'form': rng.choice(['str', 'rawstr', 'rawlist', 'list'])}
    a['exit'] = ['status', rng.choice([1, 3, 125, 126, 200])] if bad else ['status', 0]
    if bad and rng.random() < 0.2:
        a['exit'] = ['signal', 15]
    return a


def gen_task(rng):
    n = rng.randint(1, 5)
    pos = rng.choice([None] + list(range(n)))
    acts = []
    for i in range(n):
        if pos is not None and i == pos:
            acts.append(gen_task_action(rng, bad=True))
        elif pos is not None and i > pos:
            acts.append(gen_task_action(rng, bad=rng.random() < 0.3))
        else:
            acts.append(gen_task_action(rng))
    c = {'kind': 'task', 'actions': acts, 'v': rng.choice([0, 0, 1, 2])}
    if rng.random() < 0.12:
        c['teardown'] = True
    return c


def gen_forest(rng, ids, depth, budget):
    items = []
    for _ in range(rng.randint(0, 4)):
        if budget[0] <= 0:
            break
        r = rng.random()
        if r < 0.45:
            items.append(['w', budget[1]])
            budget[1] += 1
        elif r < 0.9 and depth < 4:
            a = ids[0]
            ids[0] += 1
            budget[0] -= 1
            items.append(['x', a, gen_forest(rng, ids, depth + 1, budget)])
        elif depth < 4:
            a = ids[0]
            ids[0] += 1
            budget[0] -= 1
            items.append(['k', a])
    return items


def gen_nested(rng):
    ids, budget = [0], [rng.randint(1, 8), 0]
    forest = []
    for _ in range(rng.randint(1, 3)):
        if budget[0] <= 0:
            break
        a = ids[0]
        ids[0] += 1
        budget[0] -= 1
        if rng.random() < 0.1:
            forest.append(['k', a])
        else:
            forest.append(['x', a, gen_forest(rng, ids, 1, budget)])
    acts = actlib.forest_actions(forest)
    return {'kind': 'nested', 'forest': forest,
            'verb': {str(a): rng.choice([0, 1, 2]) for a in acts},
            'ending': {str(a): rng.choice(actlib.ENDINGS) for a in acts}}


def gen_ncnest(rng):
    """a nested scenario where every execution has its own io.capture (True/False) besides verbosity and ending"""
    c = gen_nested(rng)
    acts = actlib.forest_actions(c['forest'])
    c['kind'] = 'ncnest'
    p_off = rng.choice([0.3, 0.6, 1.0])
    c['cap'] = {str(a): not (rng.random() < p_off) for a in acts}
    return c


def exhaustive_ncnest():
    """all forests of up to 3 executions x every capture assignment x verbosity 0 / 1 / 2 (uniform) + all endings for
    a single capture-off execution"""
    out = []
    for base in exhaustive_nested():
        if list(base['verb'].values())[:1] != [0]:
            continue
        acts = sorted(int(a) for a in base['verb'])
        for caps in itertools.product([True, False], repeat=len(acts)):
            if all(caps):
                continue
            for v in (0, 1, 2):
                out.append({'kind': 'ncnest', 'forest': base['forest'], 'verb': {str(a): v for a in acts},
                            'ending': {str(a): 'true' for a in acts},
                            'cap': {str(a): c for a, c in zip(acts, caps)}})
    for e in actlib.ENDINGS:
        for v in (0, 1, 2):
            for inner_cap in (True, False):
                out.append({'kind': 'ncnest', 'forest': [['x', 0, [['w', 0], ['x', 1, [['w', 1]]], ['w', 2]]]],
                            'verb': {'0': v, '1': 2}, 'ending': {'0': e, '1': e}, 'cap': {'0': False, '1': inner_cap}})
    return out


def gen_overlap(rng):
    nthreads = rng.choice([2, 2, 2, 3])
    threads, nxt = [], 0
    for _ in range(nthreads):
        k = rng.choice([1, 1, 2])
        threads.append(list(range(nxt, nxt + k)))
        nxt += k
    progs = []
    wn = 0
    for th in threads:
        p = []
        for a in th:
            p.append(['start', a])
            for _ in range(rng.randint(0, 2)):
                p.append(['w', a, wn])
                wn += 1
            p.append(['end', a])
        progs.append(p)
    sched = []
    idx = [0] * nthreads
    serial = rng.random() < 0.25     # disjoint executions: the property must hold
    while any(idx[i] < len(progs[i]) for i in range(nthreads)):
        live = [i for i in range(nthreads) if idx[i] < len(progs[i])]
        if serial:
            # never switch thread while an execution is open
            open_t = [i for i in live if idx[i] > 0 and progs[i][idx[i] - 1][0] != 'end']
            i = open_t[0] if open_t else rng.choice(live)
        else:
            i = rng.choice(live)
        sched.append(progs[i][idx[i]])
        idx[i] += 1
    return {'kind': 'overlap', 'threads': threads, 'schedule': sched}


# ----------------------------------------------------------------------------------------------
# exhaustive small-scope tiers

def exhaustive_py():
    writes = [['o', 'a\n'], ['e', 'b'], ['o', 'ç']]
    out = []
    for ret in all_rets():
        for cap in CAPTURES:
            for v in VERBS:
                out.append({'kind': 'py', 'ret': copy.deepcopy(ret), 'writes': writes, 'v': v, 'capture': cap})
    for cap in ODD_CAPTURES:
        for v in VERBS:
            out.append({'kind': 'py', 'ret': {'cat': 'str', 's': 'r'}, 'writes': writes, 'v': v, 'capture': cap})
    for ret in ({'cat': 'true'}, {'cat': 'raises', 'rep': 'ValueError'}, {'cat': 'str', 's': 'r'}):
        for v in (0, 1, 2):
            out.append({'kind': 'py', 'ret': ret, 'writes': writes, 'v': v, 'capture': True, 'direct': True,
                        'notask': True})
            out.append({'kind': 'py', 'ret': ret, 'writes': writes, 'v': v, 'capture': True, 'repeat': 2})
    for kind in actlib.OP_KINDS[1:]:
        for chan in 'oe':
            for cap in (True, False):
                for v in (0, 1, 2):
                    for direct in (False, True):
                        c = {'kind': 'py', 'ret': {'cat': 'str', 's': 'r'}, 'v': v, 'capture': cap,
                             'writes': [['o', 'a\n'], ['e', 'b'], [chan, 'X\n', kind], ['o', 'after'], ['e', 'z']]}
                        if direct:
                            c['direct'] = True
                        out.append(c)
    for ret in all_rets():
        for v in (0, 2):
            out.append({'kind': 'py', 'cls': 'interactive', 'ret': copy.deepcopy(ret), 'writes': writes, 'v': v,
                        'capture': True})
    for kw in actlib.KW_REPS[:2]:
        out.append({'kind': 'py', 'cls': 'interactive', 'ret': {'cat': 'true'}, 'writes': writes, 'v': 0,
                    'capture': True, 'kwargs_raise': kw})
    for kw in actlib.KW_REPS:
        for cap in CAPTURES:
            for v in VERBS:
                out.append({'kind': 'py', 'ret': {'cat': 'true'}, 'writes': writes, 'v': v, 'capture': cap,
                            'kwargs_raise': kw})
    for v in (0, 1, 2):
        for sv in (0, 1, 2):
            if sv != v:
                out.append({'kind': 'py', 'ret': {'cat': 'true'}, 'writes': writes, 'v': v, 'capture': True,
                            'stream_v': sv})
    for swap in ('stdout', 'stderr', 'both'):
        for v in VERBS:
            for ret in ({'cat': 'true'}, {'cat': 'raises', 'rep': 'ValueError'},
                        {'cat': 'raisesbase', 'rep': 'KeyboardInterrupt'}, {'cat': 'false'}):
                out.append({'kind': 'py', 'ret': ret, 'writes': writes, 'v': v, 'capture': True, 'swap': swap})
    for ret in all_rets():
        for v in (0, 1, 2):
            for cap in CAPTURES:
                out.append({'kind': 'py', 'ret': copy.deepcopy(ret), 'writes': writes, 'v': v, 'capture': cap,
                            'direct': True})
    return out


def exhaustive_cmd(full):
    out = []
    chunks = [['o', {'text': 'o1\n\n \n'}], ['e', {'hex': 'ff650a0a'}], ['o', {'text': 'o2'}], ['e', {'text': 'e2 '}]]
    for rc in range(256):
        out.append({'kind': 'cmd', 'chunks': chunks if rc % 16 == 0 or full else [], 'exit': ['status', rc],
                    'v': rc % 3, 'capture': True, 'save_out': 1 if rc % 2 == 0 else None})
    for sig in (1, 2, 3, 6, 9, 10, 13, 14, 15):
        for cap in CAPTURES:
            out.append({'kind': 'cmd', 'chunks': chunks, 'exit': ['signal', sig], 'v': 0, 'capture': cap,
                        'save_out': 1})
    for cap in CAPTURES:
        for v in VERBS:
            for ex in (['status', 0], ['status', 7], ['status', 126], ['childsignal', 9]):
                for so in (None, 2):
                    out.append({'kind': 'cmd', 'chunks': chunks, 'exit': ex, 'v': v, 'capture': cap, 'save_out': so})
    for cap in ODD_CAPTURES:
        for v in (0, 2):
            out.append({'kind': 'cmd', 'chunks': chunks, 'exit': ['status', 0], 'v': v, 'capture': cap, 'save_out': 2})
    for nbuf in (1, 2, 3, 4096):
        # buffering > 0: output is intact whatever the read size (F-C17c, fixed: incremental decoding)
        out.append({'kind': 'cmd', 'chunks': [['o', {'text': 'plain ascii\nno newline'}], ['e', {'text': 'e'}]],
                    'exit': ['status', 0], 'v': 2, 'capture': True, 'save_out': 1, 'buffering': nbuf})
        out.append({'kind': 'cmd', 'chunks': [['o', {'rep': 'c3a9', 'n': 6}]], 'exit': ['status', 0], 'v': 0,
                    'capture': True, 'save_out': None, 'buffering': nbuf})
        out.append({'kind': 'cmd', 'chunks': [['o', {'text': 'x'}], ['o', {'rep': 'c3a9', 'n': 6}]],
                    'exit': ['status', 0], 'v': 0, 'capture': True, 'save_out': None, 'buffering': nbuf})
    # doit.tools classes: every class x return code class x verbosity (+ interrupted, + command that cannot be built)
    for cls in ('LongRunning', 'Interactive'):
        for ex in (['status', 0], ['status', 1], ['status', 125], ['status', 126], ['status', 255], ['signal', 15]):
            for v in (0, 2):
                out.append({'kind': 'cmd', 'cls': cls, 'chunks': chunks, 'exit': ex, 'v': v, 'capture': True, 'save_out': 1})
        for ex in (['status', 0], ['status', 4]):
            out.append({'kind': 'cmd', 'cls': cls, 'chunks': [], 'exit': ex, 'v': 0, 'interrupt': True})
        out.append({'kind': 'cmd', 'cls': cls, 'chunks': chunks, 'exit': ['status', 0], 'v': 0, 'expand': 'badkey'})
    # CmdAction options
    for enc, bom in (('latin-1', ''), ('utf-16', 'fffe'), ('utf-16-le', '')):
        for derr in ('replace', 'strict', 'ignore'):
            for nbuf in (0, 3):
                ch = [[c, {'hex': bom}] for c in 'oe' if bom] + [['o', {'enc_text': 'héllo\n☃ x', 'enc': enc}],
                                                                 ['e', {'enc_text': 'é\n', 'enc': enc}], ['o', {'hex': 'e9ff0a00d8'}]]
                out.append({'kind': 'cmd', 'chunks': ch, 'exit': ['status', 0], 'v': 2, 'capture': True, 'save_out': 2,
                            'encoding': enc, 'decode_error': derr, 'buffering': nbuf})
    for derr in ('strict', 'ignore'):
        for bad_chan in 'oe':
            out.append({'kind': 'cmd', 'chunks': [['o', {'text': 'fine\n'}], ['e', {'text': 'fine too\n'}],
                                                  [bad_chan, {'hex': '61ff620a'}], ['o', {'text': 'after\n'}]],
                        'exit': ['status', 0], 'v': 0, 'capture': True, 'save_out': 1, 'decode_error': derr})
    for fmt in ('old', 'new', 'both'):
        for form in ('str', 'rawstr', 'callable', 'callable_magic', 'callable_list', 'list'):
            ch = [['o', {'text': 'a'}], ['o', {'lit': '100% {x} %s }{'}], ['e', {'env': 'C17VAR'}]]
            if form in ('str', 'rawstr', 'callable', 'callable_magic'):
                ch += [['o', {'subst': 'targets'}], ['e', {'subst': 'opt1'}], ['o', {'subst': 'changed'}], ['o', {'subst': 'dependencies'}]]
            if form == 'callable_magic':
                ch += [['o', {'magic': 'targets'}], ['e', {'magic': 'changed'}], ['o', {'magic': 'opt1'}], ['o', {'magic': 'dependencies'}]]
            for cwd in (False, True):
                out.append({'kind': 'cmd', 'chunks': ch, 'exit': ['status', 0], 'v': 0, 'capture': True, 'save_out': None,
                            'world': True, 'env': True, 'cwd': cwd, 'fmt': fmt, 'form': form})
    for expand in ('badkey', 'badelem', 'callable_raises'):
        for cap in CAPTURES:
            out.append({'kind': 'cmd', 'chunks': chunks, 'exit': ['status', 0], 'v': 2, 'capture': cap,
                        'save_out': 1, 'expand': expand})
    # sizes up to 256 KiB, no trailing newline, multibyte sequences, one huge line
    for unit, total in (('61', 262144), ('610a', 262144), ('c3a9', 65536), ('e282ac0a', 131072), ('ff', 70000),
                        ('e282ac', 30000), ('f09f9880', 40000)):
        n = total // (len(unit) // 2)
        out.append({'kind': 'cmd', 'chunks': [['o', {'text': 'x'}], ['o', {'rep': unit, 'n': n}], ['e', {'text': 'yz'}],
                                              ['e', {'rep': unit, 'n': n // 2}], ['o', {'text': 'tail'}]],
                    'exit': ['status', 0], 'v': 2, 'capture': True, 'save_out': 0})
    return out


TASK_ALPHABET = [
    {'t': 'py', 'ret': {'cat': 'str', 's': 'r1'}},
    {'t': 'py', 'ret': {'cat': 'dict', 'd': [[1, 1]]}},
    {'t': 'py', 'ret': {'cat': 'dict', 'd': [[1, 2], [2, 'b']]}},
    {'t': 'py', 'ret': {'cat': 'true'}},
    {'t': 'py', 'ret': {'cat': 'false'}},
    {'t': 'py', 'ret': {'cat': 'raises', 'rep': 'ValueError'}},
    {'t': 'py', 'ret': {'cat': 'taskerror', 'rep': 'TaskError'}},
    {'t': 'py', 'ret': {'cat': 'other', 'rep': '0'}},
    {'t': 'py', 'ret': {'cat': 'true'}, 'kwargs_raise': 'default_targets'},
]
TASK_CMDS = [
    {'t': 'cmd', 'chunks': [['o', {'text': 'co'}], ['e', {'text': 'ce'}]], 'exit': ['status', 0], 'save_out': 2},
    {'t': 'cmd', 'chunks': [['o', {'text': 'fo'}]], 'exit': ['status', 4], 'save_out': 1},
]


def exhaustive_task(maxlen, with_cmd_len):
    out = []
    for n in range(1, maxlen + 1):
        alpha = TASK_ALPHABET + (TASK_CMDS if n <= with_cmd_len else [])
        for seq in itertools.product(alpha, repeat=n):
            out.append({'kind': 'task', 'actions': [copy.deepcopy(a) for a in seq], 'v': 0})
    return out


def exhaustive_overlap():
    """all interleavings of two threads, one action each: start, one write, end"""
    out = []
    p0 = [['start', 0], ['w', 0, 7], ['end', 0]]
    p1 = [['start', 1], ['w', 1, 8], ['end', 1]]
    for pos in itertools.combinations(range(6), 3):
        sched, i0, i1 = [], 0, 0
        for k in range(6):
            if k in pos:
                sched.append(p0[i0])
                i0 += 1
            else:
                sched.append(p1[i1])
                i1 += 1
        out.append({'kind': 'overlap', 'threads': [[0], [1]], 'schedule': sched})
    return out


def exhaustive_nested():
    """all forests with up to 3 executions, a write in every gap, verbosity 0 and 2"""
    def shapes(n):            # forests with n nodes: lists of trees
        if n == 0:
            return [[]]
        res = []
        for k in range(1, n + 1):       # size of the first tree
            for sub in shapes(k - 1):
                for rest in shapes(n - k):
                    res.append([sub] + rest)
        return res

    out = []
    for n in (1, 2, 3):
        for shape in shapes(n):
            for v in (0, 2):
                ids, wn = [0], [0]

                def build(forest, top):
                    items = []
                    for sub in forest:
                        if not top:
                            items.append(['w', wn[0]])
                            wn[0] += 1
                        a = ids[0]
                        ids[0] += 1
                        items.append(['x', a, build(sub, False)])
                    if not top:
                        items.append(['w', wn[0]])
                        wn[0] += 1
                    return items
                f = build(shape, True)
                acts = actlib.forest_actions(f)
                out.append({'kind': 'nested', 'forest': f, 'verb': {str(a): v for a in acts},
                            'ending': {str(a): 'true' for a in acts}})
    return out


# ----------------------------------------------------------------------------------------------

def build_cases(ctx, scale):
    rng = ctx.rng
    quick = ctx.tier == 'quick'
    cases = []
    cases += exhaustive_py()
    cases += exhaustive_cmd(full=not quick)
    cases += exhaustive_task(2 if quick else 3, 2 if quick else 2)
    cases += exhaustive_overlap()
    cases += exhaustive_nested()
    n = {'py': 3000, 'cmd': 900, 'task': 1500, 'nested': 1200, 'overlap': 160} if quick else \
        {'py': 30000, 'cmd': 12000, 'task': 20000, 'nested': 12000, 'overlap': 1500}
    for kind, gen in (('py', gen_py), ('cmd', gen_cmd), ('task', gen_task), ('nested', gen_nested),
                      ('overlap', gen_overlap)):
        for i in range(n[kind] * scale):
            r = random.Random(rng.getrandbits(64))
            if kind == 'cmd':
                cases.append(gen(r, big=(i % (10 if quick else 25) == 0)))
            else:
                cases.append(gen(r))
    # io.capture as a mode of the stream machine (own rng: the streams above are unchanged)
    cases += exhaustive_ncnest()
    r3 = ctx.sub_rng('ncoverlap')
    for v in (0, 1, 2):      # forced thread interleavings with capture off: all 20 of two threads + random ones
        for c in exhaustive_overlap():
            cases.append(dict(c, kind='ncoverlap', cap=False, v=v))
    for i in range((60 if quick else 600) * scale):
        c = gen_overlap(random.Random(r3.getrandbits(64)))
        cases.append(dict(c, kind='ncoverlap', cap=False, v=r3.choice([0, 1, 2])))
    r2 = ctx.sub_rng('ncnest')
    for i in range((1200 if quick else 12000) * scale):
        cases.append(gen_ncnest(random.Random(r2.getrandbits(64))))
    return cases


def cost(case):
    k = case['kind']
    if k == 'cmd':
        return 8
    if k == 'task':
        return 1 + 8 * sum(1 for a in case['actions'] if a['t'] == 'cmd')
    if k in ('overlap', 'ncoverlap'):
        return 6
    return 1


def run_cases(ctx, cases):
    # balanced batches: cmd / overlap cases are ~10x slower than py cases
    nb = common.NCPU * 6
    order = sorted(range(len(cases)), key=lambda i: -cost(cases[i]))
    batches = [[] for _ in range(nb)]
    loads = [0] * nb
    for i in order:
        j = loads.index(min(loads))
        batches[j].append(cases[i])
        loads[j] += cost(cases[i])
    for st in common.pmap(process_batch, [b for b in batches if b]):
        st.merge_into(ctx)


HANG_FLAG = [os.path.join(common.SCRATCH_ROOT, 'c17-hang-%d' % os.getpid())]


def clear_hang_flag():
    HANG_FLAG[0] = os.path.join(common.SCRATCH_ROOT, 'c17-hang-%d' % os.getpid())   # forked workers inherit it
    try:
        os.remove(HANG_FLAG[0])
    except OSError:
        pass


def run(ctx):
    clear_hang_flag()
    corpus = []
    for name, c in common.load_corpus('C17'):
        corpus.append(c['case'] if 'case' in c else c)
        ctx.count('corpus')
    corpus_runner = [c for c in corpus if c['kind'] == 'runner']
    corpus = [c for c in corpus if c['kind'] != 'runner']
    st = process_batch(corpus) if corpus else None
    if st is not None:
        st.merge_into(ctx)
    cases = build_cases(ctx, ctx.boost)
    run_cases(ctx, cases)
    run_runner_cases(ctx, ctx.boost, corpus_runner)
    ctx.extra['exhaustive_small_scope'] = {
        'py': 'every representative x io.capture x verbosity (+direct, kwargs-raise, stream-swapping callables)',
        'cmd': 'exit statuses 0..255, 9 signals x capture, capture x verbosity x save_out grid, 256 KiB outputs',
        'task': 'all action sequences up to length %d over a %d-behaviour alphabet'
                % (2 if ctx.tier == 'quick' else 3, len(TASK_ALPHABET) + len(TASK_CMDS)),
        'overlap': 'all 20 interleavings of two single-action threads (start, write, end)',
        'nested': 'all forests of up to 3 executions',
        'ncnest': 'all forests of up to 3 executions x every io.capture assignment x verbosity 0/1/2; every ending of a '
                  'capture-off execution with a nested execution of either mode'}
    ctx.extra['hypotheses_satisfied'] = {
        'WN none evs /\\ Nodup (nested cases, by construction through `flatten`, theorem forest_well_nested)':
            ctx.dist.get('kind:nested', 0),
        'Nodup (Mode.started ..) (ncnest cases: restore_forest_mode / restore_exec_nocapture / nocapture_passthrough)':
            ctx.dist.get('hyp.mode_forest_nodup', 0),
        'overlap schedules that are not well nested (hypothesis false, counterexample side)':
            ctx.dist.get('overlap.overlapping', 0)}
    clear_hang_flag()


FIXED_RUNNER = [
    {'kind': 'runner', 'par': 'process', 'n': 2, 'mode': 'independent', 'v': 0,
     'tasks': [{'actions': [{'cmd': True, 'writes': 2, 'save_out': 1}, {'writes': 1, 'end': 'dict', 'key': 2}]},
               {'capture': None, 'tv': 2, 'actions': [{'cmd': True, 'writes': 1, 'save_out': 3}, {'writes': 2}]},
               {'capture': False, 'actions': [{'writes': 1, 'end': 'str'}]}]},
    {'kind': 'runner', 'par': 'thread', 'n': 2, 'mode': 'chain', 'v': 1,
     'tasks': [{'tv': 2, 'actions': [{'writes': 1}, {'cmd': True, 'writes': 2, 'save_out': 0}]},
               {'capture': False, 'tv': 0, 'actions': [{'writes': 2}]},
               {'capture': None, 'actions': [{'writes': 1, 'end': 'dict', 'key': 4}]},
               {'actions': [{'cmd': True, 'writes': 1, 'save_out': 5, 'end': 'false'}]}]},
    {'kind': 'runner', 'par': 'serial', 'n': 1, 'mode': 'independent', 'v': 1,
     'tasks': [{'tv': 0, 'actions': [{'writes': 2}]}, {'tv': 2, 'actions': [{'writes': 1}, {'cmd': True, 'writes': 1}]},
               {'capture': False, 'actions': [{'writes': 1}]}, {'actions': [{'writes': 1}]}]},
    {'kind': 'runner', 'par': 'serial', 'n': 1, 'mode': 'independent', 'v': 0, 'reporter': 'console', 'fv': 0,
     'tasks': [{'title': 'custom', 'actions': [{'writes': 2, 'end': 'false'}]},
               {'title': 'with_actions', 'actions': [{'cmd': True, 'writes': 1}, {'cmd': True, 'writes': 2, 'end': 'false'}]},
               {'tv': 2, 'actions': [{'writes': 1}, {'writes': 3, 'end': 'raise'}]}, {'actions': [{'writes': 1}]}]},
    {'kind': 'runner', 'par': 'serial', 'n': 1, 'mode': 'independent', 'v': 0, 'reporter': 'console', 'fv': 2,
     'tasks': [{'title': 'custom', 'actions': [{'writes': 2, 'end': 'false'}]},
               {'title': 'with_actions', 'actions': [{'cmd': True, 'writes': 1}, {'cmd': True, 'writes': 2, 'end': 'false'}]},
               {'tv': 2, 'actions': [{'writes': 1}, {'writes': 3, 'end': 'raise'}]}, {'actions': [{'writes': 1}]}]},
    {'kind': 'runner', 'par': 'serial', 'n': 1, 'mode': 'independent', 'v': 2, 'reporter': 'console', 'fv': 1,
     'tasks': [{'title': 'custom', 'actions': [{'writes': 2, 'end': 'false'}]},
               {'title': 'with_actions', 'actions': [{'cmd': True, 'writes': 1}, {'cmd': True, 'writes': 2, 'end': 'false'}]},
               {'tv': 2, 'actions': [{'writes': 1}, {'writes': 3, 'end': 'raise'}]}, {'actions': [{'writes': 1}]}]},
    {'kind': 'runner', 'par': 'serial', 'n': 1, 'mode': 'independent', 'v': 1, 'reporter': 'console', 'fv': 2,
     'tasks': [{'title': 'custom', 'actions': [{'writes': 2, 'end': 'false'}]},
               {'title': 'with_actions', 'actions': [{'cmd': True, 'writes': 1}, {'cmd': True, 'writes': 2, 'end': 'false'}]},
               {'tv': 2, 'actions': [{'writes': 1}, {'writes': 3, 'end': 'raise'}]}, {'actions': [{'writes': 1}]}]},
    {'kind': 'runner', 'par': 'serial', 'n': 1, 'mode': 'independent', 'v': 0, 'reporter': 'json', 'abort': None,
     'tasks': [{'actions': [{'writes': 2, 'end': 'true'}, {'writes': 1, 'end': 'str'}]}, {'actions': [{'writes': 1, 'end': 'false'}]}]},
    {'kind': 'runner', 'par': 'serial', 'n': 1, 'mode': 'independent', 'v': 0, 'reporter': 'json', 'abort': 'kwargs',
     'tasks': [{'actions': [{'writes': 1, 'end': 'true'}]}]},
    {'kind': 'runner', 'par': 'serial', 'n': 1, 'mode': 'independent', 'v': 2, 'reporter': 'json', 'abort': 'interrupt',
     'tasks': [{'actions': [{'writes': 1, 'end': 'true'}]}]},
    {'kind': 'runner', 'par': 'serial', 'n': 1, 'mode': 'independent', 'v': 0, 'reporter': 'json', 'abort': 'devfull',
     'tasks': [{'actions': [{'writes': 1, 'end': 'true'}]}]},
    {'kind': 'runner', 'par': 'process', 'n': 2, 'mode': 'independent', 'v': 1, 'reporter': 'json', 'abort': None,
     'tasks': [{'actions': [{'writes': 2, 'end': 'true'}]}, {'actions': [{'writes': 1, 'end': 'str'}]}]},
    {'kind': 'runner', 'par': 'thread', 'n': 2, 'mode': 'forced', 'v': 0,
     'tasks': [{'actions': [{'writes': 1, 'end': 'true'}]},
               {'actions': [{'writes': 1, 'end': 'true'}, {'writes': 1, 'end': 'true'}]}]},
    {'kind': 'runner', 'par': 'serial', 'n': 1, 'mode': 'independent', 'v': 0,
     'tasks': [{'actions': [{'writes': 2, 'end': 'true'}, {'writes': 1, 'end': 'false'}, {'writes': 1}]},
               {'actions': [{'writes': 1, 'end': 'raise'}]}, {'actions': [{'writes': 2, 'end': 'str'}]}]},
    {'kind': 'runner', 'par': 'process', 'n': 2, 'mode': 'independent', 'v': 1,
     'tasks': [{'actions': [{'writes': 2, 'end': 'true'}]}, {'actions': [{'writes': 1, 'end': 'str'}]},
               {'actions': [{'writes': 3, 'end': 'false'}]}]},
    {'kind': 'runner', 'par': 'thread', 'n': 2, 'mode': 'chain', 'v': 2,
     'tasks': [{'actions': [{'writes': 2, 'end': 'true'}]}, {'actions': [{'writes': 1, 'end': 'str'}]},
               {'actions': [{'writes': 3, 'end': 'raise'}]}]},
]


def run_runner_cases(ctx, scale, extra=()):
    """whole `doit run`s in this process (the process runner cannot be started from a pool worker)"""
    st = WorkerStats()
    cases = [copy.deepcopy(c) for c in extra] + [copy.deepcopy(c) for c in FIXED_RUNNER]
    for _ in range((10 if ctx.tier == 'quick' else 150) * scale):
        cases.append(gen_runner(random.Random(ctx.rng.getrandbits(64))))
    with common.LeanDriver() as drv:
        for case in cases:
            obs, model, probs = evaluate_runner(case, drv)
            st.case({'case': describe(case)}, True)
            st.traces += 1
            count_case(st, case)
            if probs:
                report(st, case, obs, model, probs, drv)
    st.merge_into(ctx)


def search(ctx):
    """(T) or (K) broke and the first pass found no property failure: more of everything, different seeds"""
    ctx.rng.seed(ctx.seed * 1000003 + 7919)
    run_cases(ctx, build_cases(ctx, ctx.boost))
    run_runner_cases(ctx, ctx.boost)


def replay(ctx, data):
    w = data.get('witness') or data          # a replay file, or a corpus seed ({'why':…, 'case':…})
    case = w.get('case')
    if not case:
        print('nothing to replay (no failing input was found): %s' % data.get('note'))
        return False
    obs, model, probs = evaluate(case)
    print('case     :', json.dumps(case, ensure_ascii=False)[:3000])
    print('what     :', describe(case))
    print('observed :', clip_json(obs)[:3000])
    print('model    :', clip_json(model)[:3000])
    for p in probs:
        print('  %-20s [%s] %s' % (p[0], 'property' if p[1] == 'P' else 'correspondence', p[2]))
    if not probs:
        print('  no problem: implementation == model == statement on this case')
    pv = [p for p in probs if p[1] == 'P']
    if pv and case['kind'] in ('overlap', 'runner') and sig_overlap({'case': case, 'impl_equals_model': not [p for p in probs if p[1] == 'K'],
                           'failed_keys': sorted(set(p[0] for p in pv))}):
        print('  (matches the open known finding stdout-overlap-threads, F-C17a)')
    return not pv
