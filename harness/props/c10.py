"""C10 -- actions receive faithful inputs: getargs values, `changed`, `dependencies`, `targets`, calc_dep results
(models M2 "status" + Model/Inputs.lean; DESIGN §5 C10)

(T) lean/DoitModel/Props/C10.lean: C10_changed_partial (+ C10_changed_all_when_nothing_recorded, C10_changed_new_dep,
    C10_never_dep_has_no_state, C10_needed_dep_forces_execution), C10_false_uptodate_counterexample / C10_readded_dep_counterexample /
    C10_changed_full_is_false (the full statement is false of the code on two paths), C10_getargs (+ _after_save,
    _after_remove, _group), C10_calc_same_run.
(K) histories (file edits / touches / deletions, task redefinition, forget, checker switches, runs with failures,
    --always, selection, serial / -n 2 process / -n 2 thread) over producers, group producers, consumers with getargs
    (one key / whole dict, implicit result_dep or explicit setup, single / group source), calc_dep tasks delivering
    file_dep and task_dep, python-actions recording their kwargs and cmd-actions echoing the %(...)s substitutions,
    are executed by the real doit on real files; per status check the model's status and kwargs, per getargs entry
    the model's value are compared with what the actions received.
(P) per executed task the Lean predicate `changedOk` (full statement: every file_dep with no recorded execution / not
    a dependency of the last recorded execution / modified by the checker's rule is in `changed`; dependencies =
    file_dep; targets = targets) on a ghost state driven only by what the implementation was seen to do; per getargs
    entry the Lean `getArg (latest reversed-history)`; calc_dep: `dependencies` = own file_dep + what the calc task's
    latest successful execution delivered, delivered task_dep completed before the consumer started (Python trace
    predicate).
"""
import ast
import json
import os
import re
import shutil

import common
import statuslib
from statuslib import tname, size_of, CK_MODEL, content_of, NS

META = {
    'property': 'C10',
    'lean_props': ['DoitModel.Props.C10'],
    'level': 'proof',
    'budget': {'quick': 30, 'thorough': 420},
    'anchors': ['doit/dependency.py::Dependency.get_status', 'doit/dependency.py::Dependency.save_success',
                'doit/dependency.py::Dependency.get_values', 'doit/dependency.py::Dependency.get_value',
                'doit/dependency.py::Dependency.remove_success',
                'doit/runner.py::Runner._get_task_args', 'doit/runner.py::Runner.select_task',
                'doit/runner.py::Runner.process_task_result', 'doit/runner.py::MRunner.get_next_job',
                'doit/runner.py::MRunner.execute_task_subprocess', 'doit/runner.py::MRunner._process_result',
                'doit/action.py::BaseAction._prepare_kwargs', 'doit/action.py::CmdAction.expand_action',
                'doit/control.py::TaskDispatcher._process_calc_dep_results', 'doit/task.py::Task.update_deps',
                'doit/task.py::Task._init_getargs', 'doit/task.py::Task.pickle_safe_dict',
                'doit/task.py::Task.update_from_pickle', 'doit/task.py::result_dep'],
    'technique': 'Lean 4 proof over histories of the status model extended with the assignments to task.dep_changed, '
                 'the split status-check / completion steps, the `_values_:` state machine and _get_task_args '
                 '(invariant of C03 reused; getargs = declarative "latest successful save" by induction over the '
                 'history) + differential correspondence against real doit runs + ghost-machine monitor on the kwargs '
                 'the actions really received',
    'design_ref': '§5 C10, §4 M2',
    'level_text': 'Machine-checked for every finite history (any number of tasks and files, both checkers, every '
                  'prefix): when the status check lets a task execute and no uptodate item is false, every file '
                  'dependency that the last recorded successful execution had and that the checker judges modified, '
                  'every dependency without saved state and -- with nothing recorded (first run, after failure or '
                  'forget) -- every dependency is in `changed`; `dependencies`/`targets` are the task\'s file_dep / '
                  'targets; a new or modified dependency always makes the task not up-to-date; the value computed '
                  'for a getargs entry (single or group source, key or whole dict, errors) equals the one computed '
                  'from each source\'s most recent successful execution still recorded; file_dep delivered by a '
                  'calc_dep task are `dependencies` and take part in the same run\'s up-to-date check.  The model '
                  'is tied to doit on every run by executing generated histories with the real code (3 backends x 2 '
                  'checkers x serial/process/thread) and diffing statuses, kwargs and getargs values; the monitor '
                  'evaluates the full Lean statement on the kwargs the actions received.',
    'level_note': 'C10_changed_partial: the full statement (C10_changed_full) is false of the code on two paths, both '
                  'proved as counterexamples and registered as open findings: (1) F-C10 changed == [] when a false '
                  'uptodate item causes the run (six tests of doit pin it); (2) a file_dep dropped and taken up again '
                  'is compared with the state of an execution before the last one (save_success keeps stale per-file '
                  'entries).  The monitor evaluates the full statement.  Ordering of a task_dep delivered by a calc_dep '
                  'task is checked on the trace by a Python predicate (the run model M1 is not part of this proof).  '
                  'K and P of getargs use the same observed DB effects (what the producers returned, which executions '
                  'were reported successful).  Internal keys (_result:*, run-once, _config_changed) are stripped from '
                  'observed whole-dict values.',
    'rule': 'histories of 3-9 scenario steps over 2-5 tasks (producers returning value dicts or nothing, a group of 2 '
            'sub-task producers, consumers with file_dep/targets/uptodate and getargs, a calc_dep pair) and 1-3 source '
            'files; each step = a reason for the consumer to run (edit / touch / delete dep or target, redefinition '
            'incl. dep added / removed / re-added and uptodate toggled, forget, --always, producer outcome changed) '
            'followed by a run; python- and cmd-actions; non-trivial = some task executed at least twice in the '
            'history and some kwargs/getargs comparison was made on a non-first execution; distinct = distinct '
            'canonical case',
    'assumptions': ['Faithful: a file\'s content never changes while its mtime stays the same (MD5Checker\'s premise); '
                    'mtimes are set by the harness from an integer clock',
                    'md5 is treated as an injective content id',
                    'only dbm.dumb is available as dbm implementation in this sandbox',
                    'actions of tasks running concurrently under -n 2 write only their own targets'],
    'trusted': ['task ordering inside one `doit run` is taken from the implementation\'s reporter stream (M1: C01)',
                'backends are exercised, not modelled here (C07)',
                'subprocess / shell `echo` used by the cmd-actions to expose the %(...)s substitutions'],
    'models': ['M2', 'M5'],
}

# The model mirrors the tree as it is.  When the repair proposed in findings/pending/C10-readded-dep-stale-state.md is
# committed to /repo: set this to True (the model then uses `depChangedRepaired`, for which `C10_changed_repaired`
# proves the full statement outside the F-C10 path) and turn the `open:` line of readded-dep-stale-state into `fixed:`.
READDED_FIX_APPLIED = True

# file names: style of the case (`fstyle`): plain, with a space, with braces (what `%(dependencies)s` joins by a space and
# what str.format would read as a field).  One process evaluates one case at a time: the style is a module global.
FILE_STYLES = ['f%d', 'f %d', 'f{%d}']
FILE_RES = [re.compile(r'f(\d+)'), re.compile(r'f (\d+)'), re.compile(r'f\{(\d+)\}')]
_FSTYLE = 0


def fname(p):
    return FILE_STYLES[_FSTYLE] % p


def split_names(text):
    """the file names in a `' '.join(names)` substitution (names may contain a space): (names, rest)"""
    names = ['f' + FILE_STYLES[_FSTYLE][1:] % int(m) for m in FILE_RES[_FSTYLE].findall(text)]
    rest = FILE_RES[_FSTYLE].sub('', text).strip()
    return names + ([rest] if rest else [])


SHARED_TAG = 7
OBS_PY = 'obs.jsonl'
OBS_CMD = 'obs-cmd.txt'
GETARGS_ERR = 'ERROR getting value for argument'


# values that JSON changes when they are saved (tuple -> list, int / None dict keys -> str, nested) or keeps (float, text):
# value id >= 20.  The model treats a value as an opaque id; the harness identifies an observed value modulo the JSON
# round trip (that is what the DB returns in a later run; in the run that computed it the raw python object is delivered).
ODD_VALUES = {20: (1, 2), 21: {3: 'x', None: 1.5}, 22: 2.5, 23: [[1, (2, 3)], {'a': None}], 24: 'text \u00fc', 25: []}
ODD_BASE = 1000


# values the DB can not store (json raises TypeError): value id >= 30.  `save_success` refuses them: the execution is a
# task failure ("saving success ... can not be saved"), the record is removed, consumers do not run.
UNSAVEABLE = {30: 'set', 31: 'bytes', 32: 'path'}


def unsaveable_value(vid):
    import pathlib
    return {30: {1, 2}, 31: b'ab', 32: pathlib.PurePosixPath('f0')}[vid]


def plan_saveable(pl):
    """can the values / result the action returns under this plan be stored?"""
    if (pl or {}).get('vid') in UNSAVEABLE:
        return False
    dl = (pl or {}).get('deliver')
    if dl is not None and dl.get('kind') in (None, 'dict') and dl.get('pathobj') and dl.get('deps'):
        return False
    return True


def _jnorm(x):
    return json.loads(json.dumps(x))


ODD_INDEX = {json.dumps(_jnorm(v), sort_keys=True): ODD_BASE + k for k, v in ODD_VALUES.items()}


def vals_of(vid):
    """the dict a producer's action returns for value id `vid`"""
    if vid in ODD_VALUES:
        return {'k0': ODD_VALUES[vid], 'k1': vid}
    if vid in UNSAVEABLE:
        return {'k0': unsaveable_value(vid), 'k1': vid}
    if vid % 3 == 0:
        return {'k0': vid}
    return {'k0': vid, 'k1': vid + 50}


def uv_of(vid):
    if vid in UNSAVEABLE:
        return [[0, ODD_BASE + vid], [1, vid]]
    if vid in ODD_VALUES:
        return [[0, ODD_BASE + vid], [1, vid]]
    return sorted([int(k[1:]), v] for k, v in vals_of(vid).items())


def value_id(x):
    """observed value -> the model's value id (ints are themselves)"""
    if isinstance(x, int) and not isinstance(x, bool):
        return x
    try:
        return ODD_INDEX.get(json.dumps(_jnorm(x), sort_keys=True))
    except Exception:  # noqa
        return None


def sub_id(g, j):
    return 100 * (g + 1) + j


# names of the sub-tasks of a group, by style (`substyle` of the group definition).  Every name is legal for doit (only
# '=' is forbidden); all names are distinct across styles so that a full task name identifies the sub-task index.
SUB_STYLES = [['x0', 'x1'],
              ['linux:x86', 'mac:x86'],          # ':' inside, same last segment
              ['os:a b', 'os c:d:'],             # spaces, trailing ':'
              ['\u00fc-[0]?', '[1]*\u00e9']]   # unicode, '[', '?', '*'
SUBNAME_INDEX = {n: j for st in SUB_STYLES for j, n in enumerate(st)}


def sub_suffix(style, j):
    return SUB_STYLES[style or 0][j]


def sub_name(g, j, style=0):
    return '%s:%s' % (tname(g), sub_suffix(style, j))


def name_to_id(name):
    if ':' in name:
        g, x = name.split(':', 1)
        return sub_id(int(g[1:]), SUBNAME_INDEX[x])
    return int(name[1:])


def id_to_name(i):
    if i >= 100:
        return '%s:<sub-task %d>' % (tname(i // 100 - 1), i % 100)
    return tname(i)


def norm_def(d):
    d = dict(d)
    d.setdefault('deps', [])
    d.setdefault('targets', [])
    d.setdefault('uptodate', [])
    d.setdefault('getargs', [])       # [[arg, src, key|None]]
    d.setdefault('via_setup', False)  # sources listed in `setup` (no implicit result_dep)
    d.setdefault('calc', [])          # calc_dep task ids
    d.setdefault('subs', 0)           # > 0: group task with that many sub-task producers
    d.setdefault('cmd', False)        # first action is a cmd-action echoing the substitutions
    d.setdefault('pathobj', None)     # 'path' | 'pure': file_dep / targets written as pathlib objects
    d.setdefault('ga_list', False)    # getargs entries written as lists [task, key]
    d.setdefault('param', False)      # a task `params` entry named like the first getargs arg
    d.setdefault('substyle', 0)       # group only: index into SUB_STYLES (names of the sub-tasks)
    d.setdefault('kwform', None)      # 'varkw' | 'explicit': python-action given as (callable, [], shared kwargs dict)
    d.setdefault('delayed', None)     # group only: task id after whose execution the group is created (create_after)
    return d


_WORLD = None


def delayed_consumer_act(tid, argnames, changed, dependencies, targets, **kw):
    """python-action of a task created by a delayed task-creator: a module-level callable given as (callable, [args]) so
    that the whole Task object can be pickled (`MRunner.get_next_job` sends `JobTask(task)` for such tasks under the
    process runner); records the kwargs it received like every other consumer action"""
    rec = {'t': tid, 'changed': list(changed), 'dependencies': list(dependencies), 'targets': list(targets),
           'args': {k: kw[k] for k in argnames if k in kw},
           'extra': sorted(k for k in kw if k not in argnames)}
    try:
        rec['rawdiff'] = sorted(k for k in rec['args'] if repr(kw[k]) != repr(_jnorm(kw[k])))
    except Exception:  # noqa
        rec['rawdiff'] = ['unserialisable']
    with open(OBS_PY, 'a') as f:
        f.write(json.dumps(rec, default=repr) + '\n')
    return _WORLD._effect(str(tid))()


def delayed_effect(key):
    """action of a sub-task created by a delayed loader: must be picklable by reference (process runner)"""
    return _WORLD._effect(key)()


# ----------------------------------------------------------------------------------------------
# the world

class World(statuslib.World):
    def __init__(self, backend, checker, ntasks, npaths):
        statuslib.World.__init__(self, backend, checker, ntasks, npaths)
        self.defs = {t: norm_def({}) for t in range(ntasks)}
        self.shared_kw = {'tag': SHARED_TAG}
        self.fmt = 'old'          # DOIT_CONFIG['action_string_formatting']

    def write(self, p, cid, mtime):
        with open(fname(p), 'w') as f:
            f.write(content_of(cid))
        os.utime(fname(p), ns=(mtime * NS, mtime * NS))

    def touch(self, p, mtime):
        if os.path.exists(fname(p)):
            os.utime(fname(p), ns=(mtime * NS, mtime * NS))

    def delete(self, p):
        if os.path.exists(fname(p)):
            os.remove(fname(p))

    def _effect(self, key):
        world = self

        def effect():
            pl = world.plan.get(key) or {}
            for p, cid, mtime in pl.get('writes', []):
                world.write(p, cid, mtime)
            if not pl.get('ok', True):
                return False
            if pl.get('deliver') is not None:
                dl = pl['deliver']
                if dl.get('kind') == 'str':
                    return 'file_dep f0'         # a str result: no values, nothing is delivered
                if dl.get('kind') == 'none':
                    return None
                out = {}
                if dl.get('junk'):
                    out['junk'] = 1              # keys update_deps does not know are ignored (first in the dict)
                    out['setup'] = ['nosuchtask']
                out['file_dep'] = [world.pathobj(fname(p), dl.get('pathobj')) for p in dl.get('deps', [])]
                out['task_dep'] = [tname(u) for u in dl.get('tasks', [])]
                if dl.get('uptodate') is not None:
                    out['uptodate'] = [bool(b) for b in dl['uptodate']]
                return out
            if pl.get('vid') is not None:
                return vals_of(pl['vid'])
            return True
        return effect

    @staticmethod
    def pathobj(name, on):
        """file names as pathlib objects (doit converts them to str)"""
        if on:
            import pathlib
            return pathlib.PurePosixPath(name) if on == 'pure' else pathlib.Path(name)
        return name

    def _actions(self, tid, d):
        effect = self._effect(str(tid))
        argnames = [g[0] for g in d['getargs']]
        if d['cmd']:
            fmt = self.fmt
            if fmt == 'new':
                bits = ['t=%d' % tid, 'C={changed}', 'D={dependencies}', 'T={targets}']
                bits += ['A:%s={%s}' % (a, a) for a in argnames]
            elif fmt == 'both':
                # `action.format(**subs) % subs`: both spellings in one string
                bits = ['t=%d' % tid, 'C={changed}', 'D=%(dependencies)s', 'T={targets}']
                bits += ['A:%s=%%(%s)s' % (a, a) if n % 2 else 'A:%s={%s}' % (a, a) for n, a in enumerate(argnames)]
            else:
                bits = ['t=%d' % tid, 'C=%(changed)s', 'D=%(dependencies)s', 'T=%(targets)s']
                bits += ['A:%s=%%(%s)s' % (a, a) for a in argnames]
            if d['delayed'] is not None and not d['subs']:
                return ['echo "%s" >> %s' % (';'.join(bits), OBS_CMD), (delayed_effect, [str(tid)])]
            return ['echo "%s" >> %s' % (';'.join(bits), OBS_CMD), effect]

        if d['delayed'] is not None and not d['subs']:
            # task created by a delayed task-creator: picklable action (see delayed_consumer_act)
            return [(delayed_consumer_act, [tid, argnames])]
        form = d['kwform']
        own = argnames + (['tag'] if form else [])

        def record(changed, dependencies, targets, kw):
            rec = {'t': tid, 'changed': list(changed), 'dependencies': list(dependencies), 'targets': list(targets),
                   'args': {k: kw[k] for k in argnames if k in kw},
                   'extra': sorted(k for k in kw if k not in own)}
            try:
                rec['rawdiff'] = sorted(k for k in rec['args'] if repr(kw[k]) != repr(_jnorm(kw[k])))
            except Exception:  # noqa
                rec['rawdiff'] = ['unserialisable']
            if form:
                rec['tag'] = kw.get('tag', 'absent')
            with open(OBS_PY, 'a') as f:
                f.write(json.dumps(rec, default=repr) + '\n')
            return effect()

        def act(changed, dependencies, targets, **kw):
            return record(changed, dependencies, targets, kw)
        if not form:
            return [act]
        # the action is given as (callable, args, kwargs) with a NON-EMPTY kwargs dict that lives in the world: the same
        # dict object is handed to every such task and to every doit invocation of the history (one dodo namespace run
        # several times in one process)
        if form == 'explicit':
            # explicit parameters for the getargs entries, no **kwargs
            if argnames == ['a0']:
                def act(changed, dependencies, targets, tag, a0):  # noqa: F811
                    return record(changed, dependencies, targets, {'tag': tag, 'a0': a0})
            elif argnames == ['a0', 'a1']:
                def act(changed, dependencies, targets, tag, a0, a1):  # noqa: F811
                    return record(changed, dependencies, targets, {'tag': tag, 'a0': a0, 'a1': a1})
            else:
                def act(changed, dependencies, targets, tag):  # noqa: F811
                    return record(changed, dependencies, targets, {'tag': tag})
        return [(act, [], self.shared_kw)]

    def doit(self, argv, reporter=None):
        """one in-process doit invocation (as statuslib.World.doit, plus `action_string_formatting`)"""
        global _WORLD
        _WORLD = self
        if self.fmt == 'old':
            return statuslib.World.doit(self, argv, reporter)
        import contextlib
        import io
        from doit.doit_cmd import DoitMain
        from doit.cmd_base import ModuleTaskLoader
        ns = self.namespace()
        cfg = {'dep_file': self.db, 'backend': self.backend, 'verbosity': 0, 'check_file_uptodate': self.checker,
               'action_string_formatting': self.fmt}
        if reporter is not None:
            cfg['reporter'] = reporter
        ns['DOIT_CONFIG'] = cfg
        out, err = io.StringIO(), io.StringIO()
        with contextlib.redirect_stdout(out), contextlib.redirect_stderr(err):
            try:
                code = DoitMain(ModuleTaskLoader(ns)).run(list(argv))
                code = 0 if code is None else code
            except SystemExit as e:
                code = e.code
            except BaseException as e:  # noqa
                code = ['exc', type(e).__name__]
        return code, out.getvalue(), err.getvalue()

    def src_name(self, src):
        if src >= 100:
            g = src // 100 - 1
            return sub_name(g, src % 100, norm_def(self.defs[g])['substyle'])
        return tname(src)

    def namespace(self):
        world = self
        ns = {}
        for t in range(self.ntasks):
            d = norm_def(self.defs[t])
            if d['subs']:
                def gen(t=t, d=d):
                    for j in range(d['subs']):
                        if d['delayed'] is not None:
                            yield {'name': sub_suffix(d['substyle'], j), 'actions': [(delayed_effect, [str(sub_id(t, j))])]}
                        else:
                            yield {'name': sub_suffix(d['substyle'], j), 'actions': [world._effect(str(sub_id(t, j)))]}
                if d['delayed'] is not None:
                    from doit import create_after
                    gen = create_after(executed=tname(d['delayed']), creates=[tname(t)])(gen)
                ns['task_' + tname(t)] = gen
                continue

            def creator(t=t, d=d):
                out = {'actions': world._actions(t, d),
                       'file_dep': [world.pathobj(fname(p), d['pathobj']) for p in d['deps']],
                       'targets': [world.pathobj(fname(p), d['pathobj']) for p in d['targets']],
                       'uptodate': [world._uptodate(i) for i in d['uptodate']]}
                if d['getargs']:
                    seq = list if d['ga_list'] else tuple
                    out['getargs'] = {a: seq([world.src_name(src), None if key is None else 'k%d' % key])
                                      for a, src, key in d['getargs']}
                    if d['via_setup']:
                        # (a sub-task source is listed by its own full name: no implicit result_dep is added)
                        out['setup'] = sorted(set(world.src_name(src) for _, src, _ in d['getargs']))
                    if d['param']:
                        # a task parameter with the name of the first getargs entry: the getargs value wins
                        out['params'] = [{'name': d['getargs'][0][0], 'default': 'param-default', 'long': 'p' + d['getargs'][0][0]}]
                if d['calc']:
                    out['calc_dep'] = [tname(c) for c in d['calc']]
                return out
            if d['delayed'] is not None:
                # the consumer itself is created by a delayed task-creator (after task `delayed` was executed)
                from doit import create_after

                def delayed_creator(creator=creator, t=t):
                    yield dict(creator(), basename=tname(t))
                delayed_creator = create_after(executed=tname(d['delayed']))(delayed_creator)
                ns['task_' + tname(t)] = delayed_creator
                continue
            ns['task_' + tname(t)] = creator
        return ns


def read_obs():
    """kwargs recorded by the actions of the last run: {task id: {'changed','dependencies','targets','args'}}"""
    out = {}
    if os.path.exists(OBS_PY):
        with open(OBS_PY) as f:
            for line in f:
                line = line.strip()
                if line:
                    r = json.loads(line)
                    out[r['t']] = r
        os.remove(OBS_PY)
    if os.path.exists(OBS_CMD):
        with open(OBS_CMD, encoding='utf-8', errors='replace') as f:
            for line in f:
                line = line.strip()
                if not line:
                    continue
                r = {'args': {}, 'extra': [], 'cmd': True}
                for bit in line.split(';'):
                    k, _, v = bit.partition('=')
                    if k == 't':
                        r['t'] = int(v)
                    elif k == 'C':
                        r['changed'] = split_names(v)
                    elif k == 'D':
                        r['dependencies'] = split_names(v)
                    elif k == 'T':
                        r['targets'] = split_names(v)
                    elif k.startswith('A:'):
                        try:
                            r['args'][k[2:]] = ast.literal_eval(v)
                        except Exception:  # noqa
                            r['args'][k[2:]] = v          # a str value is substituted without quotes
                out[r['t']] = r
        os.remove(OBS_CMD)
    return out


def set_fstyle(case):
    global _FSTYLE
    _FSTYLE = int(case.get('fstyle') or 0)


def run_history(case):
    """execute the history on the tree under test (cwd = empty scratch dir); one observation dict per op"""
    common.use_repo()
    w = World(case['backend'], case['checker'], case['ntasks'], case['npaths'])
    w.scramble = int(case.get('scramble') or 0)
    w.fmt = case.get('fmt') or 'old'
    set_fstyle(case)
    obs = []
    for op in case['ops']:
        kind = op[0]
        o = {'op': op, 'kind': kind, 'crash': None}
        if kind == 'edit':
            m = w.tick()
            w.write(op[1], op[2], m)
        elif kind == 'touch':
            w.touch(op[1], w.tick())
        elif kind == 'delete':
            w.delete(op[1])
        elif kind == 'redefine':
            w.defs[op[1]] = norm_def(op[2])
        elif kind == 'checker':
            w.checker = op[1]
        elif kind == 'run':
            spec = op[1]
            plan = {}
            for key, pl in sorted((spec.get('plan') or {}).items()):
                plan[key] = {'ok': pl.get('ok', True), 'vid': pl.get('vid'), 'deliver': pl.get('deliver'),
                             'writes': [[p, cid, w.tick()] for p, cid in pl.get('writes', [])]}
            w.plan = plan
            argv = ['run']
            if spec.get('always'):
                argv.append('-a')
            if spec.get('cont'):
                argv.append('-c')
            if spec.get('par') == 'process':
                argv += ['-n', '2']
            elif spec.get('par') == 'thread':
                argv += ['-n', '2', '-P', 'thread']
            if spec.get('sel') is not None:
                argv += [tname(t) for t in spec['sel']]
            for f in (OBS_PY, OBS_CMD):
                if os.path.exists(f):
                    os.remove(f)
            rep = statuslib.RecordingReporter()
            code, out, err = w.doit(argv, rep)
            o['code'] = code
            o['plan'] = plan
            o['events'] = [(k, n, i) for k, n, i in rep.events]
            o['kwargs'] = read_obs()
            if code == 3 and 'Traceback' in err:
                o['crash'] = statuslib.classify_traceback(err) or 'Exception'
            elif isinstance(code, list):
                o['crash'] = code[1]
            if o['crash'] is None and code not in (0, 1, 2):
                o['crash'] = 'exit-%s' % (code,)
            o['stderr'] = err[-400:] if (o['crash'] or code == 3) else ''
        elif kind == 'forget':
            code, out, err = w.doit(['forget'] + [tname(t) for t in op[1]])
            o['code'] = code
            if code != 0:
                o['crash'] = statuslib.classify_traceback(err) or 'exit-%s' % (code,)
        else:
            raise ValueError('unknown op %r' % (op,))
        obs.append(o)
        if o['crash']:
            break
    return obs


# ----------------------------------------------------------------------------------------------
# translation to the Lean driver

def model_def(d):
    """the status-model definition: the implicit result_dep items of getargs (sources not listed in `setup`) are
    appended to `uptodate` as doit does (`uptodate.extend(self._init_getargs())`)"""
    d = norm_def(d)
    utd = [list(i) for i in d['uptodate']]
    if d['getargs'] and not d['via_setup']:
        for src in sorted(set(src for _, src, _ in d['getargs'] if src < 100)):
            utd.append(['res', src])
    return {'deps': list(d['deps']), 'targets': list(d['targets']), 'uptodate': utd}


def outcomes(events):
    """per task name: (kinds in order, first failure (type, msg) or None)"""
    per, order = {}, []
    for kind, name, info in events:
        if name is None:
            continue
        if name not in per:
            per[name] = {'kinds': [], 'fail': None}
            order.append(name)
        per[name]['kinds'].append(kind)
        if kind == 'add_failure' and per[name]['fail'] is None:
            per[name]['fail'] = info
    return per, order


def classify(p):
    kinds, fail = p['kinds'], p['fail']
    if 'skip_ignore' in kinds:
        return 'ignored'
    if 'skip_uptodate' in kinds:
        return 'up-to-date'
    if 'add_success' in kinds:
        return 'ok'
    if fail is not None:
        typ, msg = fail[0], fail[1] or ''
        if 'execute_task' in kinds:
            return 'save-missing' if typ == 'DependencyError' else 'fail'
        if typ == 'UnmetDependency':
            return 'unmet'
        if typ == 'DependencyError' and GETARGS_ERR in msg:
            return 'getargs-error'
        if typ == 'DependencyError':
            return 'error'
        return 'other:' + typ
    return 'other:' + '+'.join(kinds)


def canon_leaf(v, key):
    if key is None:
        if not isinstance(v, dict):
            return ['not-a-dict', repr(v)]
        out = []
        for k, x in sorted(v.items()):
            if k.startswith('_result:') or k in ('run-once', '_config_changed'):
                continue
            if isinstance(k, str) and k[:1] == 'k' and k[1:].isdigit() and value_id(x) is not None:
                out.append([int(k[1:]), value_id(x)])
            else:
                out.append(['unknown-key', repr(k), repr(x)])
        return {'whole': out}
    if value_id(v) is not None:
        return {'one': value_id(v)}
    return ['not-a-value', repr(v)]


def canon_arg(v, src, key, subs, style=0):
    """observed getargs value -> the driver's format"""
    if subs:
        if not isinstance(v, dict):
            return ['not-a-dict', repr(v)]
        names = {sub_suffix(style, j): sub_id(src, j) for j in range(subs)}
        out = []
        for k, x in v.items():
            if k in names:
                out.append([names[k], canon_leaf(x, key)])
            else:
                out.append(['unknown-sub', repr(k)])
        return {'group': sorted(out, key=lambda e: str(e[0]).rjust(12))}
    return {'single': canon_leaf(v, key)}


def sort_paths(l):
    return sorted(l, key=lambda x: (0, x, '') if isinstance(x, int) else (1, 0, str(x)))


def paths_of(names):
    out = []
    for n in names:
        m = FILE_RES[_FSTYLE].fullmatch(n) if isinstance(n, str) else None
        out.append(int(m.group(1)) if m else n)
    return out


class Translation(object):
    """the three driver requests of one case + where to find the answers"""

    def __init__(self):
        self.model = []
        self.mon = []
        self.vals = []
        self.selects = []     # (model index, obs index, task, outcome, observed kw or None, always)
        self.sels = []        # (monitor index, obs index, task, observed kw)
        self.calc_shapes = []
        self.get_names = {}   # vals index -> dict keys expected for a group source (harness side)
        self.gets = []        # (vals index, obs index, task, arg, src, key, subs, observed canonical value | ['error'])
        self.calc = []        # (obs index, task, expected dependencies (sorted) , observed, delivered tasks, order ok)
        self.completes = []   # (model index, obs index, task, outcome)
        self.n_exec = {}
        self.skipped = None
        self.crash = None     # (obs index, exception, model indices of the probes, stderr tail)


def translate(case, obs):
    set_fstyle(case)
    tr = Translation()
    ck = ['checker', CK_MODEL[case['checker']]]
    tr.model.append(ck)
    tr.mon.append(ck)
    defs = {t: norm_def({}) for t in range(case['ntasks'])}
    delivered_saved = {}      # calc task -> deliver dict of its latest successful execution still recorded

    def both(op):
        tr.model.append(op)
        tr.mon.append(op)

    for i, o in enumerate(obs):
        op = o['op']
        kind = o['kind']
        if kind == 'edit':
            both(['edit', op[1], size_of(op[2]), op[2]])
        elif kind in ('touch', 'delete'):
            both([kind, op[1]])
        elif kind == 'checker':
            both(['checker', CK_MODEL[op[1]]])
        elif kind == 'redefine':
            defs[op[1]] = norm_def(op[2])
            both(['redefine', op[1], model_def(op[2])])
        elif kind == 'forget':
            for t in op[1]:
                both(['forget', t])
                tr.vals.append(['remove', t])
                delivered_saved.pop(t, None)
                for j in range(defs[t]['subs']):
                    tr.vals.append(['remove', sub_id(t, j)])
        elif kind == 'run':
            always = bool(op[1].get('always'))
            # every invocation loads fresh task objects: what a calc_dep task delivered in an earlier run is gone
            for t, d in defs.items():
                if d['calc']:
                    both(['redefine', t, model_def(d)])
            per, _ = outcomes(o['events'])
            out = {n: classify(p) for n, p in per.items()}
            done_at = {}
            started_at = {}
            for pos, (ekind, name, info) in enumerate(o['events']):
                if name is None:
                    continue
                tid = name_to_id(name)
                oc = out[name]
                tracked = tid < 100 and not defs[tid]['subs']
                kw = o['kwargs'].get(tid)
                if ekind == 'execute_task':
                    started_at.setdefault(tid, pos)
                if ekind == 'get_status' and tracked:
                    if oc in ('up-to-date', 'ok', 'fail', 'save-missing', 'error', 'getargs-error'):
                        tr.selects.append((len(tr.model), i, tid, oc, kw, always))
                        tr.model.append(['select', tid, always])
                    if oc in ('ok', 'fail', 'save-missing') and kw is not None:
                        okw = {'changed': paths_of(kw['changed']), 'dependencies': paths_of(kw['dependencies']),
                               'targets': paths_of(kw['targets'])}
                        tr.sels.append((len(tr.mon), i, tid, okw))
                        tr.mon.append(['sel', tid, always, {k: [x for x in v if isinstance(x, int)] for k, v in okw.items()}])
                    if oc == 'error':
                        tr.mon.append(['unmet', tid])
                final = ekind in ('add_success', 'skip_uptodate') or (ekind == 'add_failure')
                if not final or tid in done_at:
                    continue
                done_at[tid] = pos
                pl = o['plan'].get(str(tid)) or {}
                d = defs[tid] if tid < 100 else None
                # getargs of the consumer are read right before its execution: after all its sources completed
                if tracked and d['getargs'] and oc in ('ok', 'fail', 'save-missing', 'getargs-error'):
                    for a, src, key in d['getargs']:
                        subs = defs[src]['subs'] if src < 100 else 0
                        if oc == 'getargs-error':
                            seen = ['error']
                        elif kw is None or a not in kw['args']:
                            seen = ['not-received']
                        else:
                            seen = canon_arg(kw['args'][a], src, key, subs, defs[src]['substyle'] if src < 100 else 0)
                        tr.gets.append((len(tr.vals), i, tid, a, src, key, subs, seen))
                        if subs:
                            st_ = defs[src]['substyle']
                            tr.get_names[len(tr.vals)] = [sub_suffix(st_, j) for j in range(subs)]
                            tr.vals.append(['get', [sub_id(src, j) for j in range(subs)], src, key,
                                            [tname(src), [sub_name(src, j, st_) for j in range(subs)]]])
                        else:
                            tr.vals.append(['get', None, src, key])
                if oc == 'ok':
                    vid = pl.get('vid')
                    if pl.get('deliver') is not None:
                        dl_ = pl['deliver']
                        # a str / None result has no values: nothing is delivered
                        delivered_saved[tid] = dl_ if dl_.get('kind') in (None, 'dict') else {'kind': dl_.get('kind')}
                        tr.vals.append(['save', tid, []])
                    else:
                        delivered_saved.pop(tid, None)
                        tr.vals.append(['save', tid, uv_of(vid) if vid is not None else []])
                elif oc != 'up-to-date':
                    tr.vals.append(['remove', tid])
                    delivered_saved.pop(tid, None)
                if tracked:
                    writes = [[p, size_of(cid), cid] for p, cid, _ in pl.get('writes', [])]
                    res = 999 if pl.get('deliver') is not None else pl.get('vid')
                    if oc in ('ok', 'fail', 'save-missing'):
                        tr.n_exec[tid] = tr.n_exec.get(tid, 0) + 1
                        tr.completes.append((len(tr.model), i, tid, oc))
                        tr.model.append(['complete', tid, oc != 'fail', writes, res, plan_saveable(pl)])
                        tr.mon.append(['exec', tid, oc == 'ok', always, writes, res])
                    elif oc in ('unmet', 'getargs-error') or oc.startswith('other:'):
                        both(['unmet', tid])
                # calc_dep: the consumers of this task get their dependencies updated now
                if tid < 100:
                    for c, dc in defs.items():
                        if tid in dc['calc'] and oc in ('ok', 'up-to-date'):
                            dl = delivered_saved.get(tid) or {}
                            both(['addcalc', c, list(dl.get('deps', [])), [['const', bool(b)] for b in (dl.get('uptodate') or [])]])
                            tr.calc_shapes.append('result-%s%s%s' % (dl.get('kind') or 'dict',
                                                                     '+uptodate' if dl.get('uptodate') is not None else '',
                                                                     '+unknown-keys' if dl.get('junk') else ''))
            if o['crash']:
                # doit died with a traceback: the tasks without a closing report are probed on the model (an unhandled
                # TypeError of MD5Checker on a state saved by TimestampChecker is an explicit `crash` of the model)
                tr.skipped = 'doit crashed: %s' % o['crash']
                probes = []
                for name, p in per.items():
                    tid = name_to_id(name)
                    if out[name].startswith('other:') and tid < 100 and not defs[tid]['subs']:
                        pl = o['plan'].get(str(tid)) or {}
                        probes.append(len(tr.model))
                        tr.model.append(['select', tid, always])
                        probes.append(len(tr.model))
                        tr.model.append(['complete', tid, pl.get('ok', True),
                                         [[q, size_of(cid), cid] for q, cid, _ in pl.get('writes', [])], pl.get('vid'),
                                         plan_saveable(pl)])
                tr.crash = (i, o['crash'], probes, o.get('stderr'))
                break
            # calc_dep trace predicates
            for c, dc in defs.items():
                if not dc['calc'] or c not in o['kwargs'] or tname(c) not in out:
                    continue
                exp = set(dc['deps'])
                tasks = []
                for k in dc['calc']:
                    if out.get(tname(k)) in ('ok', 'up-to-date'):
                        dl = delivered_saved.get(k) or {}
                        exp |= set(dl.get('deps', []))
                        tasks += list(dl.get('tasks', []))
                        # a delivered file_dep that is another task's target is an implicit task_dep
                        for q in dl.get('deps', []):
                            # (targets of a task created by a delayed task-creator are not known when the calc result is
                            # processed: doit adds no implicit dependency for them)
                            tasks += [u for u, du in defs.items() if u != c and q in du['targets'] and du['delayed'] is None]
                order_ok = all(u in done_at and c in started_at and done_at[u] < started_at[c] and
                               out.get(tname(u)) in ('ok', 'up-to-date') for u in tasks) \
                    if o['op'][1].get('par') != 'process' else \
                    all(u in done_at and out.get(tname(u)) in ('ok', 'up-to-date') for u in tasks)
                tr.calc.append((i, c, sorted(exp), sort_paths(paths_of(o['kwargs'][c]['dependencies'])), tasks, order_ok))
    return tr


def requests_of(case, tr):
    base = {'model': 'c10', 'ntasks': case['ntasks'], 'npaths': case['npaths']}
    return [dict(base, mode='model', ops=tr.model, repaired=READDED_FIX_APPLIED), dict(base, mode='monitor', ops=tr.mon),
            {'model': 'c10', 'mode': 'getargs', 'ops': tr.vals}]


# ----------------------------------------------------------------------------------------------
# K + P for one case

class Verdict(object):
    def __init__(self):
        self.divergence = None     # (obs index, what, impl, model)
        self.violations = []       # witness dicts (without the case)
        self.counts = {}
        self.compared_late = 0     # comparisons made on a non-first execution of a task
        self.skipped = None
        self.obs = None

    def count(self, k, n=1):
        self.counts[k] = self.counts.get(k, 0) + n


def evaluate(cases):
    common.use_repo()
    base = common.scratch_dir('c10')
    old = os.getcwd()
    all_obs = []
    for k, case in enumerate(cases):
        d = os.path.join(base, 'c%d' % k)
        os.makedirs(d)
        os.chdir(d)
        try:
            all_obs.append(run_history(case))
        finally:
            os.chdir(old)
            shutil.rmtree(d, ignore_errors=True)
    shutil.rmtree(base, ignore_errors=True)
    trs = [translate(c, o) for c, o in zip(cases, all_obs)]
    reqs = []
    for c, tr in zip(cases, trs):
        reqs += requests_of(c, tr)
    answers = common.drv_batch(reqs)
    out = []
    for k, (case, obs, tr) in enumerate(zip(cases, all_obs, trs)):
        v = Verdict()
        v.obs = obs
        v.skipped = tr.skipped
        for a in answers[3 * k:3 * k + 3]:
            if 'error' in a:
                raise RuntimeError('driver rejected a request: %s' % a['error'])
        _judge(case, obs, tr, answers[3 * k]['steps'], answers[3 * k + 1]['steps'], answers[3 * k + 2]['steps'], v)
        out.append(v)
    return out


def _def_at(case, i, t):
    d = {}
    for op in case['ops'][:i + 1]:
        if op[0] == 'redefine' and op[1] == t:
            d = op[2]
    return d


def _judge(case, obs, tr, msteps, psteps, vsteps, v):
    set_fstyle(case)
    for o in obs:
        if o['kind'] == 'run':
            v.count('run:' + (o['op'][1].get('par') or 'serial'))
            if o['op'][1].get('always'):
                v.count('run:always')
    if tr.skipped:
        v.count('skipped:' + tr.skipped[:40])
    for i_, o_ in enumerate(obs):
        for ek, en, einfo in (o_.get('events') or []):
            if ek == 'runtime_error':
                # doit gave up the run (invalid task from a delayed creator, cyclic dependency, ...): nothing of the
                # history after that is as generated
                v.divergence = v.divergence or (i_, 'doit reported a runtime error', str(einfo)[:300], 'none expected')
    # model crashed or ambiguous somewhere: the rest of the history is not compared (C03's subject)
    stop_at = None
    for idx, i, t, oc, kw, always in tr.selects:
        ms = msteps[idx]
        if ms.get('ambiguous') or ms['status'] == 'crash':
            stop_at = i
            v.count('skipped:model-crash-or-ambiguous')
            break
    for idx, i, t, oc in tr.completes:
        if msteps[idx].get('crashed') and (stop_at is None or i < stop_at):
            stop_at = i
            v.count('skipped:model-crash-or-ambiguous')
    for idx, i, t, oc in tr.completes:
        if stop_at is not None and i >= stop_at:
            break
        pl = (obs[i].get('plan') or {}).get(str(t)) or {}
        if not plan_saveable(pl):
            v.count('execution-whose-values-can-not-be-saved:' + (UNSAVEABLE.get(pl.get('vid')) or 'calc result with pathlib file_dep'))
        if bool(msteps[idx].get('saved')) != (oc == 'ok'):
            v.divergence = v.divergence or (i, 'task %s: implementation reports %s, model %s' % (
                tname(t), oc, 'recorded the execution' if msteps[idx].get('saved') else 'did not record the execution '
                '(action failed, dependency missing or values that can not be saved)'), oc, msteps[idx].get('saved'))
    if tr.crash:
        ci, exc, probes, stderr = tr.crash
        predicted = any(msteps[j].get('status') == 'crash' or msteps[j].get('ambiguous') or msteps[j].get('crashed')
                        for j in probes)
        earlier = any(msteps[idx]['status'] == 'crash' for idx, i, t, oc, kw, always in tr.selects if i <= ci)
        if stop_at is None or stop_at > ci:
            stop_at = ci
        if predicted or earlier:
            v.count('skipped:crash-predicted-by-model')
        else:
            tail = (stderr or '').strip().split('\n')[-3:]
            full = stderr or ''
            if any('error_msg.format(dep)' in l for l in tail):
                # get_status formatting the "Dependent file ... does not exist" message twice (F-C10-missing-dep-brace-name)
                v.violations.append({'kind': 'crash', 'at_op': ci, 'exception': exc, 'stderr': tail,
                                     'fstyle': int(case.get('fstyle') or 0),
                                     'what': 'doit died with a %s traceback while reporting a missing file_dep: %s' % (exc, tail)})
            elif 'JSON serializable' in full or 'JSONDecodeError' in full or 'json.decoder' in full or 'json/decoder' in full:
                # values that can not be stored reached the DB (F-C10-unserialisable-values): the run dies when the DB
                # is written, or a later run dies when it is read
                v.violations.append({'kind': 'crash', 'at_op': ci, 'exception': exc, 'stderr': tail,
                                     'what': 'doit died with a %s traceback while %s the dependency DB -- an execution whose '
                                             'values can not be stored was recorded as a success (its consumers were given a '
                                             'value no later run can deliver): %s'
                                             % (exc, 'reading' if 'decode' in full.lower() and 'JSON serializable' not in full else 'writing', tail)})
            else:
                v.divergence = v.divergence or (ci, 'doit died with %s; the model does not crash there' % exc, tail, 'no crash')
    first_exec = {}
    # ---- K: status + kwargs
    for idx, i, t, oc, kw, always in tr.selects:
        if stop_at is not None and i >= stop_at:
            break
        ms = msteps[idx]
        v.count('model-status:' + ms['status'] + ('+always' if always else ''))
        executed = oc in ('ok', 'fail', 'save-missing', 'getargs-error')
        if oc == 'error':
            if ms['status'] != 'error':
                v.divergence = v.divergence or (i, 'task %s: implementation reports a dependency error, model status %s'
                                                % (tname(t), ms['status']), oc, ms['status'])
            continue
        if ms['status'] == 'error' or bool(ms['executes']) != executed:
            v.divergence = v.divergence or (i, 'task %s: implementation %s, model status %s (executes=%s)'
                                            % (tname(t), oc, ms['status'], ms['executes']), oc, ms['status'])
            continue
        if oc in ('ok', 'fail', 'save-missing'):
            late = t in first_exec
            first_exec.setdefault(t, i)
            if kw is None:
                v.divergence = v.divergence or (i, 'task %s executed but its action recorded no kwargs' % tname(t), None, ms['kw'])
                continue
            seen = {'changed': sort_paths(paths_of(kw['changed'])),
                    'dependencies': sort_paths(paths_of(kw['dependencies'])),
                    'targets': paths_of(kw['targets'])}
            v.count('kwargs-compared:' + ('cmd' if kw.get('cmd') else 'py'))
            dd_ = norm_def(_def_at(case, i, t))
            if kw.get('cmd'):
                v.count('cmd-action-string-formatting:' + (case.get('fmt') or 'old'))
            v.count('file-names:' + ['plain', 'with a space', 'with braces'][int(case.get('fstyle') or 0)])
            if dd_['delayed'] is not None and not dd_['subs']:
                v.count('consumer-created-by-a-delayed-task-creator:' + (next((o_['op'][1].get('par') for o_ in [obs[i]]), None) or 'serial'))
            if dd_['pathobj']:
                v.count('file_dep/targets-written-as-pathlib:' + dd_['pathobj'])
            if dd_['ga_list']:
                v.count('getargs-written-as-list')
            if dd_['param'] and dd_['getargs']:
                v.count('getargs-arg-named-like-a-task-param')
            if kw.get('rawdiff'):
                v.count('getargs:value-delivered-as-raw-python-object (same run; the DB returns its JSON form later)')
            v.count('changed-size:%d/%d' % (len(seen['changed']), len(seen['dependencies'])))
            if ms['falseItem']:
                v.count('reason:uptodate-false')
            if late:
                v.compared_late += 1
            if 'tag' in kw:
                v.count('kwargs-dict-from-definition:' + str(norm_def(_def_at(case, i, t)).get('kwform')))
                if kw['tag'] != SHARED_TAG:
                    v.divergence = v.divergence or (i, 'task %s: keyword `tag` given in the action definition' % tname(t),
                                                    kw['tag'], SHARED_TAG)
            if kw.get('extra'):
                v.divergence = v.divergence or (i, 'task %s received unexpected keyword arguments %s' % (tname(t), kw['extra']),
                                                kw['extra'], [])
            if seen != ms['kw']:
                v.divergence = v.divergence or (i, 'kwargs of %s differ' % tname(t), seen, ms['kw'])
    # ---- P: changedOk on the ghost state
    for idx, i, t, okw in tr.sels:
        if stop_at is not None and i >= stop_at:
            break
        ps = psteps[idx]
        v.count('hypothesis:executes+' + ('a-false-uptodate-item (outside C10_changed_partial)' if ps['falseItem']
                                          else 'no-false-uptodate-item (C10_changed_partial applies)'))
        for p, cls in ps['classes']:
            v.count('dep-class:' + cls)
        bad_names = [x for key in okw for x in okw[key] if not isinstance(x, int)]
        if ps['ok'] and not bad_names:
            continue
        v.violations.append({
            'kind': 'changed', 'at_op': i, 'task': tname(t), 'observed': okw, 'falseItem': ps['falseItem'],
            'needs': ps['needs'], 'missing_from_changed': ps['missing'], 'classes': ps['classes'],
            'file_dep': ps['deps'], 'targets': ps['targets'], 'unknown_names': bad_names,
            'what': 'action of %s received changed=%s dependencies=%s targets=%s; file_dep=%s targets=%s; every one of %s '
                    'differs from what the last recorded successful execution saw (%s)'
                    % (tname(t), okw['changed'], okw['dependencies'], okw['targets'], ps['deps'], ps['targets'],
                       ps['needs'], ', '.join('f%s: %s' % (p, c) for p, c in ps['classes']))})
    # ---- getargs: K (model) and P (spec)
    # the key under which a sub-task's value is delivered: model (`subKey`: the group prefix is cut off) vs harness
    for idx, names in sorted(tr.get_names.items()):
        v.count('getargs:group-sub-task-names:' + ('plain' if names == SUB_STYLES[0] else 'odd (colon / space / unicode / brackets)'))
        if vsteps[idx].get('keys') != names:
            v.divergence = v.divergence or (0, 'keys of the dict delivered for a group source', names, vsteps[idx].get('keys'))
    # a consumer whose _get_task_args raised: the first failing entry ends the loop, so the statement is "some
    # entry has no value to deliver"
    failed = {}
    for idx, i, t, a, src, key, subs, seen in tr.gets:
        if seen == ['error']:
            e = failed.setdefault((i, t), {'model': False, 'spec': False, 'entries': []})
            e['entries'].append([a, tname(src), key, vsteps[idx]['spec']])
            for side in ('model', 'spec'):
                e[side] = e[side] or 'error' in vsteps[idx][side]
    for (i, t), e in sorted(failed.items()):
        if stop_at is not None and i >= stop_at:
            continue
        v.count('getargs:consumer-failed-with-getargs-error')
        if not e['model']:
            v.divergence = v.divergence or (i, 'getargs of %s raised, the model delivers every value' % tname(t), 'error', e['entries'])
        if not e['spec']:
            v.violations.append({
                'kind': 'getargs', 'at_op': i, 'task': tname(t), 'received': ['error'], 'expected': e['entries'],
                'what': 'getting the getargs values of %s failed although the latest successful execution of every '
                        'source still recorded saved the requested values: %s' % (tname(t), e['entries'])})
    for idx, i, t, a, src, key, subs, seen in tr.gets:
        if stop_at is not None and i >= stop_at:
            break
        if seen == ['error']:
            continue
        ans = vsteps[idx]
        kind = 'group' if subs else 'single'
        v.count('getargs:%s:%s' % (kind, 'whole' if key is None else 'key'))
        if src >= 100:
            v.count('getargs:source-is-a-sub-task')
        if any(str(ODD_BASE + k) in json.dumps(ans['spec']) for k in ODD_VALUES):
            v.count('getargs:value-that-json-changes-or-nests (tuple, int/None keys, float, nested)')
        for side in ('model', 'spec'):
            exp = ans[side]
            if 'error' in exp:
                ok = seen == ['error']
                if side == 'spec':
                    v.count('getargs:expected-error:' + exp['error'])
            else:
                ok = seen == exp
            if ok:
                continue
            if side == 'model':
                v.divergence = v.divergence or (i, 'getargs %s of %s from %s key %s' % (a, tname(t), tname(src), key), seen, exp)
            else:
                v.violations.append({
                    'kind': 'getargs', 'at_op': i, 'task': tname(t), 'arg': a, 'source': tname(src),
                    'key': None if key is None else 'k%d' % key, 'group': bool(subs), 'received': seen, 'expected': exp,
                    'what': 'getargs %s of %s: received %s, the latest successful execution(s) of %s still recorded '
                            'saved %s' % (a, tname(t), seen, tname(src), exp)})
        v.compared_late += 1 if i > 0 else 0
    for sh in tr.calc_shapes:
        v.count('calc:' + sh)
    # ---- calc_dep
    for i, c, exp, seen, tasks, order_ok in tr.calc:
        if stop_at is not None and i >= stop_at:
            break
        v.count('calc:consumer-executed')
        if tasks:
            v.count('calc:delivered-task_dep')
        if exp != seen or not order_ok:
            v.violations.append({
                'kind': 'calc', 'at_op': i, 'task': tname(c), 'expected_dependencies': exp, 'received_dependencies': seen,
                'delivered_task_dep': [tname(u) for u in tasks], 'order_ok': order_ok,
                'what': 'consumer %s of a calc_dep task: dependencies received %s, own file_dep + delivered %s; delivered '
                        'task_dep %s completed successfully before it started: %s'
                        % (tname(c), seen, exp, [tname(u) for u in tasks], order_ok)})
    v.n_exec = dict(tr.n_exec)


# ----------------------------------------------------------------------------------------------
# known findings

def _sig_false_uptodate(w):
    """F-C10: the task has >= 1 uptodate item evaluating false AND a modified/new file_dep AND observed changed == []
    (dependencies / targets faithful)"""
    v = w.get('violation') or {}
    return (v.get('kind') == 'changed' and v.get('falseItem') is True and v.get('observed', {}).get('changed') == []
            and len(v.get('missing_from_changed') or []) > 0 and not v.get('unknown_names')
            and sorted(v['observed']['dependencies']) == sorted(v.get('file_dep') or [])
            and v['observed']['targets'] == v.get('targets'))


def _sig_readded(w):
    """every file missing from `changed` was dropped from file_dep by the last recorded execution, is a dependency
    again, and is unmodified relative to what the most recent execution that had it saw; no false uptodate item"""
    v = w.get('violation') or {}
    if v.get('kind') != 'changed' or v.get('falseItem') is not False or v.get('unknown_names'):
        return False
    cls = {p: c for p, c in v.get('classes') or []}
    missing = v.get('missing_from_changed') or []
    return (len(missing) > 0 and all(cls.get(p) == 'readded-unmodified-since-older-execution' for p in missing)
            and sorted(v['observed']['dependencies']) == sorted(v.get('file_dep') or [])
            and v['observed']['targets'] == v.get('targets'))


def _sig_missing_dep_braces(w):
    """doit dies inside get_status on `error_msg.format(dep)` (second formatting of the message) and the file names of
    the history contain braces"""
    v = w.get('violation') or {}
    return (v.get('kind') == 'crash' and v.get('fstyle') == 2 and v.get('exception') in ('IndexError', 'KeyError', 'ValueError')
            and any('error_msg.format(dep)' in l for l in v.get('stderr') or []))


SIGNATURES = {
              'changed-empty-on-false-uptodate': _sig_false_uptodate,
              }


# ----------------------------------------------------------------------------------------------
# rendering / shrinking

def render(case):
    set_fstyle(case)
    out = ['backend=%s checker=%s tasks=%d files=%d%s' % (case['backend'], case['checker'], case['ntasks'], case['npaths'],
                                                         (' action_string_formatting=%s' % case['fmt'] if case.get('fmt') else '') +
                                                         (' file f<i> is named %r' % FILE_STYLES[case['fstyle']] if case.get('fstyle') else ''))]
    for op in case['ops']:
        k = op[0]
        if k == 'redefine':
            d = norm_def(op[2])
            bits = []
            if d['subs']:
                bits.append('group of %d sub-task producers %s' % (d['subs'], [sub_name(op[1], j, d['substyle']) for j in range(d['subs'])]) +
                            (' created by a delayed loader after %s' % tname(d['delayed']) if d['delayed'] is not None else ''))
            else:
                bits.append('file_dep %s targets %s uptodate %s' % ([fname(p) for p in d['deps']], [fname(p) for p in d['targets']],
                                                                     [' '.join(str(x) for x in i) for i in d['uptodate']]))
            if d['getargs']:
                bits.append('getargs {%s}%s' % (', '.join('%s: (%s, %s)' % (a, id_to_name(s), None if key is None else 'k%d' % key)
                                                           for a, s, key in d['getargs']),
                                                 ' sources listed in setup' if d['via_setup'] else ''))
            if d['calc']:
                bits.append('calc_dep %s' % [tname(c) for c in d['calc']])
            if d['delayed'] is not None and not d['subs']:
                bits.append('created by a delayed task-creator (create_after executed=%s)' % tname(d['delayed']))
            if d['pathobj']:
                bits.append('file_dep/targets as pathlib %s objects' % d['pathobj'])
            if d['ga_list']:
                bits.append('getargs entries written as lists')
            if d['param'] and d['getargs']:
                bits.append('params [{name: %s, default: param-default}]' % d['getargs'][0][0])
            if d['cmd']:
                bits.append('cmd-action')
            elif d['kwform']:
                bits.append('action = (callable %s, [], SHARED kwargs dict {tag: %d})'
                            % ('with **kwargs' if d['kwform'] == 'varkw' else 'with explicit parameters', SHARED_TAG))
            out.append('%s = {%s}' % (tname(op[1]), '; '.join(bits)))
        elif k == 'run':
            s = op[1]
            flags = (' -a' if s.get('always') else '') + (' -c' if s.get('cont') else '') + \
                    (' -n 2' + (' -P thread' if s['par'] == 'thread' else '') if s.get('par') else '')
            sel = '' if s.get('sel') is None else ' ' + ' '.join(tname(t) for t in s['sel'])
            acts = []
            for key, pl in sorted((s.get('plan') or {}).items()):
                bits = []
                if pl.get('writes'):
                    bits.append('writes ' + ','.join('f%d' % p for p, c in pl['writes']))
                if not pl.get('ok', True):
                    bits.append('FAILS')
                if pl.get('vid') is not None:
                    bits.append('returns %s%s' % (vals_of(pl['vid']), ' (can not be stored)' if pl['vid'] in UNSAVEABLE else ''))
                if pl.get('deliver') is not None:
                    dl = pl['deliver']
                    if dl.get('kind') in ('str', 'none'):
                        bits.append('returns %s (a calc_dep task without values)' % ('a str' if dl['kind'] == 'str' else 'None'))
                    else:
                        bits.append('delivers file_dep %s task_dep %s%s%s' % (
                            [fname(p) for p in dl.get('deps', [])], [tname(u) for u in dl.get('tasks', [])],
                            (' as pathlib objects (can not be stored)' if dl.get('pathobj') else '') +
                            (' uptodate %s' % dl['uptodate'] if dl.get('uptodate') is not None else ''),
                            ' + unknown keys junk, setup' if dl.get('junk') else ''))
                if bits:
                    acts.append('%s %s' % (id_to_name(int(key)), ' '.join(bits)))
            out.append('doit run%s%s%s' % (flags, sel, ('   [actions: ' + '; '.join(acts) + ']') if acts else ''))
        elif k == 'forget':
            out.append('doit forget ' + ' '.join(tname(t) for t in op[1]))
        else:
            out += statuslib.render(dict(case, ops=[op]))[1:]
    return out


def strip(case):
    return {k: case[k] for k in ('backend', 'checker', 'ntasks', 'npaths', 'ops', 'scramble', 'fmt', 'fstyle') if k in case}


def unknown_violations(v):
    """violations that match no open finding"""
    return [x for x in v.violations if not any(sig({'violation': x}) for sig in SIGNATURES.values())]


def shrink(case, pred, max_evals=60):
    """delta debugging on the op list; `pred(case) -> bool` (still failing)"""
    cur = json.loads(json.dumps(case))
    evals = [0]

    def test(c):
        if evals[0] >= max_evals:
            return False
        evals[0] += 1
        try:
            return bool(pred(c))
        except Exception:  # noqa
            return False
    changed = True
    while changed and evals[0] < max_evals:
        changed = False
        for i in range(len(cur['ops']) - 1, -1, -1):
            if cur['ops'][i][0] == 'redefine' and any(op[0] == 'redefine' and op[1] == cur['ops'][i][1]
                                                      for op in cur['ops'][:i]) is False:
                continue        # keep the first definition of every task (other tasks may refer to it)
            cand = dict(cur, ops=cur['ops'][:i] + cur['ops'][i + 1:])
            if cand['ops'] and test(cand):
                cur = cand
                changed = True
        for i, op in enumerate(cur['ops']):
            if op[0] == 'run':
                for key, val in (('par', None), ('always', False), ('cont', False), ('sel', None)):
                    if op[1].get(key) not in (val, None):
                        spec = dict(op[1])
                        spec[key] = val
                        cand = dict(cur, ops=cur['ops'][:i] + [['run', spec]] + cur['ops'][i + 1:])
                        if test(cand):
                            cur, op, changed = cand, cand['ops'][i], True
    return cur


# ----------------------------------------------------------------------------------------------
# generator

UTD_POOL = [(['const', True], 6), (['const', False], 3), (['none'], 1), (['runOnce'], 2), (['cfg', 1], 2),
            (['cfg', 2], 1), (['custom', True], 1), (['custom', False], 1), (['custom', None], 1)]


def gen_case(rng, parallel=False):
    nsrc = rng.choice([1, 2, 2, 3])
    tasks = []          # list of defs; index = task id
    roles = []
    # producers first (sources of getargs), then an optional group, an optional calc pair, then consumers
    nprod = rng.choice([0, 1, 1, 2])
    for _ in range(nprod):
        roles.append('producer')
    if rng.random() < 0.35:
        roles.append('group')
    if rng.random() < 0.35:
        roles.append('calc')
    ncons = rng.choice([1, 1, 2]) if roles else rng.choice([1, 2])
    for _ in range(ncons):
        roles.append('consumer')
    roles = roles[:5]
    ntasks = len(roles)

    def target(t):
        return nsrc + t

    def target2(t):
        return nsrc + ntasks + t
    npaths = nsrc + 2 * ntasks
    sources = [t for t, r in enumerate(roles) if r in ('producer', 'group')]
    calcs = [t for t, r in enumerate(roles) if r == 'calc']
    for t, r in enumerate(roles):
        if r == 'producer':
            kind = rng.random()
            d = {'deps': [rng.randrange(nsrc)] if kind < 0.45 else [],
                 'uptodate': [['const', True]] if 0.45 <= kind < 0.55 else []}
        elif r == 'group':
            d = {'subs': 2, 'substyle': rng.choice([0, 1, 1, 2, 3])}
            anchors = [u for u in range(t) if roles[u] in ('producer', 'calc')]
            if anchors and rng.random() < 0.45:
                d['delayed'] = rng.choice(anchors)
        elif r == 'calc':
            d = {'deps': [rng.randrange(nsrc)] if rng.random() < 0.6 else []}
        else:
            deps = [p for p in range(nsrc) if rng.random() < 0.7]
            rng.shuffle(deps)
            d = {'deps': deps, 'targets': rng.choice([[target(t)], [target(t)], [target2(t), target(t)], [target(t), target2(t)]])
                 if rng.random() < 0.4 else [],
                 'uptodate': [statuslib._weighted(rng, UTD_POOL)] if rng.random() < 0.45 else [],
                 'cmd': rng.random() < 0.25}
            if not d['cmd'] and rng.random() < 0.5:
                d['kwform'] = rng.choice(['varkw', 'varkw', 'explicit'])
            if rng.random() < 0.25:
                d['pathobj'] = rng.choice(['path', 'pure'])
            anchors = [u for u in range(t) if roles[u] in ('producer', 'calc')]
            if anchors and rng.random() < 0.3:
                d['delayed'] = rng.choice(anchors)
            if sources and rng.random() < 0.75:
                ga = []
                for n in range(rng.choice([1, 1, 2])):
                    src = rng.choice(sources)
                    ga.append(['a%d' % n, src, rng.choice([None, 0, 0, 1])])
                groups = [g for g in sources if roles[g] == 'group']
                groups = [g for g in groups if tasks[g]['delayed'] is None]
                if groups and rng.random() < 0.3:
                    # the source is one SUB-TASK of a group (not of a group created by a delayed loader: doit rejects a
                    # reference to a sub-task that does not exist at load time with "invalid setup task")
                    g = rng.choice(groups)
                    ga[0] = [ga[0][0], sub_id(g, rng.randrange(2)), ga[0][2]]
                d['getargs'] = ga
                d['via_setup'] = any(s >= 100 or roles[s] == 'group' for _, s, _ in ga) or rng.random() < 0.3
                d['ga_list'] = rng.random() < 0.3
                d['param'] = rng.random() < 0.25
            if calcs and rng.random() < 0.8:
                d['calc'] = [rng.choice(calcs)]
            if not d['deps'] and not d['uptodate'] and rng.random() < 0.5:
                d['uptodate'] = [['const', True]]
        tasks.append(norm_def(d))
    ops = []
    for p in range(nsrc):
        ops.append(['edit', p, rng.randrange(1, 8)])
    for t in range(ntasks):
        if tasks[t]['targets'] and rng.random() < 0.3:
            ops.append(['edit', target(t), rng.randrange(10, 16)])
        ops.append(['redefine', t, tasks[t]])
    consumers = [t for t, r in enumerate(roles) if r == 'consumer']

    def gen_plan():
        plan = {}
        for t, r in enumerate(roles):
            d = tasks[t]
            if r == 'producer':
                plan[str(t)] = {'ok': rng.random() < 0.9, 'writes': [],
                                'vid': rng.choice(sorted(ODD_VALUES)) if rng.random() < 0.3 else rng.choice([None, 1, 2, 3, 4, 5, 6, 7])}
                if rng.random() < 0.08:
                    plan[str(t)]['vid'] = rng.choice(sorted(UNSAVEABLE))
            elif r == 'group':
                for j in range(d['subs']):
                    plan[str(sub_id(t, j))] = {'ok': rng.random() < 0.93, 'writes': [],
                                               'vid': rng.choice(sorted(ODD_VALUES)) if rng.random() < 0.25
                                               else rng.choice([None, 1, 2, 3, 4, 5, 6, 7, 8])}
            elif r == 'calc':
                cands = [u for u in range(ntasks) if roles[u] == 'producer']
                ddeps = sorted(rng.sample(range(nsrc), rng.randint(0, min(2, nsrc))))
                # a delivered file_dep that is the target of another task: implicit task_dep, same-run ordering
                tgt = [q for u in range(ntasks) if roles[u] == 'consumer' and not tasks[u]['calc'] and tasks[u]['delayed'] is None
                       for q in tasks[u]['targets']]
                if tgt and rng.random() < 0.35:
                    ddeps.append(rng.choice(tgt))
                dl = {'deps': ddeps, 'tasks': [rng.choice(cands)] if cands and rng.random() < 0.4 else []}
                q = rng.random()
                if q < 0.1:
                    dl = {'deps': [], 'tasks': [], 'kind': 'str'}
                elif q < 0.2:
                    dl = {'deps': [], 'tasks': [], 'kind': 'none'}
                else:
                    if rng.random() < 0.3:
                        dl['uptodate'] = [rng.random() < 0.5]
                    if rng.random() < 0.3:
                        dl['junk'] = True
                    if dl['deps'] and rng.random() < 0.1:
                        dl['pathobj'] = rng.choice(['path', 'pure'])      # the result can not be stored
                plan[str(t)] = {'ok': rng.random() < 0.92, 'writes': [], 'deliver': dl}
            else:
                writes = [[p, rng.randrange(10, 16)] for p in d['targets'] if rng.random() < 0.85]
                plan[str(t)] = {'ok': rng.random() < 0.88, 'writes': writes,
                                'vid': rng.choice([None, None, 1, 2])}
        return plan

    def run_op(always=False):
        spec = {'sel': None, 'always': always, 'cont': rng.random() < 0.5, 'par': None, 'plan': gen_plan()}
        if consumers and rng.random() < 0.15:
            spec['sel'] = [rng.choice(consumers)]
        if parallel and rng.random() < 0.7:
            spec['par'] = rng.choice(['process', 'thread'])
        return ['run', spec]
    ops.append(run_op())
    for _ in range(rng.randint(2, 8)):
        c = rng.choice(consumers)
        d = tasks[c]
        r = rng.random()
        always = False
        n_reasons = rng.choice([1, 1, 2, 2, 3])
        for _ in range(n_reasons):
            r = rng.random()
            if r < 0.22:
                ops.append(['edit', rng.randrange(nsrc), rng.randrange(1, 8)])
            elif r < 0.27:
                ops.append(['touch', rng.randrange(nsrc)])
            elif r < 0.35 and d['targets']:
                ops.append(['delete', rng.choice(d['targets'])])
            elif r < 0.62:
                nd = json.loads(json.dumps(d))
                q = rng.random()
                if q < 0.3 and nd['deps']:
                    nd['deps'].remove(rng.choice(nd['deps']))
                elif q < 0.6:
                    cand = [p for p in range(nsrc) if p not in nd['deps']]
                    if cand:
                        nd['deps'].append(rng.choice(cand))
                elif q < 0.8:
                    nd['uptodate'] = [] if nd['uptodate'] and rng.random() < 0.4 else [statuslib._weighted(rng, UTD_POOL)]
                elif q < 0.9:
                    nd['targets'] = [] if nd['targets'] else [target(c)]
                else:
                    nd['cmd'] = not nd['cmd']
                if not nd['deps'] and not nd['uptodate'] and rng.random() < 0.5:
                    nd['uptodate'] = [['const', True]]
                tasks[c] = d = norm_def(nd)
                ops.append(['redefine', c, d])
            elif r < 0.72:
                ops.append(['forget', [rng.choice(consumers + sources + calcs)]])
            elif r < 0.80:
                always = True
            elif r < 0.84:
                ops.append(['checker', rng.choice(statuslib.CHECKERS)])
            elif r < 0.90 and sources:
                s = rng.choice(sources)
                if roles[s] == 'producer':
                    ds = json.loads(json.dumps(tasks[s]))
                    kind = rng.random()
                    ds['deps'] = [rng.randrange(nsrc)] if kind < 0.45 else []
                    ds['uptodate'] = [['const', True]] if 0.45 <= kind < 0.6 else []
                    tasks[s] = norm_def(ds)
                    ops.append(['redefine', s, tasks[s]])
            else:
                ops.append(['delete', rng.randrange(nsrc)] if rng.random() < 0.3 else ['edit', rng.randrange(nsrc), rng.randrange(1, 8)])
        ops.append(run_op(always))
    case = {'backend': rng.choice(statuslib.BACKENDS), 'checker': rng.choice(['md5', 'md5', 'timestamp']),
            'ntasks': ntasks, 'npaths': npaths, 'ops': ops,
            'scramble': rng.choice([0, rng.randrange(1, 90000)])}
    fs = rng.choice([0, 0, 1, 2])
    if fs:
        case['fstyle'] = fs
    fmt = rng.choice(['old', 'old', 'new', 'both'])
    if fmt != 'old':
        case['fmt'] = fmt
    return case


EXH_LETTERS = 'abdefgku'


def exhaustive_cases(maxlen, sample=None, rng=None):
    """small-scope tier: one consumer over two files; every word of <= maxlen letters, each letter = one reason to run
    followed by `doit run`:  a run --always | b edit f1 | d toggle f1 in file_dep | e edit f0 | f toggle f0 in file_dep
    | g forget | k switch checker | u toggle a false uptodate item.  Backend / runner / cmd-action rotate."""
    words = ['']
    out = []
    for _ in range(maxlen):
        words = [w + a for w in words for a in EXH_LETTERS]
        out += words
    if sample is not None and len(out) > sample:
        short = [w for w in out if len(w) < maxlen]
        longw = [w for w in out if len(w) == maxlen]
        rng.shuffle(longw)
        out = short + longw[:max(0, sample - len(short))]
    cases = []
    for n, w in enumerate(out):
        d = {'deps': [0], 'targets': [], 'uptodate': [], 'cmd': n % 5 == 4}
        ck = statuslib.CHECKERS[(n // 3) % 2]
        ops = [['edit', 0, 1], ['edit', 1, 2], ['redefine', 0, dict(d)], ['run', {'plan': {}}]]
        par = [None, None, 'thread', 'process'][(n // 7) % 4]
        cid = 3
        for a in w:
            always = False
            if a == 'a':
                always = True
            elif a in 'be':
                cid += 1
                ops.append(['edit', 0 if a == 'e' else 1, cid])
            elif a in 'df':
                q = 0 if a == 'f' else 1
                d['deps'] = [x for x in d['deps'] if x != q] if q in d['deps'] else d['deps'] + [q]
                if not d['deps'] and not d['uptodate']:
                    pass
                ops.append(['redefine', 0, json.loads(json.dumps(d))])
            elif a == 'g':
                ops.append(['forget', [0]])
            elif a == 'k':
                ck = 'timestamp' if ck == 'md5' else 'md5'
                ops.append(['checker', ck])
            elif a == 'u':
                d['uptodate'] = [] if d['uptodate'] else [['const', False]]
                ops.append(['redefine', 0, json.loads(json.dumps(d))])
            ops.append(['run', {'plan': {}, 'always': always, 'par': par}])
        cases.append({'backend': statuslib.BACKENDS[n % 3], 'checker': statuslib.CHECKERS[(n // 3) % 2], 'ntasks': 1,
                      'npaths': 2, 'ops': ops, 'scramble': (n % 4) * 1237, 'word': w})
    return cases


def mutate_case(rng, case):
    c = json.loads(json.dumps(strip(case)))
    ops = c['ops']
    for _ in range(rng.randint(1, 2)):
        r = rng.random()
        runs = [i for i, op in enumerate(ops) if op[0] == 'run']
        if r < 0.35 and runs:
            i = rng.choice(runs)
            ops[i][1]['par'] = rng.choice([None, 'process', 'thread'])
        elif r < 0.55 and runs:
            i = rng.choice(runs)
            ops.insert(i + 1, json.loads(json.dumps(ops[i])))
        elif r < 0.8:
            ops.insert(rng.randrange(len(ops) + 1), rng.choice([['touch', 0], ['edit', 0, rng.randrange(1, 8)]]))
        else:
            c['checker'] = rng.choice(statuslib.CHECKERS)
    c['backend'] = rng.choice(statuslib.BACKENDS)
    return c


# ----------------------------------------------------------------------------------------------
# the check

def nontrivial(v):
    return v.compared_late > 0 and any(n >= 2 for n in getattr(v, 'n_exec', {}).values())


def process_batch(batch):
    statuslib.allow_children()
    st = common.WorkerStats()
    cases = [strip(c) for _, c in batch]
    verdicts = evaluate(cases)
    shrunk = 0
    for (origin, _), case, v in zip(batch, cases, verdicts):
        st.case({'history': render(case)}, nontrivial(v))
        st.traces += 1
        st.count('origin:' + origin)
        st.count('backend:' + case['backend'])
        st.count('checker0:' + case['checker'])
        st.count('tasks:%d' % case['ntasks'])
        for op in case['ops']:
            st.count('op:' + op[0])
        for k, n in v.counts.items():
            st.count(k, n)
        if v.violations or v.divergence:
            # an alarm must be reproducible (a loaded machine can make one doit invocation fail for unrelated reasons)
            v1 = evaluate([case])[0]
            if bool(v1.violations) != bool(v.violations) or bool(v1.divergence) != bool(v.divergence):
                st.count('flaky:not-reproduced')
                v = v1
        for x in v.violations:
            known = [k for k, sig in SIGNATURES.items() if sig({'violation': x})]
            small = case
            if not known and shrunk < 2:
                shrunk += 1
                kind = x['kind']
                small = shrink(case, lambda c: any(y['kind'] == kind for y in unknown_violations(evaluate([strip(c)])[0])))
                v2 = evaluate([small])[0]
                xs = [y for y in unknown_violations(v2) if y['kind'] == kind]
                x = xs[0] if xs else x
            st.violation({'case': small, 'rendered': render(small), 'violation': x, 'origin': origin},
                         'monitor:' + x['kind'], x['what'])
        if v.divergence and not v.violations:
            i, what, impl, model = v.divergence
            st.divergence({'case': case, 'rendered': render(case), 'at_op': i, 'impl': impl, 'model': model,
                           'origin': origin}, 'correspondence M2/Inputs: ' + what)
    return st


def random_for(ctx, i):
    import random
    return random.Random(common.canon([ctx.seed, getattr(ctx, 'seed_shift', 0), ctx.prop, i]))


def run(ctx):
    quick = ctx.tier == 'quick'
    n_random = (220 if quick else 4000) * ctx.boost
    items = []
    corpus = [(n, c) for n, c in common.load_corpus('C10')]
    for name, c in corpus:
        if c.get('matrix'):
            for b in statuslib.BACKENDS:
                for par in (None, 'process', 'thread'):
                    cc = json.loads(json.dumps(strip(c)))
                    cc['backend'] = b
                    for op in cc['ops']:
                        if op[0] == 'run':
                            op[1]['par'] = par
                    items.append(('corpus', cc))
        else:
            items.append(('corpus', c))
    exh_len = 2 if quick and ctx.boost == 1 else 3
    ex = exhaustive_cases(exh_len) if not quick else \
        exhaustive_cases(3, sample=(150 if ctx.boost == 1 else 584), rng=random_for(ctx, 'exh'))
    ctx.extra['exhaustive_small_scope'] = {'alphabet': len(EXH_LETTERS), 'max_len': 3 if ex else 0, 'histories': len(ex),
                                           'complete_up_to_len': 3 if (not quick or ctx.boost > 1) else 2}
    for c in ex:
        items.append(('exhaustive', c))
    for i in range(n_random):
        r = random_for(ctx, i)
        if corpus and r.random() < 0.12:
            items.append(('corpus-mutation', mutate_case(r, r.choice(corpus)[1])))
        else:
            par = r.random() < 0.3
            items.append(('random-parallel' if par else 'random', gen_case(r, parallel=par)))
    size = 8
    batches = [items[i:i + size] for i in range(0, len(items), size)]
    per_round = common.NCPU * 2
    done = 0
    for r0 in range(0, len(batches), per_round):
        if r0 > 0 and ctx.time_left() <= 0:
            break
        for st in common.pmap(process_batch, batches[r0:r0 + per_round]):
            st.merge_into(ctx)
        done = min(len(batches), r0 + per_round)
        if len(ctx.violations) >= 5:
            break
    left = sum(len(b) for b in batches[done:])
    ctx.extra['histories_planned'] = len(items)
    ctx.extra['histories_not_run_budget_exhausted'] = left
    if left:
        ctx.note('time budget of the tier used up: %d of %d planned histories were not run (the corpus always runs '
                 'first)' % (left, len(items)))


def search(ctx):
    ctx.seed_shift = 7919
    run(ctx)


def replay(ctx, data):
    w = data.get('witness') or {}
    case = w.get('case')
    if not case:
        print('nothing to replay (no failing input was found): %s' % data.get('note'))
        return False
    case = strip(case)
    print('\n'.join(render(case)))
    v = evaluate([case])[0]
    for i, o in enumerate(v.obs):
        if o['kind'] == 'run':
            per, order = outcomes(o['events'])
            print('  op %d: doit run -> exit %s: %s' % (i, o['code'], ', '.join('%s %s' % (n, classify(per[n])) for n in order)))
            for t, kw in sorted(o['kwargs'].items()):
                print('        %s received changed=%s dependencies=%s targets=%s args=%s'
                      % (tname(t), kw['changed'], sorted(kw['dependencies']), kw['targets'], kw['args']))
    for x in v.violations:
        known = [k for k, sig in SIGNATURES.items() if sig({'violation': x})]
        print('monitor false (%s)%s: %s' % (x['kind'], ' [open finding %s]' % known[0] if known else '', x['what']))
    print('correspondence:', v.divergence)
    bad = unknown_violations(v)
    if w.get('violation') is not None:
        return not bad
    return not bad and not v.divergence
