"""C03 -- a stale task is never skipped   (model M2 "status", DESIGN §4 M2, §5 C03)

(T) lean/DoitModel/Props/C03.lean: C03_sound (every history, every prefix, any number of tasks/files, both checkers,
    repaired deps test), C03_skip_is_justified, C03_md5_content, C03_pinned_counterexample (F-C03 on the pinned test),
    C03_mtime_preserving_counterexample (why the checker's premise is a hypothesis).
(K) histories (edit/touch/delete, redefinition, runs with failures/--always/--continue/selection, forget, ignore,
    reset-dep, checker switches) are executed by the real doit in-process on real files with every backend and both
    checkers; per processed task the outcome (ignored / up-to-date / executed ok / failed / dependency error / error
    while saving / internal crash) and after every op the logical DB content are compared with the Lean model.
(P) every `skip_uptodate t` of the implementation (reset-dep's `skip t` is evaluated too, as information only) must
    satisfy the Lean predicate
    `specUpToDate`, evaluated by the driver's ghost machine from what the implementation was *seen* to execute --
    never from the DB.
Shared machinery: harness/statuslib.py.
"""
import statuslib

META = {
    'property': 'C03',
    'lean_props': ['DoitModel.Props.C03'],
    'level': 'proof',
    'budget': {'quick': 25, 'thorough': 420},
    'anchors': ['doit/dependency.py::Dependency.get_status', 'doit/dependency.py::Dependency.save_success',
                'doit/dependency.py::Dependency.remove_success', 'doit/dependency.py::Dependency.get_values',
                'doit/dependency.py::Dependency.get_result', 'doit/dependency.py::Dependency.ignore',
                'doit/dependency.py::Dependency.status_is_ignore',
                'doit/dependency.py::MD5Checker', 'doit/dependency.py::TimestampChecker',
                'doit/dependency.py::DependencyStatus',
                'doit/runner.py::Runner.select_task', 'doit/runner.py::Runner.process_task_result',
                'doit/runner.py::Runner._handle_task_error',
                'doit/task.py::result_dep', 'doit/task.py::Task._init_uptodate', 'doit/task.py::Task.save_extra_values',
                'doit/tools.py::run_once', 'doit/tools.py::config_changed',
                'doit/cmd_forget.py::Forget._execute', 'doit/cmd_resetdep.py::ResetDep._execute',
                'doit/cmd_ignore.py::Ignore._execute'],
    'technique': 'Lean 4 invariant proof over histories (record agrees with a ghost shadow of the last recorded '
                 'successful execution; get_status decides exactly the specification) + differential correspondence '
                 'against real doit runs on real files + ghost-machine monitor on the observed reporter stream',
    'design_ref': '§5 C03, §4 M2',
    'level_text': 'Machine-checked: for every finite history (any number of tasks and files; edits, touches, deletions, '
                  'redefinitions, successful/failing/always/partial runs, failures before execution, forget, ignore, '
                  'reset-dep, status-only commands, checker switches) and every prefix of it, a task whose get_status is '
                  '"up-to-date" satisfies the specification relative to the last recorded successful execution (same '
                  'dep set, every dep present and unmodified by the configured checker\'s rule, same checker, targets '
                  'present, all uptodate items true, >= 1 file_dep or evaluated item); under md5 the dependencies even '
                  'have the very content that execution saw.  The model is tied to doit on every run by executing '
                  'generated and exhaustive small-scope histories with the real code on real files (3 backends x 2 '
                  'checkers) and diffing outcomes and DB content; the monitor checks every real skip against the Lean '
                  'specification computed from a ghost state that never reads the DB.',
    'level_note': 'Hypothesis Faithful = the checker\'s documented premise (no content change under an unchanged '
                  'mtime); without it the statement is false of the code (C03_mtime_preserving_counterexample), such '
                  'histories run as an informational stream only.  A TypeError of MD5Checker on a state saved by '
                  'TimestampChecker (reachable by a checker switch combined with an early exit of get_status) is an '
                  'explicit absorbing `crash` of the model; see findings/pending/C03-md5-on-timestamp-state.md.  '
                  'Selection and ordering of tasks inside one run is M1/M8 (C01, C12): the model replays the tasks in '
                  'the order the implementation processed them.',
    'rule': 'histories of 4-14 ops after a set-up prefix over 1-4 tasks (target->file_dep and result_dep edges to '
            'earlier tasks) and 1-3 source files; redefinition weighted x3 and mostly a variation of the current '
            'definition (dep removed / re-added / reordered, uptodate toggled); 15% mutations of corpus seeds; '
            'exhaustive tier over a 9-op alphabet on one task; non-trivial = the implementation both skipped and '
            'executed in the history; distinct = distinct rendered history incl. backend and checker',
    'assumptions': ['Faithful: a file\'s content never changes while its mtime stays the same (MD5Checker\'s documented '
                    'premise); mtimes are set by the harness from an integer clock',
                    'md5 is treated as an injective content id',
                    'only dbm.dumb is available as dbm implementation in this sandbox',
                    'uptodate callables are pure functions returning True/False/None; shell items are `true`/`false`'],
    'trusted': ['task ordering/selection inside one `doit run` is taken from the implementation\'s reporter stream '
                '(M1/M8 are other properties)',
                'backends are exercised, not modelled here (C07 proves them equal to the map this model uses)'],
    'models': ['M2'],
}
META['rule'] += ('; fragments: records of tasks sharing a source made to diverge by partial runs / reset-dep / forget, '
                 'a run caused by a false uptodate item while a source has other content followed by an exact restore, '
                 'an action rewriting its own file_dep in place (same or other size) followed by a touch; exhaustive '
                 'families on two tasks sharing a file_dep and on one task with an uptodate item that can turn false; '
                 'calc_dep scenario family (scan -> obj<i>, 3 selection orders x 1-2 consumers x serial/thread/process): '
                 'outside M2, no correspondence, monitor = statement-level Python predicate (every run of the script is '
                 'fully successful, so the set of tasks whose inputs changed since their last successful execution is '
                 'known by construction: skipped => not in the set (C03), executed => in the set (C04)); group scenario '
                 'family with the same kind of monitor: a task generator yielding 0 (EMPTY group) / 1 / 2 sub-tasks as source '
                 'of result_dep and of getargs+task_dep consumers; in the modelled histories 20% of the non-first tasks get '
                 'getargs from an earlier task together with an explicit task_dep on it (= the implicit result_dep item); '
                 'opt-in rich alphabet (statuslib.enrich): user-defined checker classes made at module level / by a factory '
                 'function, uptodate callables returning non-bool values (0, "", [], 1, "x", [0]), the EMPTY file with '
                 'touch / rewrite; scenario families config_changed(dict) (same object over several runs of one process; '
                 'object shared by two tasks over a dict a third task fills at run time) and dict results (tuple / int keys '
                 '/ nested tuple / plain / string) of an always-executed source feeding result_dep and getargs consumers; '
                 'wave 4 (opt-in case keys, modelled, K applies): pathform (file_dep / targets as pathlib objects, mixed str/Path '
                 'spellings of one file), subsec (sub-second mtimes), links (sources are symbolic links to the real file), '
                 'uptodate items written as (fn,), (fn, args), (fn, args, kwargs), magic + positional args, fn(task), fn(), '
                 'partial, bound method, extra defaults, and a user-written UptodateCalculator (= result_dep); monitors-only '
                 'scenario families counted as scenario(monitors-only):* : oddfiles (directory as file_dep / target, dangling '
                 'link as file_dep / target, mtime 0 with checker switch, equal mtimes) and utdtime (tools.timeout int / '
                 'timedelta / 0, check_timestamp_unchanged eq / ge / watched mtime 0, config_changed(dict, encoder=))'
                 '; round 6 (opt-in case key objlife, 30% of the random histories, own random stream; modelled, K applies): doit '
                 'used as a library -- all commands of a history in ONE process with the uptodate helper OBJECTS (result_dep, '
                 'user UptodateCalculator, config_changed, run_once, callables / tuples) created once and reused in the task '
                 'dicts of every load (module: one object per distinct item shared by all tasks; task: one per task and item) '
                 'while results / configs / files change between the commands; the same for the monitors-only families as '
                 'scenario(monitors-only):{utdtime,dictres,group}:*+objects-live-across-commands (tools.timeout, '
                 'check_timestamp_unchanged, config_changed(dict, encoder=) over a dict changed in place, result_dep on a task '
                 'with dict results / on a group)')
META['level_note'] += ('  The ghost `saw` of an execution is the file system AFTER the action ran (what save_success '
                       'reads), so an action that rewrites its own file_dep is judged against the content it left.  '
                       'An exact restore of an older (content, mtime) pair is not in the model\'s alphabet (edits always '
                       'get a fresh mtime): timestamp-checker variants of "restore the old version" are not generated.')


def run(ctx):
    quick = ctx.tier == 'quick'
    n_random = (1000 if quick else 8000) * ctx.boost
    statuslib.run_property(ctx, 'C03', n_random, exh_len=(3 if quick and ctx.boost == 1 else 4 if quick else 5),
                           macro_len=(3 if quick and ctx.boost == 1 else 4),
                           shared_len=(3 if quick and ctx.boost == 1 else 4),
                           utd_len=(3 if quick and ctx.boost == 1 else 4),
                           parallel_share=0.0, n_info=(20 if quick else 300), objlife_share=0.3)


def search(ctx):
    ctx.seed_shift = 7919
    run(ctx)


def replay(ctx, data):
    return statuslib.replay_case(ctx, data, 'C03')
