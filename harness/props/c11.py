"""C11 -- setup-tasks are lazy; teardowns run once, in reverse order   (model M1 + Model/RunTeardown.lean, DESIGN §5 C11)

(T) lean/DoitModel/Props/C11.lean: laziness (the dispatcher is inside the setup stage of a task only while its
    run_status is 'run'; the setup-task's finish report precedes the parent's start) and teardown (per executing entity
    the teardown executions are Runner.teardown over the start order restricted to tasks with teardown) over every
    reachable state of the serial / thread / process transition systems.
(K) the real doit runs generated DAG cases with shared / nested setup-tasks, teardown actions (some failing), DB
    pre-states (up-to-date / ignored / error), failures, all runners; (1) the observable event list must be a trace of
    the base model M1 (driver op "accept" of the run family), (2) the observed teardown executions per entity must equal
    the teardown log of the extended model for the observed start order, and the model's "main process dies" flag must
    equal the implementation's.
    Cases with delayed-created tasks (@create_after): (K) skipped (not expressible in M1), (P) evaluated.
    Runs stopped by an action raising SystemExit / KeyboardInterrupt (oracle `abort`, serial and thread runner): (K)
    skipped (k_skipped:abort_not_in_M1), (P) evaluated -- the teardowns of the started tasks are required although no
    task failure was reported and whether or not `complete` is reported.
(P) the statement itself on the implementation's observations: Lean monitors C11_lazy / C11_setup_before /
    C11_td_exact / C11_td_after (driver, request kind "c11"), cross-checked by Python reference monitors below.
"""
import json
import os
import random
import threading
import time

import common
import runlib

PROP = 'C11'

META = {
    'property': PROP,
    'lean_props': ['DoitModel.Props.C11'],
    'level': 'proof',
    'budget': {'quick': 30, 'thorough': 420},
    'anchors': ['doit/control.py::TaskDispatcher._add_task', 'doit/control.py::TaskDispatcher._node_add_wait_run',
                'doit/control.py::TaskDispatcher._update_waiting', 'doit/control.py::TaskDispatcher._gen_node',
                'doit/control.py::TaskDispatcher._get_next_node',
                'doit/control.py::TaskDispatcher._dispatcher_generator', 'doit/control.py::ExecNode',
                'doit/runner.py::Runner.select_task', 'doit/runner.py::Runner.execute_task',
                'doit/runner.py::Runner.process_task_result', 'doit/runner.py::Runner.run_tasks',
                'doit/runner.py::Runner.teardown', 'doit/runner.py::Runner.finish', 'doit/runner.py::Runner.run_all',
                'doit/runner.py::MReporter', 'doit/runner.py::MRunner.get_next_job',
                'doit/runner.py::MRunner.run_tasks', 'doit/runner.py::MRunner.execute_task_subprocess',
                'doit/task.py::Task.execute_teardown'],
    'technique': 'Lean 4 invariant proofs over the small-step run model extended with the teardown lists of every '
                 'executing entity (all schedules) + trace-acceptance correspondence against the real doit (deterministic '
                 'thread scheduler, token-forced multiprocessing) + teardown-log comparison per entity',
    'design_ref': '§5 C11, §4 M1, §6.3, §6.4',
    'level_text': 'Machine-checked for every reachable state of the run model (serial, thread, process; any number of '
                  'workers, any interleaving): the dispatcher schedules the setup-tasks of a task only while that task\'s '
                  'run_status is "run" (never for an up-to-date, ignored or unmet task), the trace monitor monLazy holds on every '
                  'model trace (every touched task is justified), and a setup-task reports success / '
                  'up-to-date before its parent starts; at the end of every run that reaches finish() the teardown '
                  'executions are exactly Runner.teardown over the tasks with teardown in start order (reverse order, '
                  'once each, a failing one does not remove the others) -- shared list for serial/thread, per worker '
                  'process for -n k (full strength since the repair of the finding process-teardown-failure made by this '
                  'check; the behaviour before it and the pinned thread behaviour are kept as counterexample theorems).',
    'level_note': 'The laziness monitor monLazy is proved of the model (C11_lazy_monitor) under the decidable hypothesis '
                  'Bounded inp nTasks (all task names below the monitor\'s parameter, and a task without actions delivers '
                  'nothing after a failed execution; evaluated on every case: hyp:bounded); deliveries of calc tasks that '
                  'failed after returning values (calcResFail) are part of the monitor and of the theorem; '
                  'for arbitrary nTasks the statement is false (C11_lazy_monitor_full_counterexample: the parameter is also '
                  'the fuel of the monitor\'s closure; an artefact of the monitor, replayed on the real doit).  '
                  'Trusted: Lean kernel; '
                  'doitdrv; the Python harness (generator, recording reporter, instrumented teardown actions, deterministic '
                  'scheduler, token controller).  Monitors: Lean (driver) with a Python cross-check.',
    'rule': 'random DAGs of 3-8 tasks biased to setup / getargs edges with shared and nested setup-tasks, teardown on ~60% '
            'of the tasks (~25% of them failing: return False / raise), oracle per task (run/up-to-date/error, ignored, '
            'ok/failed/error), --continue/--always, selection all/names/targets, runner serial | thread k=1..4 x schedule '
            'policy | process k=2,3; plus namespaces with @create_after creators (with / without executed=) yielding sub-tasks '
            'with teardown -- tasks created at run time reach worker processes as whole pickled Task objects -- under '
            'serial / thread / process k=1..3 (teardown monitors only; K skipped: delayed creation is not in M1); tasks with '
            'equal explicit `setup` get ONE list object in the namespace, and a structured family has several tasks '
            'sharing a setup list with a getargs task, selections without the getargs task; another one a task with '
            'calc_deps + task_deps + setup-tasks (woken several times before it is stepped again); oracle `abort` (~12% of '
            'the serial / thread cases, one task): the task\'s python-action ends with raise SystemExit / KeyboardInterrupt '
            '(sys.exit() / Ctrl-C inside an action; leaves run_tasks, thread runner: forwarded by the worker and re-raised '
            'by the main thread) -- the teardown statement is then evaluated whether or not the implementation reports '
            '`complete` (monitors only, counters c11:abort:*, k_skipped:abort_not_in_M1); exhaustive tier: every DAG on <=3 tasks with task_dep/setup edges x every completion '
            'order with 2 worker threads (thorough: <=4 tasks); non-trivial = a setup edge or a teardown task in the case and at least one task '
            'reported; distinct = distinct rendered case + schedule',
    'assumptions': ['actions touch only their own targets (granularity assumption of M1 for thread mode)',
                    'process-mode runs are sampled (real OS scheduling; completion order forced, pick-up order not)',
                    'teardown statement is evaluated for runs that reach finish() without an internal error of the '
                    'dispatcher (cyclic graphs / crashes are C09\'s business)'],
    'trusted': ['deterministic thread scheduler and token controller of harness/runlib.py',
                'own dependency expansion runlib.expand (getargs -> setup edges)'],
    'models': ['M1'],
}

KEYS = ['C11_lazy', 'C11_setup_before', 'C11_td_exact', 'C11_td_after']
EVENT_KINDS = ('get_status', 'skip_ignore', 'skip_uptodate', 'execute', 'success', 'failure', 'teardown', 'start', 'end')

# ======================================================================================================
# instrumented teardown actions (wrapping runlib.build_namespace; runlib itself is not edited)
# ======================================================================================================

_orig_build_namespace = runlib.build_namespace


def _make_td(rec, n, fail, who):
    def teardown():
        rec.ev(['td', n, who()])
        if fail == 'raise':
            raise RuntimeError('oracle says teardown error')
        if fail:
            return False
    teardown.__name__ = 'td_%d' % n
    return teardown


ABORTS = {'SystemExit': SystemExit, 'KeyboardInterrupt': KeyboardInterrupt}


def _make_abort(rec, n, first, kind):
    """first python-action of a task whose oracle says `abort`: the generated action (start event, checkpoint, targets,
    end event) and then an exception that is NOT an `Exception`: a script-style sys.exit('fatal ...') / a Ctrl-C that
    arrives inside the action.  PythonAction lets it through, it leaves Runner.run_tasks (thread runner: forwarded by the
    worker as {'exit': ...} and raised again by the main thread): the run is stopped by this task."""
    def action():
        first()
        rec.ev(['abort', n, kind])
        if kind == 'SystemExit':
            raise SystemExit('task %d: fatal error, giving up' % n)
        raise ABORTS[kind]()
    action.__name__ = first.__name__
    return action


def _build_namespace(case, rec):
    if case.get('c11d'):
        return build_delayed_namespace(case, rec)
    ns = _orig_build_namespace(case, rec)
    if not case.get('c11'):
        return ns
    gen = ns['task_gen']
    tasks = case['tasks']
    idx = runlib.task_index(case)
    main_pid = os.getpid()

    def who():
        if rec.mode == 'file':
            return -1 if os.getpid() == main_pid else rec.worker
        w = getattr(threading.current_thread(), '_sched_id', None)
        return w if isinstance(w, int) else -1

    class C11Reporter(runlib.RecReporter):
        def cleanup_error(self, exception):
            msg = ''
            try:
                msg = exception.get_msg()
            except Exception:  # noqa
                msg = str(exception)
            name = None
            if "task '" in msg:
                name = msg.split("task '", 1)[1].split("'", 1)[0]
            rec.ev(['cleanup_error', rec.ids.get(name, name), who()])

    shared = {}     # one list OBJECT for all tasks whose explicit `setup` has the same content (a dodo file doing
    #                 `COMMON = ['env']; ... 'setup': COMMON`): doit must not let one task's implicit additions
    #                 (getargs -> setup-task) leak into the others

    def task_gen():
        for d in gen():
            nm = d['basename'] if d.get('name') is None else '%s:%s' % (d['basename'], d['name'])
            n = idx.get(nm)
            if n is not None and 'teardown' in d:
                d['teardown'] = [_make_td(rec, n, tasks[n].get('td_fail'), who)]
            if d.get('setup'):
                d['setup'] = shared.setdefault(tuple(d['setup']), d['setup'])
            if n is not None and tasks[n].get('abort') and d.get('actions'):
                d['actions'] = [_make_abort(rec, n, d['actions'][0], tasks[n]['abort'])] + list(d['actions'][1:])
            yield d
    ns['task_gen'] = task_gen
    cfg = dict(ns['DOIT_CONFIG'])
    cfg['reporter'] = C11Reporter
    ns['DOIT_CONFIG'] = cfg
    return ns


runlib.build_namespace = _build_namespace

_orig_run_impl = runlib.run_impl


def _run_impl(case, watchdog=None, keep_raw=True):
    """the raw recorder events carry the teardown executions: always keep them (also inside enumerate_schedules)"""
    return _orig_run_impl(case, watchdog, True)


runlib.run_impl = _run_impl


# ======================================================================================================
# observations
# ======================================================================================================

def mixed_of(case, obs):
    """merged chronological observation: ["start",n,w] ["end",n,w] ["td",n,who] ["tderr",n,who]"""
    out = []
    proc = case['runner'] == 'process'
    late_err = []
    for e in obs.get('raw') or []:
        if e[0] in ('start', 'end'):
            out.append([e[0], e[1], e[2]])
        elif e[0] == 'td':
            out.append(['td', e[1], e[2]])
        elif e[0] == 'cleanup_error':
            if proc:
                late_err.append(e[1])
            else:
                out.append(['tderr', e[1], e[2]])
    # process runner: error reports travel through a queue; attach each to the execution it belongs to
    for n in late_err:
        for i in range(len(out) - 1, -1, -1):
            if out[i][0] == 'td' and out[i][1] == n:
                out.insert(i + 1, ['tderr', n, out[i][2]])
                break
        else:
            out.append(['tderr', n, -1])
    return out


def td_applicable(case, obs):
    """the teardown half speaks about runs that reach finish(): normally or stopped by a task failure -- or stopped by a
    task whose action left the runner as SystemExit / KeyboardInterrupt (oracle `abort`): the statement then does NOT
    wait for the implementation to say 'complete' (a run_all that forgets finish() on that path says nothing at all)"""
    if abort_fired(obs):
        return True
    if not any(e[0] == 'complete' for e in obs['trace']) and obs['err'] is None:
        return False
    if obs['err'] is None:
        return True
    if case['runner'] == 'serial':
        return any(e[0] == 'complete' for e in obs['trace'])
    # a parallel run that died: a death in the presence of failing teardowns under the process runner is C11's business
    # (F-C11b: the worker's teardown loop raised and took the run with it)
    return case['runner'] == 'process' and str(obs['err']).startswith('crash') and \
        any(t.get('td_fail') for t in case['tasks'])


def abort_fired(obs):
    return any(e[0] == 'abort' for e in obs.get('raw') or [])


def start_order(case, mixed, worker=None):
    return [e[1] for e in mixed if e[0] == 'start' and case['tasks'][e[1]]['teardown']
            and (worker is None or e[2] == worker)]


def teardown_run(case, who, order):
    out = []
    for n in reversed(order):
        out.append(['td', n, who])
        if case['tasks'][n].get('td_fail'):
            out.append(['tderr', n, who])
    return out


def py_monitor_td(case, mixed):
    """C11_td_exact / C11_td_after on the merged observation (Python reference of monTdExact / monTdAfter)"""
    res = {'C11_td_exact': True, 'C11_td_after': True, 'witness': {}}
    tdlog = [e for e in mixed if e[0] in ('td', 'tderr')]
    if case['runner'] == 'process':
        k = case['nproc']
        if any(e[2] == -1 or e[2] >= k for e in tdlog):
            res['C11_td_exact'] = False
            res['witness']['td_by'] = [e for e in tdlog if e[2] == -1 or e[2] >= k][:3]
        for w in range(k):
            got = [e for e in tdlog if e[2] == w]
            want = teardown_run(case, w, start_order(case, mixed, w))
            if got != want and res['C11_td_exact']:
                res['C11_td_exact'] = False
                res['witness']['teardown'] = {'worker': w, 'observed': got, 'required': want}
            seen = False
            for e in mixed:
                if e[0] in ('td', 'tderr') and e[2] == w:
                    seen = True
                elif seen and e[0] in ('start', 'end') and e[2] == w and res['C11_td_after']:
                    res['C11_td_after'] = False
                    res['witness']['after'] = {'worker': w, 'event': e}
    else:
        got = [[e[0], e[1], -1] for e in tdlog]
        want = teardown_run(case, -1, start_order(case, mixed))
        if got != want:
            res['C11_td_exact'] = False
            res['witness']['teardown'] = {'observed': tdlog, 'required': want}
        seen = False
        for e in mixed:
            if e[0] in ('td', 'tderr'):
                seen = True
            elif seen and e[0] in ('start', 'end'):
                res['C11_td_after'] = False
                res['witness']['after'] = {'event': e}
                break
    return res


def _first_mention(trace, d):
    for i, e in enumerate(trace):
        if e[0] in EVENT_KINDS and e[1] == d:
            return i
    return None


def py_monitor_lazy(case, trace):
    """C11_lazy / C11_setup_before on the canonical trace (Python reference of monLazy / monSetupBefore)"""
    model = case.get('model') or runlib.expand(case)
    res = {'C11_lazy': True, 'C11_setup_before': True, 'witness': {}}
    n = model['n']
    terminal = runlib.TERMINAL

    def run_pending(p, upto):
        pre = trace[:upto]
        if not any(e[0] == 'get_status' and e[1] == p for e in pre):
            return False
        if any(e[0] in terminal and e[1] == p for e in pre):
            return False
        t = case['tasks'][p]
        if t['ignored'] or t['status'] == 'error' or (t['status'] == 'utd' and not case.get('always')):
            return False
        fin = set(e[1] for e in pre if e[0] in ('success', 'skip_uptodate'))
        return all(d in fin for d in first_stage_deps(model, p, fin))

    sel = [s for s in _effective_sel(case, model) if s >= 0]
    just = set()
    todo = list(sel)
    fin_all = set(e[1] for e in trace if e[0] in ('success', 'skip_uptodate'))
    failed_run = set(e[1] for e in trace if e[0] == 'failure') & set(e[1] for e in trace if e[0] == 'start')
    while todo:
        t = todo.pop()
        if t in just or not (0 <= t < n):
            continue
        just.add(t)
        nxt = first_stage_deps(model, t, fin_all, failed_run)
        for d in model['setup'][t]:
            i = _first_mention(trace, d)
            if run_pending(t, len(trace) if i is None else i):
                nxt.add(d)
        todo += list(nxt)
    for d in range(n):
        if _first_mention(trace, d) is not None and d not in just:
            res['C11_lazy'] = False
            res['witness']['not_needed'] = {'task': d, 'justified': sorted(just)}
            break
    fin = set()
    for i, e in enumerate(trace):
        if e[0] in ('success', 'skip_uptodate'):
            fin.add(e[1])
        elif e[0] == 'start' and isinstance(e[1], int) and e[1] < n:
            for d in model['setup'][e[1]]:
                if d not in fin and res['C11_setup_before']:
                    res['C11_setup_before'] = False
                    res['witness']['setup_late'] = {'task': e[1], 'setup_task': d, 'index': i}
    return res


def first_stage_deps(model, t, finished, failed_run=()):
    """dependencies of the first stage of `t` (everything but setup-tasks): task_dep, calc_dep and what the calc_dep
    tasks in `finished` delivered, transitively through delivered calc_deps (model['calcRes'] is non-null only for
    tasks that do deliver when they are executed / found up-to-date)"""
    deps = set(model['taskDep'][t]) | set(model['calcDep'][t])
    todo = list(model['calcDep'][t])
    seen = set()
    while todo:
        c = todo.pop()
        if c in seen:
            continue
        seen.add(c)
        if c in finished:
            cr = model['calcRes'][c]
        elif c in failed_run:
            # executed and reported failed: doit still hands over what its actions returned before the failing one
            cr = (model.get('calcResFail') or [None] * model['n'])[c]
        else:
            cr = None
        if not cr:
            continue
        deps |= set(cr['task']) | set(cr['file']) | set(cr['calc'])
        todo += list(cr['calc'])
    deps.discard(-1)
    return deps


def _effective_sel(case, model):
    return case.get('_sel_impl') or model['sel']


def py_monitors(case, obs, mixed):
    flags, wit = {}, {}
    if not case.get('c11d'):     # delayed-created tasks: the dependency structure is not expressible in M1
        m = py_monitor_lazy(case, obs['trace'])
        flags.update({k: m[k] for k in ('C11_lazy', 'C11_setup_before')})
        wit.update(m['witness'])
    if td_applicable(case, obs):
        m = py_monitor_td(case, mixed)
        flags.update({k: m[k] for k in ('C11_td_exact', 'C11_td_after')})
        wit.update(m['witness'])
    return flags, wit


# ======================================================================================================
# Lean side
# ======================================================================================================

def c11_request(case, obs, mixed):
    req = runlib.model_request(case, obs)
    req['model'] = 'c11'
    req.pop('op', None)
    req['tdFail'] = [bool(t.get('td_fail')) for t in case['tasks']]
    req['mixed'] = mixed
    req['nworkers'] = case['nproc'] if case['runner'] == 'process' else 0
    return req


def ask(triples):
    """[(case, obs, mixed)] -> [(base answer, c11 answer)]"""
    if not triples:
        return []
    base = runlib.ask_model([(c, o) for c, o, _ in triples])
    try:
        mine = common.drv_batch([c11_request(c, o, m) for c, o, m in triples])
    except Exception as ex:  # noqa
        mine = [{'error': 'driver failed: %s' % str(ex)[:200]} for _ in triples]
    return list(zip(base, mine))


def sig_process_abort_no_teardown(witness):
    """F-C11c: process runner, the run was stopped by an action raising SystemExit / KeyboardInterrupt (the `abort` task
    started), and the only thing wrong is that teardowns of started tasks are MISSING (observed is a sub-sequence of the
    required per-worker log; nothing extra, nothing out of order, nothing twice)"""
    case = witness.get('case') or {}
    if case.get('runner') != 'process' or witness.get('failed_monitors') != ['C11_td_exact']:
        return False
    ab = [i for i, t in enumerate(case.get('tasks') or []) if t.get('abort')]
    mixed = witness.get('mixed') or []
    if len(ab) != 1 or not any(e[0] == 'start' and e[1] == ab[0] for e in mixed):
        return False
    for w in range(case['nproc']):
        got = [e for e in mixed if e[0] in ('td', 'tderr') and e[2] == w]
        it = iter(teardown_run(case, w, start_order(case, mixed, w)))
        if not all(any(x == g for x in it) for g in got):
            return False
    return not any(e[0] in ('td', 'tderr') and not (0 <= e[2] < case['nproc']) for e in mixed)


SIGNATURES = {'process-abort-no-teardown': sig_process_abort_no_teardown}


# ======================================================================================================
# generator
# ======================================================================================================

KNOBS = {'n_min': 3, 'n_max': 8, 'p_teardown': 0.6, 'p_utd': 0.24, 'p_ignored': 0.09, 'p_error': 0.05,
         'p_failed': 0.12, 'p_exc': 0.06, 'p_dup_sel': 0.05, 'p_shared': 0.6, 'p_calc_then_fail': 0.1,
         'weights': {'task_dep': 22, 'setup': 34, 'calc_dep': 14, 'file': 8, 'getargs': 10, 'result_dep': 4,
                     'getargs_setup': 6}}


def decorate(case, rng, p_td_fail=0.25, p_abort=0.0):
    case['c11'] = True
    for t in case['tasks']:
        if t['kind'] == 'group':
            continue
        if t['teardown'] and rng.random() < p_td_fail:
            t['td_fail'] = rng.choice([True, True, 'raise'])
    # drawn after everything else: the cases without `abort` are the ones generated before this oracle existed
    if p_abort and rng.random() < p_abort:
        cand = [t for t in case['tasks'] if t['kind'] != 'group' and not t['ignored'] and t['status'] == 'run'] or \
            [t for t in case['tasks'] if t['kind'] != 'group']
        rng.choice(cand)['abort'] = rng.choice(['SystemExit', 'SystemExit', 'KeyboardInterrupt'])
    return case


def gen_case(seed, knobs):
    rng = random.Random(seed)
    knobs = dict(knobs)
    pol = knobs.pop('gen_policy', False)
    p_td_fail = knobs.pop('p_td_fail', 0.25)
    p_abort = knobs.pop('p_abort', 0.0)
    c = runlib.gen_case(rng, **knobs)
    if pol and c['runner'] == 'thread':
        c['policy'] = runlib.gen_policy(rng, c['nproc'])
    decorate(c, rng, p_td_fail, p_abort)
    c['seed'] = seed
    return c


def gen_shared_setup(seed, knobs):
    """structured family: several tasks use the same `setup` list (one list object in the namespace), one of them also
    has getargs (an implicit setup-task of that task only); random oracle, selection (often without the getargs task),
    runner.  Plain runlib case format: (K) and all monitors apply."""
    rng = random.Random(seed)
    T = runlib._new_task
    envs = [T('env%d' % i) for i in range(rng.choice([1, 1, 2]))]
    common = [e['name'] for e in envs]
    ver = T('version')
    build = T('build')
    build['setup'] = list(common)
    build['getargs'] = [['a0', 'version', 'v']]
    sharers = []
    for i in range(rng.choice([1, 1, 2])):
        d = T(['docs', 'lint'][i])
        d['setup'] = list(common)
        sharers.append(d)
    extra = []
    if rng.random() < 0.4:
        x = T('pkg')
        x['task_dep'] = [rng.choice(['build'] + [d['name'] for d in sharers])]
        extra.append(x)
    tasks = envs + [ver, build] + sharers + extra
    for t in tasks:
        t['teardown'] = rng.random() < 0.5
        if t['name'] != 'version' and rng.random() < 0.12:
            t['outcome'] = rng.choice(['failed', 'error'])
        if t['name'] not in ('version', 'build') and not t['name'].startswith('env') and rng.random() < 0.15:
            t['status'] = 'utd'
        if t['name'] != 'build' and rng.random() < 0.05:
            t['ignored'] = True
    rng.shuffle(tasks)
    runner = knobs.get('runner', 'serial')
    names = [t['name'] for t in tasks]
    pool = [d['name'] for d in sharers] * 3 + [x['name'] for x in extra] + common
    sel = list(dict.fromkeys(rng.choice(pool) for _ in range(rng.choice([1, 1, 2]))))
    if rng.random() < 0.2:
        sel = None if rng.random() < 0.5 else list(dict.fromkeys(sel + ['build']))
    case = {'tasks': tasks, 'sel': sel, 'cont': rng.random() < 0.4, 'always': False, 'runner': runner,
            'nproc': 0 if runner == 'serial' else rng.randint(1, 3),
            'policy': runlib.gen_policy(rng, 3) if runner == 'thread' else {'kind': 'seeded', 'seed': rng.randrange(1 << 30)},
            'family': 'shared_setup_list', 'seed': seed}
    assert set(names) >= set(sel or [])
    case['model'] = runlib.expand(case)
    decorate(case, rng, 0.15, 0.1)
    return case


def gen_calc_task_setup(seed, knobs):
    """structured family: a task with calc_dep(s) + task_dep(s) + setup-task(s) (woken several times before it is
    stepped again; C01-r4-ready-queue-stale-duplicate), random oracle / extras / runner"""
    rng = random.Random(seed)
    T = runlib._new_task
    calcs = [T('c%d' % i) for i in range(rng.choice([1, 1, 2]))]
    deps = [T('t%d' % i) for i in range(rng.choice([1, 1, 2]))]
    sets = [T('s%d' % i) for i in range(rng.choice([1, 1, 2]))]
    w = T('w')
    w['calc_dep'] = [c['name'] for c in calcs]
    w['task_dep'] = [d['name'] for d in deps]
    w['setup'] = [x['name'] for x in sets]
    extra = []
    if rng.random() < 0.4:
        x = T('x')
        extra.append(x)
        calcs[0]['calc_res'] = {'task_dep': ['x'], 'file_dep': [], 'calc_dep': []}
    if rng.random() < 0.3:
        g = T('g')
        extra.append(g)
        w['getargs'] = [['a0', 'g', 'v']]
    if rng.random() < 0.3 and len(deps) > 1:
        deps[1]['task_dep'] = [deps[0]['name']]
    tasks = calcs + deps + sets + extra + [w]
    for t in tasks:
        t['teardown'] = rng.random() < 0.5
        if t['name'] != 'w' and t['calc_res'] is None and rng.random() < 0.08:
            t['outcome'] = 'failed'
        if t['name'][0] in 'ts' and rng.random() < 0.12:
            t['status'] = 'utd'
    rng.shuffle(tasks)
    runner = knobs.get('runner', 'serial')
    sel = rng.choice([['w'], ['w'], None, ['w', sets[0]['name']], [deps[0]['name'], 'w']])
    case = {'tasks': tasks, 'sel': sel, 'cont': rng.random() < 0.4, 'always': False, 'runner': runner,
            'nproc': 0 if runner == 'serial' else rng.randint(1, 3),
            'policy': runlib.gen_policy(rng, 3) if runner == 'thread' else {'kind': 'seeded', 'seed': rng.randrange(1 << 30)},
            'family': 'calc_task_setup', 'seed': seed}
    case['model'] = runlib.expand(case)
    decorate(case, rng, 0.1, 0.1)
    return case


def nontrivial(case, obs):
    m = case.get('model') or runlib.expand(case)
    feature = any(m['setup'][i] for i in range(m['n'])) or any(t['teardown'] for t in case['tasks'])
    return bool(feature) and any(e[0] in runlib.TERMINAL for e in obs['trace'])


def count_case(st, case, obs, mixed):
    runlib.count_case(st, case, obs)
    if case.get('c11d'):
        st.count('c11d:cases')
        st.count('c11d:creators', len(case['creators']))
        st.count('c11d:creator_executed=%s' % ('task' if any(cr.get('executed') for cr in case['creators']) else 'none'))
        delayed = set(i for i, t in enumerate(case['tasks']) if t.get('delayed') and t['kind'] == 'sub')
        st.count('c11d:delayed_tasks_started', sum(1 for e in mixed if e[0] == 'start' and e[1] in delayed))
        st.count('c11d:delayed_teardowns_executed', sum(1 for e in mixed if e[0] == 'td' and e[1] in delayed))
        if case['runner'] == 'process' and any(e[0] == 'td' and e[1] in delayed and e[2] >= 0 for e in mixed):
            st.count('c11d:delayed_teardown_in_worker_process')
    m = case.get('model') or runlib.expand(case)
    n = m['n']
    parents = [i for i in range(n) if m['setup'][i]]
    st.count('c11:setup_parents', len(parents))
    if case.get('family'):
        st.count('c11:family:%s' % case['family'])
    explicit = [tuple(t['setup']) for t in case['tasks'] if t.get('setup')]
    if len(explicit) != len(set(explicit)):
        st.count('c11:setup_list_object_shared')
        if any(t.get('setup') and t.get('getargs') and explicit.count(tuple(t['setup'])) > 1 for t in case['tasks']):
            st.count('c11:setup_list_shared_with_getargs_task')
    for i in parents:
        t = case['tasks'][i]
        kind = 'ignored' if t['ignored'] else t['status']
        st.count('c11:setup_parent:%s' % kind)
        if any(m['setup'][d] for d in m['setup'][i]):
            st.count('c11:nested_setup')
    users = {}
    for i in parents:
        for d in set(m['setup'][i]):
            users[d] = users.get(d, 0) + 1
    if any(v >= 2 for v in users.values()):
        st.count('c11:shared_setup_task')
    touched = set(e[1] for e in obs['trace'] if e[0] in EVENT_KINDS)
    lazy_skipped = [d for d in users if d not in touched]
    if lazy_skipped:
        st.count('c11:setup_task_never_touched', len(lazy_skipped))
    ntd = sum(1 for e in mixed if e[0] == 'td')
    st.count('c11:td_executions', ntd)
    st.count('c11:td_per_run:%s' % (ntd if ntd < 4 else '4+'))
    st.count('c11:td_errors', sum(1 for e in mixed if e[0] == 'tderr'))
    if any(t.get('td_fail') for t in case['tasks']):
        st.count('c11:case_has_failing_teardown')
    if td_applicable(case, obs):
        st.count('c11:td_statement_evaluated')
    if case['runner'] == 'process':
        st.count('c11:td_entities:%d' % len(set(e[2] for e in mixed if e[0] == 'td')))
    if any(e[0] == 'failure' for e in obs['trace']) and not case.get('cont') and ntd:
        st.count('c11:teardown_after_stop_on_failure')
    ab = [t['abort'] for t in case['tasks'] if t.get('abort')]
    if ab:
        st.count('c11:abort:cases')
        if abort_fired(obs):
            st.count('c11:abort:fired')
            st.count('c11:abort:fired:%s:%s' % (case['runner'], ab[0]))
            an = [e[1] for e in obs['raw'] if e[0] == 'abort'][0]
            before = start_order(case, mixed)
            st.count('c11:abort:started_teardown_tasks_at_stop:%s' % (len(before) if len(before) < 3 else '3+'))
            if [n for n in before if n != an]:
                st.count('c11:abort:fired_after_other_teardown_task_started')
            if case['runner'] == 'thread' and any(
                    e[0] == 'start' and not any(f[0] == 'end' and f[1] == e[1] for f in mixed) for e in mixed):
                st.count('c11:abort:thread_other_action_in_flight')
            if ntd:
                st.count('c11:abort:teardowns_ran_after_abort')


# ======================================================================================================
# tasks created at run time by @create_after creators (sent to worker processes as whole pickled Task objects: JobTask)
# ======================================================================================================
#
# DCASE = {'c11d': True, 'static': [{'name','task_dep':[names],'teardown':bool,'td_fail':False|True|'raise','outcome':'ok'|'failed'}],
#          'creators': [{'fname': 'mk0', 'executed': None | static task name,
#                        'yields': [{'sub': 'a', 'task_dep': [full names], 'teardown', 'td_fail', 'outcome'}]}],
#          'runner', 'nproc', 'cont', 'policy'}            (no task argument: everything is run)
# Task ids: the static tasks, then per creator its basename (the group task doit makes; no actions) and its sub-tasks.
# The M1 model has no delayed creation: (K) is skipped for these cases; the teardown monitors (P) are evaluated as for
# every other case (teardown of exactly the tasks whose actions started, per executing entity).

_MAIN_PID = None
_DSRC = 0


def _who(rec):
    if rec.mode == 'file':
        return -1 if os.getpid() == _MAIN_PID else rec.worker
    w = getattr(threading.current_thread(), '_sched_id', None)
    return w if isinstance(w, int) else -1


class DAct(object):
    """python-action of a generated task; a picklable object (a delayed-created task is pickled whole by MRunner)"""

    def __init__(self, n, outcome):
        self.n, self.outcome = n, outcome
        self.__name__ = 'act_%d' % n

    def __call__(self):
        rec = runlib._REC
        w = rec.who()
        rec.ev(['start', self.n, w])
        rec.checkpoint(self.n)
        rec.ev(['end', self.n, w])
        return self.outcome == 'ok'


class DTd(object):
    """teardown action (picklable)"""

    def __init__(self, n, fail):
        self.n, self.fail = n, fail
        self.__name__ = 'td_%d' % n

    def __call__(self):
        rec = runlib._REC
        rec.ev(['td', self.n, _who(rec)])
        if self.fail == 'raise':
            raise RuntimeError('oracle says teardown error')
        if self.fail:
            return False


def prep_delayed(case):
    """derive the task list (ids) and a dependency-free model-level input from the spec"""
    tasks = []
    for t in case['static']:
        d = runlib._new_task(t['name'])
        d.update({'task_dep': list(t.get('task_dep', [])), 'teardown': bool(t.get('teardown')),
                  'td_fail': t.get('td_fail', False), 'outcome': t.get('outcome', 'ok')})
        tasks.append(d)
    for cr in case['creators']:
        g = runlib._new_task(cr['fname'], 'group')
        g['delayed'] = True
        tasks.append(g)
        for y in cr['yields']:
            d = runlib._new_task('%s:%s' % (cr['fname'], y['sub']), 'sub', cr['fname'])
            d.update({'task_dep': list(y.get('task_dep', [])), 'teardown': bool(y.get('teardown')),
                      'td_fail': y.get('td_fail', False), 'outcome': y.get('outcome', 'ok'), 'delayed': True})
            tasks.append(d)
    case['tasks'] = tasks
    case['sel'] = None
    case['always'] = False
    n = len(tasks)
    case['model'] = {'n': n, 'taskDep': [[] for _ in range(n)], 'setup': [[] for _ in range(n)],
                     'calcDep': [[] for _ in range(n)], 'sel': list(range(n)), 'cont': bool(case.get('cont')),
                     'always': False, 'runner': case['runner'], 'nproc': int(case.get('nproc', 0)),
                     'ignored': [False] * n, 'status': ['run'] * n,
                     'outcome': [t['outcome'] for t in tasks], 'argsOk': [True] * n,
                     'teardown': [bool(t['teardown']) for t in tasks],
                     'noAct': [t['kind'] == 'group' for t in tasks], 'calcRes': [None] * n}
    return case


def build_delayed_namespace(case, rec):
    from doit.loader import create_after
    import linecache
    global _MAIN_PID, _DSRC
    _MAIN_PID = os.getpid()
    idx = runlib.task_index(case)

    def task_dict(name, t):
        n = idx[name]
        d = {'actions': [DAct(n, t.get('outcome', 'ok'))]}
        if t.get('task_dep'):
            d['task_dep'] = list(t['task_dep'])
        if t.get('teardown'):
            d['teardown'] = [DTd(n, t.get('td_fail', False))]
        return d

    def static_gen():
        for t in case['static']:
            d = task_dict(t['name'], t)
            d['basename'] = t['name']
            yield d

    def creator_of(cr):
        def creator():
            for y in cr['yields']:
                d = task_dict('%s:%s' % (cr['fname'], y['sub']), y)
                d['name'] = y['sub']
                yield d
        return creator

    bodies = [('task_static0', static_gen, None)]
    for cr in case['creators']:
        kw = {}
        if cr.get('executed'):
            kw['executed'] = cr['executed']
        bodies.append(('task_' + cr['fname'], creator_of(cr), kw))
    # load_tasks orders creators by source line: give every function its own line in a synthetic source file
    _DSRC += 1
    fname = '/c11gen/case%d_%d.py' % (os.getpid(), _DSRC)
    src, env = '', {}
    for i, (key, body, kw) in enumerate(bodies):
        env['_body_%d' % i] = body
        src += 'def %s():\n    return _body_%d()\n\n' % (key, i)
    linecache.cache[fname] = (len(src), None, src.splitlines(True), fname)
    exec(compile(src, fname, 'exec'), env)
    ns = {}
    for key, body, kw in bodies:
        ns[key] = create_after(**kw)(env[key]) if kw is not None else env[key]

    class C11Reporter(runlib.RecReporter):
        def cleanup_error(self, exception):
            try:
                msg = exception.get_msg()
            except Exception:  # noqa
                msg = str(exception)
            name = msg.split("task '", 1)[1].split("'", 1)[0] if "task '" in msg else None
            rec.ev(['cleanup_error', rec.ids.get(name, name), _who(rec)])
    ns['DOIT_CONFIG'] = {'dep_file': 'db.json', 'backend': 'json', 'verbosity': 0, 'reporter': C11Reporter}
    return ns


def gen_delayed(seed, knobs):
    rng = random.Random(seed)
    runner = knobs.get('runner', 'process')
    static = []
    for i in range(rng.randint(1, 3)):
        t = {'name': 's%d' % i, 'task_dep': [], 'teardown': rng.random() < 0.6, 'td_fail': False,
             'outcome': 'failed' if rng.random() < 0.08 else 'ok'}
        if i and rng.random() < 0.4:
            t['task_dep'].append('s%d' % rng.randrange(i))
        if t['teardown'] and rng.random() < 0.2:
            t['td_fail'] = rng.choice([True, True, 'raise'])
        static.append(t)
    creators = []
    for c in range(rng.choice([1, 1, 2])):
        cr = {'fname': 'mk%d' % c, 'executed': rng.choice([None] + [t['name'] for t in static] * 2), 'yields': []}
        for k in range(rng.randint(1, 3)):
            y = {'sub': 'abc'[k], 'task_dep': [], 'teardown': rng.random() < 0.75, 'td_fail': False,
                 'outcome': 'failed' if rng.random() < 0.1 else 'ok'}
            r = rng.random()
            if r < 0.25:
                y['task_dep'].append(rng.choice(static)['name'])
            elif r < 0.45 and k:
                y['task_dep'].append('%s:%s' % (cr['fname'], 'abc'[rng.randrange(k)]))
            if y['teardown'] and rng.random() < 0.2:
                y['td_fail'] = rng.choice([True, True, 'raise'])
            cr['yields'].append(y)
        creators.append(cr)
    case = {'c11': True, 'c11d': True, 'static': static, 'creators': creators, 'runner': runner,
            'nproc': 0 if runner == 'serial' else rng.choice([1, 2, 2, 3]), 'cont': rng.random() < 0.4,
            'policy': runlib.gen_policy(rng, 3) if runner == 'thread' else {'kind': 'seeded', 'seed': rng.randrange(1 << 30)},
            'seed': seed}
    return prep_delayed(case)


def render_delayed(case):
    lines = []
    n = 0
    for t in case['static']:
        lines.append('#%d %-8s %s%s%s' % (n, t['name'], 'task_dep=%s ' % t['task_dep'] if t.get('task_dep') else '',
                                          _orc(t), ''))
        n += 1
    for cr in case['creators']:
        lines.append('#%d %-8s @create_after(%s) creator, yields:' % (
            n, cr['fname'], 'executed=%r' % cr['executed'] if cr.get('executed') else ''))
        n += 1
        for y in cr['yields']:
            lines.append('#%d   %-8s %s%s' % (n, '%s:%s' % (cr['fname'], y['sub']),
                                             'task_dep=%s ' % y['task_dep'] if y.get('task_dep') else '', _orc(y)))
            n += 1
    lines.append('$ doit ' + ' '.join(runlib.argv_of(case)))
    if case['runner'] == 'thread':
        lines.append('schedule policy: %s%s' % (case.get('policy'),
                                                '  script=%s' % case['schedule'] if case.get('schedule') else ''))
    elif case['runner'] == 'process' and case.get('schedule'):
        lines.append('token release order: %s' % case['schedule'])
    return '\n'.join(lines)


def _orc(t):
    o = []
    if t.get('outcome', 'ok') != 'ok':
        o.append('action fails')
    if t.get('teardown'):
        o.append('teardown' + (' FAILS (%s)' % ('raises' if t['td_fail'] == 'raise' else 'returns False')
                               if t.get('td_fail') else ''))
    return ('[' + '; '.join(o) + ']') if o else ''


def _delayed_variants(case):
    base = {k: v for k, v in case.items() if k not in ('model', 'tasks', 'schedule', '_sel_impl')}

    def clone():
        return json.loads(json.dumps(base))
    used = set(d for t in case['static'] for d in t.get('task_dep', []))
    used |= set(d for cr in case['creators'] for y in cr['yields'] for d in y.get('task_dep', []))
    used |= set(cr['executed'] for cr in case['creators'] if cr.get('executed'))
    for i, cr in enumerate(case['creators']):
        if len(case['creators']) > 1:
            c = clone()
            del c['creators'][i]
            gone = set('%s:%s' % (cr['fname'], y['sub']) for y in cr['yields'])
            if not (gone & used):
                yield c
        for j, y in enumerate(cr['yields']):
            if len(cr['yields']) > 1 and '%s:%s' % (cr['fname'], y['sub']) not in used:
                c = clone()
                del c['creators'][i]['yields'][j]
                yield c
    for i, t in enumerate(case['static']):
        if len(case['static']) > 1 and t['name'] not in used:
            c = clone()
            del c['static'][i]
            yield c
    for i, cr in enumerate(case['creators']):
        if cr.get('executed'):
            c = clone()
            c['creators'][i]['executed'] = None
            yield c
        for j, y in enumerate(cr['yields']):
            for key, val in (('task_dep', []), ('td_fail', False), ('outcome', 'ok'), ('teardown', False)):
                if y.get(key) not in (val, None):
                    c = clone()
                    c['creators'][i]['yields'][j][key] = val
                    yield c
    for i, t in enumerate(case['static']):
        for key, val in (('task_dep', []), ('td_fail', False), ('outcome', 'ok'), ('teardown', False)):
            if t.get(key) not in (val, None):
                c = clone()
                c['static'][i][key] = val
                yield c
    if case.get('cont'):
        c = clone()
        c['cont'] = False
        yield c
    if case['runner'] != 'serial' and case['nproc'] > 1:
        c = clone()
        c['nproc'] = case['nproc'] - 1
        yield c


def shrink_delayed(case, first, max_seconds, max_tests=60):
    cur = case
    t0 = time.time()
    tests = 0
    progress = True
    while progress and tests < max_tests and time.time() - t0 < max_seconds:
        progress = False
        for cand in _delayed_variants(cur):
            if tests >= max_tests or time.time() - t0 > max_seconds:
                break
            tests += 1
            try:
                prep_delayed(cand)
                o, mx = observe(cand)
                p, _ = py_monitors(cand, o, mx)
                ok = p.get(first, True) is False
            except Exception:  # noqa
                ok = False
            if ok:
                cur = cand
                progress = True
                break
    return cur


# ======================================================================================================
# judging one case
# ======================================================================================================

def observe(case):
    return post(case, runlib.run_impl(case, keep_raw=True))


def post(case, obs):
    """canonical trace without the cleanup_error marks (they are part of the merged teardown observation instead; the
    base model has no such event), the selection the runner really got, the merged observation"""
    obs['trace'] = [e for e in obs['trace'] if e[0] != 'cleanup_error']
    sel = obs.get('selected')
    m = case.get('model') or runlib.expand(case)
    if sel is not None and all(isinstance(x, int) for x in sel) and sel != m['sel']:
        case['_sel_impl'] = list(sel)
    else:
        case.pop('_sel_impl', None)
    return obs, mixed_of(case, obs)


def make_witness(case, obs, mixed, failed, py, lean, detail):
    c = {k: v for k, v in case.items() if k not in ('model', '_sel_impl') and not (k == 'tasks' and case.get('c11d'))}
    c['schedule'] = obs.get('schedule')
    names = [t['name'] for t in case['tasks']]

    def nm(x):
        return names[x] if isinstance(x, int) and 0 <= x < len(names) else str(x)
    return {'case': c, 'rendered': render(case).split('\n'), 'trace': obs['trace'],
            'trace_text': runlib.render_trace(case, obs['trace']),
            'mixed': mixed,
            'teardown_text': ' '.join('%s(%s)@%s' % (e[0], nm(e[1]), 'main' if e[2] == -1 else 'w%s' % e[2])
                                      for e in mixed),
            'exit': obs['exit'], 'err': obs['err'], 'stderr': (obs.get('stderr') or '')[-300:],
            'failed_monitors': sorted(failed), 'python_monitors': py, 'lean_monitors': lean, 'detail': detail}


def render(case):
    if case.get('c11d'):
        return render_delayed(case)
    lines = runlib.render(case).split('\n')
    for i, t in enumerate(case['tasks']):
        if t.get('td_fail'):
            lines[i] += '   [teardown FAILS (%s)]' % ('raises' if t['td_fail'] == 'raise' else 'returns False')
        if t.get('abort'):
            lines[i] += '   [its action ends with `raise %s` (sys.exit / Ctrl-C inside the action): the run stops here]' % t['abort']
    return '\n'.join(lines)


def failed_monitors(py, lean):
    return [k for k in KEYS if py.get(k, True) is False or (lean is not None and k in py and lean.get(k, True) is False)]


def shrink_case(case, first, max_seconds):
    if case.get('c11d'):
        return shrink_delayed(case, first, max_seconds)

    def still(c):
        c['model'] = runlib.expand(c)
        o, mx = observe(c)
        p, _ = py_monitors(c, o, mx)
        return p.get(first, True) is False
    base = dict(case)
    base.pop('schedule', None)
    base.pop('_sel_impl', None)
    small = runlib.shrink(base, still, max_tests=100, max_seconds=max_seconds)
    # own simplifications: teardown failures off, teardown off
    for i, t in enumerate(small['tasks']):
        for key, val in (('td_fail', False),):
            if t.get(key):
                c = json.loads(json.dumps({k: v for k, v in small.items() if k not in ('model', 'schedule', '_sel_impl')}))
                c['tasks'][i][key] = val
                try:
                    if still(c):
                        small = c
                except Exception:  # noqa
                    pass
    small['model'] = runlib.expand(small)
    return small


def judge(case, obs, mixed, base_ans, ans, st, shrink_left):
    py, pywit = py_monitors(case, obs, mixed)
    st.traces += 1
    lean = None
    if ans is None or 'error' in ans:
        st.count('driver_unavailable')
    else:
        lean = ans.get('monitor') or {}
        for k, v in (ans.get('hyp') or {}).items():
            st.count('hyp:%s=%s' % (k, v))
    failed = failed_monitors(py, lean)
    used = 0.0
    if failed:
        first = failed[0]
        wit = make_witness(case, obs, mixed, failed, py, lean, pywit)
        if shrink_left > 0 and py.get(first, True) is False:
            t0 = time.time()
            try:
                small = shrink_case(case, first, min(12.0, shrink_left))
                o2, m2 = observe(small)
                p2, w2 = py_monitors(small, o2, m2)
                bad2 = failed_monitors(p2, None)
                if bad2:
                    a2 = ask([(small, o2, m2)])[0][1]
                    l2 = None if 'error' in a2 else a2.get('monitor')
                    wit = make_witness(small, o2, m2, failed_monitors(p2, l2), p2, l2, w2)
            except Exception:  # noqa  -- shrinking is best effort; the unshrunk witness stands
                st.count('shrink_failed')
            used = time.time() - t0
        st.violation(wit, 'monitor:' + ','.join(wit['failed_monitors']),
                     '%s false on the implementation (%s)' % (wit['failed_monitors'], wit['detail']))
        st.count('violation_found')
        return used
    if lean is not None:
        disagree = [k for k in KEYS if k in py and py[k] != lean.get(k, True)]
        if disagree:
            st.divergence(make_witness(case, obs, mixed, disagree, py, lean, pywit),
                          'python and Lean monitors disagree on %s' % disagree)
            return used
    # (K1) base model accepts the trace
    if abort_fired(obs):
        # a run stopped by SystemExit / KeyboardInterrupt out of an action is not a behaviour of M1 (no such transition):
        # monitors only (Lean + Python) for these runs
        st.count('k_skipped:abort_not_in_M1')
        return used
    if case.get('c11d'):
        st.count('k_skipped:delayed_creation_not_in_M1')
    elif base_ans is None or 'error' in base_ans:
        st.count('driver_unavailable_base')
    else:
        if base_ans.get('skipped'):
            st.count('model_search_skipped')
        st.count('model:accepted' if base_ans.get('accepted') else 'model:rejected')
        if not base_ans.get('accepted') and not base_ans.get('skipped'):
            w = make_witness(case, obs, mixed, [], py, lean, {})
            w['matched'] = base_ans.get('matched')
            w['expected'] = base_ans.get('expected')
            st.divergence(w, 'correspondence M1: model cannot produce the implementation trace; matched %s events, next '
                             'impl events %s, model could emit %s'
                          % (base_ans.get('matched'), obs['trace'][base_ans.get('matched') or 0:][:2],
                             base_ans.get('expected')))
            return used
    # (K2) teardown log of the extended model
    if lean is not None and td_applicable(case, obs):
        want = ans.get('model_td') or []
        tdlog = [e for e in mixed if e[0] in ('td', 'tderr')]
        if case['runner'] == 'process':
            got = [e for w in range(case['nproc']) for e in tdlog if e[2] == w]
            stray = [e for e in tdlog if e[2] == -1 or e[2] >= case['nproc']]
        else:
            got = [[e[0], e[1], -1] for e in tdlog]
            stray = []
        if got != want or stray:
            w = make_witness(case, obs, mixed, [], py, lean, {'model_td': want, 'observed_td': got, 'stray': stray})
            st.divergence(w, 'correspondence teardown: extended model log %s, implementation %s' % (want, got + stray))
        else:
            st.count('model_td:agrees')
        crashed = obs['err'] is not None and str(obs['err']).startswith('crash')
        if bool(ans.get('model_crash')) != crashed:
            w = make_witness(case, obs, mixed, [], py, lean, {'model_crash': ans.get('model_crash'), 'err': obs['err']})
            st.divergence(w, 'correspondence teardown: model says main process dies=%s, implementation err=%s'
                          % (ans.get('model_crash'), obs['err']))
    return used


def eval_batch(batch):
    """worker: {'cases': [...]} / {'gen': [(seed, knobs)...]} / {'exhaustive': [...], 'limit': k} -> WorkerStats"""
    st = common.WorkerStats()
    common.use_repo()
    triples = []
    for c in batch.get('cases', []):
        c = dict(c)
        c['c11'] = True
        if c.get('c11d'):
            prep_delayed(c)
        else:
            c['model'] = runlib.expand(c)
        o, mx = observe(c)
        triples.append((c, o, mx))
    for seed, knobs in batch.get('gen', []):
        c = gen_delayed(seed, knobs) if knobs.get('delayed') else \
            gen_shared_setup(seed, knobs) if knobs.get('shared_setup') else \
            gen_calc_task_setup(seed, knobs) if knobs.get('calc_task_setup') else gen_case(seed, knobs)
        o, mx = observe(c)
        triples.append((c, o, mx))
    for c in batch.get('exhaustive', []):
        c = dict(c)
        c['c11'] = True
        c['model'] = runlib.expand(c)
        got = []

        def on_obs(cc, oo):
            cc = dict(cc)
            oo2, mx = post(cc, oo)
            got.append((cc, oo2, mx))
        runs, done = runlib.enumerate_schedules(c, limit=batch.get('limit', 64), on_obs=on_obs)
        st.count('exhaustive:dags')
        st.count('exhaustive:schedules', runs)
        if not done:
            st.count('exhaustive:truncated')
        triples += got
    answers = ask(triples)
    shrink_left = batch.get('shrink_s', 15.0)
    for (c, o, mx), (ba, a) in zip(triples, answers):
        st.case({'case': render(c).split('\n'), 'schedule': o.get('schedule')}, nontrivial(c, o))
        count_case(st, c, o, mx)
        if len(st.violations) >= 2:
            shrink_left = 0
        if len(st.violations) >= 4:
            st.count('not_judged_after_4_violations_in_batch')
            continue
        shrink_left -= judge(c, o, mx, ba, a, st, shrink_left)
    return st


# ======================================================================================================
# plan
# ======================================================================================================

def small_cases(max_n=3):
    """exhaustive small scope: every DAG on <=max_n tasks with task_dep / setup edges, every task with a teardown, thread
    runner with 2 workers (all completion orders), plus serial variants with one task up-to-date / failing / ignored
    and a failing teardown"""
    dags = runlib.small_dags(max_n, ('task_dep', 'setup'))
    thread, serial = [], []
    for d in dags:
        for t in d['tasks']:
            t['teardown'] = True
        thread.append(d)
        n = len(d['tasks'])
        if not any(t['setup'] for t in d['tasks']):
            continue
        for i in range(n):
            for key, val in (('status', 'utd'), ('outcome', 'failed'), ('ignored', True), ('td_fail', True),
                             ('abort', 'SystemExit'), ('abort', 'KeyboardInterrupt')):
                c = json.loads(json.dumps(d))
                c['tasks'][i][key] = val
                c['runner'], c['nproc'] = 'serial', 0
                c.pop('policy', None)
                c['cont'] = (i % 2 == 0)
                serial.append(c)
    return thread, serial


def plan(ctx, scale=1.0):
    quick = ctx.tier == 'quick'
    n_serial = int((600 if quick else 6000) * ctx.boost * scale)
    n_thread = int((500 if quick else 6000) * ctx.boost * scale)
    n_proc = int((15 if quick else 150) * min(ctx.boost, 2) * scale)
    rng = ctx.rng
    gen = []
    for _ in range(n_serial):
        gen.append((rng.randrange(1 << 60), dict(KNOBS, runner='serial', p_abort=0.12)))
    for _ in range(n_thread):
        gen.append((rng.randrange(1 << 60), dict(KNOBS, runner='thread', gen_policy=True, p_abort=0.12)))
    for _ in range(int((40 if quick else 600) * ctx.boost * scale)):
        gen.append((rng.randrange(1 << 60), {'delayed': True, 'runner': rng.choice(['serial', 'thread'])}))
    for _ in range(int((60 if quick else 800) * ctx.boost * scale)):
        gen.append((rng.randrange(1 << 60), {'shared_setup': True, 'runner': rng.choice(['serial', 'serial', 'thread'])}))
    for _ in range(int((50 if quick else 600) * ctx.boost * scale)):
        gen.append((rng.randrange(1 << 60), {'calc_task_setup': True, 'runner': rng.choice(['serial', 'serial', 'thread'])}))
    rng.shuffle(gen)
    size = 20 if quick else 60
    pool = [{'gen': gen[i:i + size], 'shrink_s': 12.0} for i in range(0, len(gen), size)]
    procs = [(rng.randrange(1 << 60), dict(KNOBS, runner='process', n_max=6, p_td_fail=0.25, p_abort=0.2)) for _ in range(n_proc)]
    # tasks created at run time travel to the worker processes as whole pickled Task objects (JobTask)
    n_dproc = int((12 if quick else 100) * min(ctx.boost, 2) * scale)
    procs += [(rng.randrange(1 << 60), {'delayed': True, 'runner': 'process'}) for _ in range(n_dproc)]
    rng.shuffle(procs)
    return pool, [{'gen': procs[i:i + 5], 'shrink_s': 10.0} for i in range(0, len(procs), 5)]


def corpus_batches():
    plain, explore, main = [], [], []
    for name, c in common.load_corpus(PROP):
        c['corpus'] = name
        if c.get('runner') == 'process':
            main.append(c)
        elif c.get('explore') and c.get('runner') == 'thread':
            explore.append(c)
        else:
            plain.append(c)
    pool = []
    if plain:
        pool.append({'cases': plain, 'shrink_s': 12.0})
    for i in range(0, len(explore), 4):
        pool.append({'exhaustive': explore[i:i + 4], 'limit': 150, 'shrink_s': 12.0})
    return pool, ([{'cases': main[i:i + 4], 'shrink_s': 10.0} for i in range(0, len(main), 4)])


def exhaustive_batches(ctx):
    max_n = 3 if ctx.tier == 'quick' else 4
    thread, serial = small_cases(max_n)
    if ctx.tier == 'quick' and ctx.boost <= 1:
        thread = [d for d in thread if any(t['setup'] for t in d['tasks']) or len(d['tasks']) <= 2]
    ctx.extra['exhaustive_small_scope'] = {
        'max_tasks': max_n, 'labels': ['task_dep', 'setup'], 'thread_dags': len(thread), 'workers': 2,
        'schedules': 'every completion order under eager dispatch (runlib policy eager)',
        'serial_variants': len(serial)}
    out = [{'exhaustive': thread[i:i + 6], 'limit': 48, 'shrink_s': 6.0} for i in range(0, len(thread), 6)]
    out += [{'cases': serial[i:i + 40], 'shrink_s': 6.0} for i in range(0, len(serial), 40)]
    return out


def run(ctx, scale=1.0):
    cpool, cmain = corpus_batches()
    ctx.count('corpus', sum(len(b.get('cases', [])) + len(b.get('exhaustive', [])) for b in cpool + cmain))
    pool, main = plan(ctx, scale)
    batches = cpool + exhaustive_batches(ctx) + pool
    for st in common.pmap(eval_batch, batches):
        st.merge_into(ctx)
    if ctx.violations:
        ctx.count('process_batches_skipped_after_violation')
    else:
        for st in runlib.fork_map(eval_batch, cmain + main, procs=4):
            st.merge_into(ctx)


def search(ctx):
    ctx.rng.seed(ctx.seed * 1000003 + 7919)
    run(ctx, scale=2.0 if ctx.time_left() > 0.5 * (ctx.budget_s or 30) else 0.7)


def replay(ctx, data):
    w = data.get('witness') or {}
    case = w.get('case')
    if not case:
        print('nothing to replay (no failing input was found): %s' % data.get('note'))
        for r in data.get('no_longer_checks', [])[:5]:
            print(' -', r.get('kind'), ':', str(r.get('note'))[:400])
        return False
    case = dict(case)
    case['c11'] = True
    if case.get('c11d'):
        prep_delayed(case)
    else:
        case['model'] = runlib.expand(case)
    print(render(case))
    obs, mixed = observe(case)
    names = [t['name'] for t in case['tasks']]
    print('exit=%s err=%s' % (obs['exit'], obs['err']))
    print('trace:', runlib.render_trace(case, obs['trace']))
    print('actions and teardowns:', ' '.join(
        '%s(%s)@%s' % (e[0], names[e[1]] if isinstance(e[1], int) and e[1] < len(names) else e[1],
                       'main' if e[2] == -1 else 'w%s' % e[2]) for e in mixed))
    if obs.get('stderr'):
        print('stderr:', obs['stderr'][-300:])
    py, wit = py_monitors(case, obs, mixed)
    ba, a = ask([(case, obs, mixed)])[0]
    lean = None if 'error' in a else a.get('monitor')
    print('teardown statement evaluated:', td_applicable(case, obs))
    print('python monitors:', py)
    print('lean monitors  :', lean if lean is not None else a)
    print('detail         :', wit)
    bad = failed_monitors(py, lean)
    if bad:
        print('FAILED monitors:', bad)
        return False
    print('base model accepts the trace:', 'not applicable (delayed creation is not in M1)' if case.get('c11d') else
          'not applicable (a run stopped by SystemExit / KeyboardInterrupt is not in M1)' if abort_fired(obs) else
          ba.get('accepted') if isinstance(ba, dict) else ba)
    if lean is not None:
        print('extended model teardown log:', a.get('model_td'), ' main dies:', a.get('model_crash'))
    if data.get('failed') == 'correspondence' and not case.get('c11d') and not abort_fired(obs) and isinstance(ba, dict) and not ba.get('accepted') and not ba.get('skipped'):
        return False
    return True
